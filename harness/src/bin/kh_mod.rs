//! C18 modules: materialises a module graph in a scratch directory (never inside the koto checkout),
//! runs histories of host scripts on ONE `Koto` runtime each, and reports per step the error class,
//! the captured stdout lines and the host's exports map.
//!
//! case: {"files": [{"path": "a.koto" | "a/main.koto", "src": "..."}],
//!        "prelude_names": ["string", ...],
//!        "runs": [{"tests": bool, "steps": [{"clear": true} | {"src": "...", "force": bool, "dir": "" | "a"}]}]}
//! out:  {"runs": [[{"r": class, "out": [lines], "exports": "M{...}", "msg": "...", "guard": bool}]]} | {"panic", "at"}
//!
//! Robustness: every case runs in its own thread with a 1 GiB stack and its output line is flushed
//! before the next case starts (the check attributes a dying harness to the first case without a
//! line).  The stdout sink counts the "top level entered" markers (m:100..m:199) per host step: when
//! one of them is printed more than GUARD_LIMIT times within a single step the sink trips -- that
//! write and every later write of the step fail -- so that an unbounded nested re-execution of a
//! module's top level (a cycle that is not reported) unwinds as an error instead of overflowing the
//! stack; the step is reported with "guard": true (the markers printed so far are kept).
use kh::*;
use koto::prelude::*;
use koto::runtime::{KotoVmSettings, Ptr};
use serde_json::{Value, json};
use std::path::{Path, PathBuf};

const GUARD_LIMIT: usize = 40;

#[derive(Default)]
struct SinkState {
    text: String,
    counts: std::collections::HashMap<String, usize>,
    tripped: bool,
}

/// stdout / stderr sink with the per-step repetition guard
#[derive(Clone)]
struct Sink {
    st: koto::runtime::PtrMut<SinkState>,
}

impl Sink {
    fn new() -> Self {
        Self { st: koto::runtime::PtrMut::from(SinkState::default()) }
    }
    /// returns (text, guard tripped) and resets the per-step state
    fn take(&self) -> (String, bool) {
        let mut st = self.st.borrow_mut();
        let text = std::mem::take(&mut st.text);
        let tripped = st.tripped;
        st.counts.clear();
        st.tripped = false;
        (text, tripped)
    }
    fn line(&self, line: &str) -> koto::runtime::Result<()> {
        let mut st = self.st.borrow_mut();
        if st.tripped {
            return koto::runtime::runtime_error!("kv_guard: output refused after the guard tripped");
        }
        let is_top = line.len() == 5 && line.starts_with("m:1");
        if is_top {
            let n = st.counts.entry(line.to_string()).or_insert(0);
            *n += 1;
            if *n > GUARD_LIMIT {
                st.tripped = true;
                st.text.push_str(line);
                st.text.push('\n');
                return koto::runtime::runtime_error!("kv_guard: marker {line} printed more than {GUARD_LIMIT} times in one step");
            }
        }
        st.text.push_str(line);
        st.text.push('\n');
        Ok(())
    }
}

impl KotoFile for Sink {
    fn id(&self) -> KString {
        "_sink_".into()
    }
}
impl KotoRead for Sink {}
impl KotoWrite for Sink {
    fn write(&self, bytes: &[u8]) -> koto::runtime::Result<()> {
        self.st.borrow_mut().text.push_str(&String::from_utf8_lossy(bytes));
        Ok(())
    }
    fn write_line(&self, output: &str) -> koto::runtime::Result<()> {
        self.line(output)
    }
    fn flush(&self) -> koto::runtime::Result<()> {
        Ok(())
    }
}

fn render(v: &KValue, prelude: &[(String, KValue)], depth: usize, out: &mut String) {
    if depth > 12 {
        out.push('9');
        return;
    }
    match v {
        KValue::Number(n) => out.push_str(&format!("i{}", i64::from(n))),
        KValue::Str(s) => {
            out.push('s');
            out.push_str(s.as_str())
        }
        KValue::Map(m) => {
            for (name, p) in prelude {
                if p.is_same_instance(v) {
                    out.push('P');
                    out.push_str(name);
                    return;
                }
            }
            out.push_str("M{");
            let entries: Vec<(String, KValue)> = m
                .data()
                .iter()
                .map(|(k, v)| {
                    let key = match k.value() {
                        KValue::Str(s) => s.as_str().to_string(),
                        _ => "?".to_string(),
                    };
                    (key, v.clone())
                })
                .collect();
            for (i, (k, e)) in entries.iter().enumerate() {
                if i > 0 {
                    out.push(',');
                }
                out.push_str(k);
                out.push('=');
                render(e, prelude, depth + 1, out);
            }
            out.push('}');
        }
        KValue::Null => out.push('n'),
        _ => out.push('?'),
    }
}

/// error CLASS from the rendered message (the `Koto` wrapper only keeps the text):
/// the thrown marker anywhere, otherwise keywords of the first line (the kind's own message)
fn classify(e: &koto::Error) -> u64 {
    let text = e.to_string();
    let first = text.lines().next().unwrap_or("");
    if text.contains("kv_guard") {
        9
    } else if matches!(e, koto::Error::CompileError { .. }) && !first.contains("unable to find module") {
        8
    } else if text.contains("kv_thrown") {
        3
    } else if first.contains("recursive import of module") {
        1
    } else if first.contains("unable to find module") {
        2
    } else if first.contains("not found") {
        4
    } else if first.contains("expected") || first.contains("unable to perform operation") {
        5
    } else {
        7
    }
}

fn run_case(case: &Value, root: &Path) -> Value {
    std::fs::create_dir_all(root).expect("scratch dir");
    for f in case["files"].as_array().unwrap() {
        let p = root.join(f["path"].as_str().unwrap());
        std::fs::create_dir_all(p.parent().unwrap()).unwrap();
        std::fs::write(&p, f["src"].as_str().unwrap()).unwrap();
    }
    let mut runs_out = vec![];
    for run in case["runs"].as_array().unwrap() {
        let capture = Sink::new();
        let stdout: Ptr<dyn KotoFile> = Ptr::from(Box::new(capture.clone()) as Box<dyn KotoFile>);
        let stderr: Ptr<dyn KotoFile> = Ptr::from(Box::new(capture.clone()) as Box<dyn KotoFile>);
        let mut koto = Koto::with_settings(KotoSettings {
            run_tests: false,
            vm_settings: KotoVmSettings {
                run_import_tests: run["tests"].as_bool().unwrap_or(true),
                stdout: stdout.clone(),
                stderr,
                execution_limit: Some(std::time::Duration::from_secs(60)),
                ..Default::default()
            },
        });
        let prelude: Vec<(String, KValue)> = case["prelude_names"]
            .as_array()
            .map(|a| {
                a.iter()
                    .filter_map(|n| {
                        let n = n.as_str()?;
                        koto.prelude().get(n).map(|v| (n.to_string(), v))
                    })
                    .collect()
            })
            .unwrap_or_default();
        {
            let prelude = prelude.clone();
            let sink = stdout.clone();
            koto.prelude().add_fn("show", move |ctx| {
                let mut line = String::from("v:");
                match ctx.args() {
                    [v] => render(v, &prelude, 0, &mut line),
                    _ => line.push('?'),
                }
                sink.write_line(&line)?;
                Ok(KValue::Null)
            });
        }
        let mut steps_out = vec![];
        for step in run["steps"].as_array().unwrap() {
            if step.get("clear").and_then(|c| c.as_bool()).unwrap_or(false) {
                koto.clear_module_cache();
                let mut ex = String::new();
                render(&KValue::Map(koto.exports().clone()), &prelude, 0, &mut ex);
                steps_out.push(json!({"r": 0, "out": [], "exports": ex, "msg": "", "guard": false}));
                continue;
            }
            let src = step["src"].as_str().unwrap();
            let force = step["force"].as_bool().unwrap_or(false);
            let dir: PathBuf = root.join(step["dir"].as_str().unwrap_or(""));
            let args = CompileArgs::new(src)
                .script_path(dir.to_string_lossy().to_string())
                .export_top_level_ids(force);
            let (r, msg) = match koto.compile_and_run(args) {
                Ok(_) => (0, String::new()),
                Err(e) => (classify(&e), e.to_string()),
            };
            let (text, tripped) = capture.take();
            let lines: Vec<&str> = text.lines().collect();
            let mut ex = String::new();
            render(&KValue::Map(koto.exports().clone()), &prelude, 0, &mut ex);
            steps_out.push(json!({"r": r, "out": lines, "exports": ex, "msg": msg, "guard": tripped}));
        }
        runs_out.push(Value::Array(steps_out));
    }
    json!({ "runs": runs_out })
}

fn main() {
    use std::io::Write;
    quiet_panics();
    let cases = read_cases();
    let mut w = out();
    let base = std::env::var("KH_MOD_SCRATCH")
        .map(PathBuf::from)
        .unwrap_or_else(|_| std::env::temp_dir());
    for (i, case) in cases.iter().enumerate() {
        let root = base.join(format!("kh_mod-{}-{}", std::process::id(), i));
        let repo = std::env::var("KOTO_REPO").unwrap_or_else(|_| "/repo".into());
        assert!(!root.starts_with(&repo), "scratch directory must not be inside the koto checkout");
        let _ = std::fs::remove_dir_all(&root);
        let root2 = root.clone();
        let case2 = case.clone();
        let handle = std::thread::Builder::new()
            .stack_size(1 << 30)
            .spawn(move || {
                quiet_panics();
                let r = guarded(move || run_case(&case2, &root2));
                (r, last_panic_location())
            })
            .expect("spawn");
        let joined = handle.join();
        let _ = std::fs::remove_dir_all(&root);
        match joined {
            Ok((Ok(v), _)) => emit_line(&mut w, &v),
            Ok((Err(msg), at)) => emit_line(&mut w, &json!({"panic": msg, "at": at})),
            Err(_) => emit_line(&mut w, &json!({"panic": "case thread died", "at": ""})),
        }
        w.flush().unwrap();
    }
}
