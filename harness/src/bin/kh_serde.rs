//! C20 correspondence: data interchange round trips.
//!
//! One JSON case per line, `{"op": ...}`:
//!   text   {fmt, v}        v -> <fmt>.to_string -> <fmt>.from_string (twice), inside a koto script and
//!                          through the Rust API of the text crate
//!   parse  {fmt, text}     <fmt>.from_string on an arbitrary document (script + API), then re-print/re-parse
//!   ser    {v}             SerializableKValue -> recorded serde data-model tree
//!   de     {d}             data-model tree -> KValueVisitor -> KValue
//!   codec  {fmt, d}        data-model tree -> text crate -> recorded data-model tree (the assumed contract)
//!   typed  {ty, d}         build the Rust value of registered type `ty` from the tree d, to_koto_value,
//!                          from_koto_value, compare
//!   from   {ty, v}         from_koto_value::<ty>(v) on an arbitrary KValue
//!   types  {}              descriptors of the registered Rust types
//!   casts  {f32:[bits], f64:[bits], i64:[ints]}   Rust `as` casts (to validate the model's cast functions)
//!
//! Value encoding (kv):  ["n"] ["b",bool] ["i",int] ["d",f64 bits] ["s",[code points]] ["L",[kv]] ["T",[kv]]
//!                       ["M",[[kv,kv]]] ["R"] (a range: not serializable)
//! Tree encoding (dm):   ["unit"] ["bool",b] ["int",kind,"decimal"] ["f32",bits] ["f64",bits] ["char",cp]
//!                       ["str",[cps]] ["bytes",[u8]] ["none"] ["some",d] ["ustruct"] ["nstruct",d] ["seq",[d]]
//!                       ["tuple",[d]] ["tstruct",[d]] ["map",[[d,d]]] ["struct",[[name,d]]] ["uvar",name]
//!                       ["nvar",name,d] ["tvar",name,[d]] ["svar",name,[[name,d]]]
use kh::script::ScriptVm;
use kh::*;
use koto_runtime::prelude::*;
use koto_serde::{DeserializableKValue, SerializableKValue, from_koto_value, to_koto_value};
use serde::de::{self, DeserializeOwned, DeserializeSeed, IntoDeserializer, Visitor};
use serde::ser;
use serde::{Deserialize, Deserializer, Serialize, Serializer};
use serde_json::{Value, json};
use std::collections::BTreeMap;
use std::fmt;

// ---------------------------------------------------------------------------------------------
// kv <-> JSON

fn cps_of(s: &str) -> Value {
    Value::Array(s.chars().map(|c| json!(c as u32)).collect())
}

fn str_of(v: &Value) -> Result<String, String> {
    cps_to_string(v).ok_or_else(|| "bad code point list".to_string())
}

fn kv_to_json(v: &KValue) -> Value {
    match v {
        KValue::Null => json!(["n"]),
        KValue::Bool(b) => json!(["b", b]),
        KValue::Number(KNumber::I64(i)) => json!(["i", i]),
        KValue::Number(KNumber::F64(f)) => json!(["d", f.to_bits()]),
        KValue::Str(s) => json!(["s", cps_of(s.as_str())]),
        KValue::List(l) => json!(["L", l.data().iter().map(kv_to_json).collect::<Vec<_>>()]),
        KValue::Tuple(t) => json!(["T", t.iter().map(kv_to_json).collect::<Vec<_>>()]),
        KValue::Map(m) => json!([
            "M",
            m.data().iter().map(|(k, v)| json!([kv_to_json(k.value()), kv_to_json(v)])).collect::<Vec<_>>()
        ]),
        KValue::Range(_) => json!(["R"]),
        _ => json!(["X"]),
    }
}

fn kv_from_json(j: &Value) -> Result<KValue, String> {
    let a = j.as_array().ok_or("kv: not an array")?;
    let tag = a.first().and_then(|t| t.as_str()).ok_or("kv: no tag")?;
    let seq = |j: &Value| -> Result<Vec<KValue>, String> {
        j.as_array().ok_or("kv: children")?.iter().map(kv_from_json).collect()
    };
    Ok(match tag {
        "n" => KValue::Null,
        "b" => KValue::Bool(a[1].as_bool().ok_or("kv: bool")?),
        "i" => KValue::Number(KNumber::I64(a[1].as_i64().ok_or("kv: i64")?)),
        "d" => KValue::Number(KNumber::F64(f64::from_bits(a[1].as_u64().ok_or("kv: f64 bits")?))),
        "s" => KValue::Str(str_of(&a[1])?.as_str().into()),
        "L" => KValue::List(KList::from_slice(&seq(&a[1])?)),
        "T" => KValue::Tuple(seq(&a[1])?.into()),
        "M" => {
            let m = KMap::new();
            for e in a[1].as_array().ok_or("kv: entries")? {
                let k = kv_from_json(&e[0])?;
                let v = kv_from_json(&e[1])?;
                let key = ValueKey::try_from(k).map_err(|_| "kv: unhashable key".to_string())?;
                m.data_mut().insert(key, v);
            }
            KValue::Map(m)
        }
        "R" => KValue::Range(KRange::new(Some(0), Some((1, false)))),
        other => return Err(format!("kv: unknown tag {other}")),
    })
}

// ---------------------------------------------------------------------------------------------
// the serde data model as a tree

#[derive(Clone, Debug, PartialEq)]
enum Dm {
    Unit,
    Bool(bool),
    Int(&'static str, i128),
    F32(u32),
    F64(u64),
    Char(char),
    Str(String),
    Bytes(Vec<u8>),
    None,
    Some(Box<Dm>),
    UStruct,
    NStruct(Box<Dm>),
    Seq(Vec<Dm>),
    Tuple(Vec<Dm>),
    TStruct(Vec<Dm>),
    Map(Vec<(Dm, Dm)>),
    Struct(Vec<(String, Dm)>),
    UVar(String),
    NVar(String, Box<Dm>),
    TVar(String, Vec<Dm>),
    SVar(String, Vec<(String, Dm)>),
}

const KINDS: [&str; 10] = ["i8", "i16", "i32", "i64", "i128", "u8", "u16", "u32", "u64", "u128"];

fn kind_static(k: &str) -> Result<&'static str, String> {
    KINDS.iter().copied().find(|x| *x == k).ok_or_else(|| format!("dm: int kind {k}"))
}

fn dm_to_json(d: &Dm) -> Value {
    let l = |v: &Vec<Dm>| Value::Array(v.iter().map(dm_to_json).collect());
    let f = |v: &Vec<(String, Dm)>| Value::Array(v.iter().map(|(n, d)| json!([n, dm_to_json(d)])).collect());
    match d {
        Dm::Unit => json!(["unit"]),
        Dm::Bool(b) => json!(["bool", b]),
        Dm::Int(k, z) => json!(["int", k, z.to_string()]),
        Dm::F32(b) => json!(["f32", b]),
        Dm::F64(b) => json!(["f64", b]),
        Dm::Char(c) => json!(["char", *c as u32]),
        Dm::Str(s) => json!(["str", cps_of(s)]),
        Dm::Bytes(b) => json!(["bytes", b]),
        Dm::None => json!(["none"]),
        Dm::Some(d) => json!(["some", dm_to_json(d)]),
        Dm::UStruct => json!(["ustruct"]),
        Dm::NStruct(d) => json!(["nstruct", dm_to_json(d)]),
        Dm::Seq(v) => json!(["seq", l(v)]),
        Dm::Tuple(v) => json!(["tuple", l(v)]),
        Dm::TStruct(v) => json!(["tstruct", l(v)]),
        Dm::Map(v) => json!(["map", v.iter().map(|(k, x)| json!([dm_to_json(k), dm_to_json(x)])).collect::<Vec<_>>()]),
        Dm::Struct(v) => json!(["struct", f(v)]),
        Dm::UVar(n) => json!(["uvar", n]),
        Dm::NVar(n, d) => json!(["nvar", n, dm_to_json(d)]),
        Dm::TVar(n, v) => json!(["tvar", n, l(v)]),
        Dm::SVar(n, v) => json!(["svar", n, f(v)]),
    }
}

fn dm_from_json(j: &Value) -> Result<Dm, String> {
    let a = j.as_array().ok_or("dm: not an array")?;
    let tag = a.first().and_then(|t| t.as_str()).ok_or("dm: no tag")?;
    let l = |j: &Value| -> Result<Vec<Dm>, String> { j.as_array().ok_or("dm: children")?.iter().map(dm_from_json).collect() };
    let f = |j: &Value| -> Result<Vec<(String, Dm)>, String> {
        j.as_array()
            .ok_or("dm: fields")?
            .iter()
            .map(|e| Ok((e[0].as_str().ok_or("dm: field name")?.to_string(), dm_from_json(&e[1])?)))
            .collect()
    };
    let name = |j: &Value| -> Result<String, String> { Ok(j.as_str().ok_or("dm: name")?.to_string()) };
    Ok(match tag {
        "unit" => Dm::Unit,
        "bool" => Dm::Bool(a[1].as_bool().ok_or("dm: bool")?),
        "int" => Dm::Int(
            kind_static(a[1].as_str().ok_or("dm: kind")?)?,
            a[2].as_str().ok_or("dm: int as decimal string")?.parse::<i128>().map_err(|e| e.to_string())?,
        ),
        "f32" => Dm::F32(a[1].as_u64().ok_or("dm: f32 bits")? as u32),
        "f64" => Dm::F64(a[1].as_u64().ok_or("dm: f64 bits")?),
        "char" => Dm::Char(char::from_u32(a[1].as_u64().ok_or("dm: char")? as u32).ok_or("dm: not a scalar value")?),
        "str" => Dm::Str(str_of(&a[1])?),
        "bytes" => Dm::Bytes(a[1].as_array().ok_or("dm: bytes")?.iter().map(|b| b.as_u64().unwrap_or(0) as u8).collect()),
        "none" => Dm::None,
        "some" => Dm::Some(Box::new(dm_from_json(&a[1])?)),
        "ustruct" => Dm::UStruct,
        "nstruct" => Dm::NStruct(Box::new(dm_from_json(&a[1])?)),
        "seq" => Dm::Seq(l(&a[1])?),
        "tuple" => Dm::Tuple(l(&a[1])?),
        "tstruct" => Dm::TStruct(l(&a[1])?),
        "map" => Dm::Map(
            a[1].as_array()
                .ok_or("dm: entries")?
                .iter()
                .map(|e| Ok((dm_from_json(&e[0])?, dm_from_json(&e[1])?)))
                .collect::<Result<_, String>>()?,
        ),
        "struct" => Dm::Struct(f(&a[1])?),
        "uvar" => Dm::UVar(name(&a[1])?),
        "nvar" => Dm::NVar(name(&a[1])?, Box::new(dm_from_json(&a[2])?)),
        "tvar" => Dm::TVar(name(&a[1])?, l(&a[2])?),
        "svar" => Dm::SVar(name(&a[1])?, f(&a[2])?),
        other => return Err(format!("dm: unknown tag {other}")),
    })
}

#[derive(Debug)]
struct DmErr(String);
impl fmt::Display for DmErr {
    fn fmt(&self, f: &mut fmt::Formatter) -> fmt::Result {
        f.write_str(&self.0)
    }
}
impl std::error::Error for DmErr {}
impl ser::Error for DmErr {
    fn custom<T: fmt::Display>(m: T) -> Self {
        DmErr(m.to_string())
    }
}
impl de::Error for DmErr {
    fn custom<T: fmt::Display>(m: T) -> Self {
        DmErr(m.to_string())
    }
}

// ---- recording serializer: what a `Serialize` impl tells a serializer, as a tree

struct Rec;

fn record<T: Serialize + ?Sized>(x: &T) -> Result<Dm, DmErr> {
    x.serialize(Rec)
}

struct RecSeq(u8, String, Vec<Dm>);
struct RecMap(Vec<(Dm, Dm)>, Option<Dm>);
struct RecStruct(bool, String, Vec<(String, Dm)>);

impl Serializer for Rec {
    type Ok = Dm;
    type Error = DmErr;
    type SerializeSeq = RecSeq;
    type SerializeTuple = RecSeq;
    type SerializeTupleStruct = RecSeq;
    type SerializeTupleVariant = RecSeq;
    type SerializeMap = RecMap;
    type SerializeStruct = RecStruct;
    type SerializeStructVariant = RecStruct;

    fn serialize_bool(self, v: bool) -> Result<Dm, DmErr> {
        Ok(Dm::Bool(v))
    }
    fn serialize_i8(self, v: i8) -> Result<Dm, DmErr> {
        Ok(Dm::Int("i8", v as i128))
    }
    fn serialize_i16(self, v: i16) -> Result<Dm, DmErr> {
        Ok(Dm::Int("i16", v as i128))
    }
    fn serialize_i32(self, v: i32) -> Result<Dm, DmErr> {
        Ok(Dm::Int("i32", v as i128))
    }
    fn serialize_i64(self, v: i64) -> Result<Dm, DmErr> {
        Ok(Dm::Int("i64", v as i128))
    }
    fn serialize_i128(self, v: i128) -> Result<Dm, DmErr> {
        Ok(Dm::Int("i128", v))
    }
    fn serialize_u8(self, v: u8) -> Result<Dm, DmErr> {
        Ok(Dm::Int("u8", v as i128))
    }
    fn serialize_u16(self, v: u16) -> Result<Dm, DmErr> {
        Ok(Dm::Int("u16", v as i128))
    }
    fn serialize_u32(self, v: u32) -> Result<Dm, DmErr> {
        Ok(Dm::Int("u32", v as i128))
    }
    fn serialize_u64(self, v: u64) -> Result<Dm, DmErr> {
        Ok(Dm::Int("u64", v as i128))
    }
    fn serialize_u128(self, v: u128) -> Result<Dm, DmErr> {
        i128::try_from(v).map(|z| Dm::Int("u128", z)).map_err(|_| DmErr("u128 above i128::MAX is outside the harness".into()))
    }
    fn serialize_f32(self, v: f32) -> Result<Dm, DmErr> {
        Ok(Dm::F32(v.to_bits()))
    }
    fn serialize_f64(self, v: f64) -> Result<Dm, DmErr> {
        Ok(Dm::F64(v.to_bits()))
    }
    fn serialize_char(self, v: char) -> Result<Dm, DmErr> {
        Ok(Dm::Char(v))
    }
    fn serialize_str(self, v: &str) -> Result<Dm, DmErr> {
        Ok(Dm::Str(v.to_string()))
    }
    fn serialize_bytes(self, v: &[u8]) -> Result<Dm, DmErr> {
        Ok(Dm::Bytes(v.to_vec()))
    }
    fn serialize_none(self) -> Result<Dm, DmErr> {
        Ok(Dm::None)
    }
    fn serialize_some<T: ?Sized + Serialize>(self, v: &T) -> Result<Dm, DmErr> {
        Ok(Dm::Some(Box::new(record(v)?)))
    }
    fn serialize_unit(self) -> Result<Dm, DmErr> {
        Ok(Dm::Unit)
    }
    fn serialize_unit_struct(self, _: &'static str) -> Result<Dm, DmErr> {
        Ok(Dm::UStruct)
    }
    fn serialize_unit_variant(self, _: &'static str, _: u32, variant: &'static str) -> Result<Dm, DmErr> {
        Ok(Dm::UVar(variant.to_string()))
    }
    fn serialize_newtype_struct<T: ?Sized + Serialize>(self, _: &'static str, v: &T) -> Result<Dm, DmErr> {
        Ok(Dm::NStruct(Box::new(record(v)?)))
    }
    fn serialize_newtype_variant<T: ?Sized + Serialize>(
        self,
        _: &'static str,
        _: u32,
        variant: &'static str,
        v: &T,
    ) -> Result<Dm, DmErr> {
        Ok(Dm::NVar(variant.to_string(), Box::new(record(v)?)))
    }
    fn serialize_seq(self, _: Option<usize>) -> Result<RecSeq, DmErr> {
        Ok(RecSeq(0, String::new(), vec![]))
    }
    fn serialize_tuple(self, _: usize) -> Result<RecSeq, DmErr> {
        Ok(RecSeq(1, String::new(), vec![]))
    }
    fn serialize_tuple_struct(self, _: &'static str, _: usize) -> Result<RecSeq, DmErr> {
        Ok(RecSeq(2, String::new(), vec![]))
    }
    fn serialize_tuple_variant(self, _: &'static str, _: u32, variant: &'static str, _: usize) -> Result<RecSeq, DmErr> {
        Ok(RecSeq(3, variant.to_string(), vec![]))
    }
    fn serialize_map(self, _: Option<usize>) -> Result<RecMap, DmErr> {
        Ok(RecMap(vec![], None))
    }
    fn serialize_struct(self, _: &'static str, _: usize) -> Result<RecStruct, DmErr> {
        Ok(RecStruct(false, String::new(), vec![]))
    }
    fn serialize_struct_variant(self, _: &'static str, _: u32, variant: &'static str, _: usize) -> Result<RecStruct, DmErr> {
        Ok(RecStruct(true, variant.to_string(), vec![]))
    }
}

impl RecSeq {
    fn push<T: ?Sized + Serialize>(&mut self, v: &T) -> Result<(), DmErr> {
        self.2.push(record(v)?);
        Ok(())
    }
    fn finish(self) -> Result<Dm, DmErr> {
        Ok(match self.0 {
            0 => Dm::Seq(self.2),
            1 => Dm::Tuple(self.2),
            2 => Dm::TStruct(self.2),
            _ => Dm::TVar(self.1, self.2),
        })
    }
}
impl ser::SerializeSeq for RecSeq {
    type Ok = Dm;
    type Error = DmErr;
    fn serialize_element<T: ?Sized + Serialize>(&mut self, v: &T) -> Result<(), DmErr> {
        self.push(v)
    }
    fn end(self) -> Result<Dm, DmErr> {
        self.finish()
    }
}
impl ser::SerializeTuple for RecSeq {
    type Ok = Dm;
    type Error = DmErr;
    fn serialize_element<T: ?Sized + Serialize>(&mut self, v: &T) -> Result<(), DmErr> {
        self.push(v)
    }
    fn end(self) -> Result<Dm, DmErr> {
        self.finish()
    }
}
impl ser::SerializeTupleStruct for RecSeq {
    type Ok = Dm;
    type Error = DmErr;
    fn serialize_field<T: ?Sized + Serialize>(&mut self, v: &T) -> Result<(), DmErr> {
        self.push(v)
    }
    fn end(self) -> Result<Dm, DmErr> {
        self.finish()
    }
}
impl ser::SerializeTupleVariant for RecSeq {
    type Ok = Dm;
    type Error = DmErr;
    fn serialize_field<T: ?Sized + Serialize>(&mut self, v: &T) -> Result<(), DmErr> {
        self.push(v)
    }
    fn end(self) -> Result<Dm, DmErr> {
        self.finish()
    }
}
impl ser::SerializeMap for RecMap {
    type Ok = Dm;
    type Error = DmErr;
    fn serialize_key<T: ?Sized + Serialize>(&mut self, k: &T) -> Result<(), DmErr> {
        self.1 = Some(record(k)?);
        Ok(())
    }
    fn serialize_value<T: ?Sized + Serialize>(&mut self, v: &T) -> Result<(), DmErr> {
        let k = self.1.take().ok_or_else(|| DmErr("value without key".into()))?;
        self.0.push((k, record(v)?));
        Ok(())
    }
    fn end(self) -> Result<Dm, DmErr> {
        Ok(Dm::Map(self.0))
    }
}
impl ser::SerializeStruct for RecStruct {
    type Ok = Dm;
    type Error = DmErr;
    fn serialize_field<T: ?Sized + Serialize>(&mut self, name: &'static str, v: &T) -> Result<(), DmErr> {
        self.2.push((name.to_string(), record(v)?));
        Ok(())
    }
    fn end(self) -> Result<Dm, DmErr> {
        Ok(Dm::Struct(self.2))
    }
}
impl ser::SerializeStructVariant for RecStruct {
    type Ok = Dm;
    type Error = DmErr;
    fn serialize_field<T: ?Sized + Serialize>(&mut self, name: &'static str, v: &T) -> Result<(), DmErr> {
        self.2.push((name.to_string(), record(v)?));
        Ok(())
    }
    fn end(self) -> Result<Dm, DmErr> {
        Ok(Dm::SVar(self.1, self.2))
    }
}

// ---- replaying a tree into any serializer (names of structs / enums are not observable by the
// serializers under test; static strings are leaked, the process is short-lived)

fn leak(s: &str) -> &'static str {
    Box::leak(s.to_string().into_boxed_str())
}

struct DmSer<'a>(&'a Dm);

impl Serialize for DmSer<'_> {
    fn serialize<S: Serializer>(&self, s: S) -> Result<S::Ok, S::Error> {
        use ser::{SerializeMap, SerializeSeq, SerializeStruct, SerializeStructVariant, SerializeTuple, SerializeTupleStruct, SerializeTupleVariant};
        match self.0 {
            Dm::Unit => s.serialize_unit(),
            Dm::Bool(b) => s.serialize_bool(*b),
            Dm::Int(k, z) => match *k {
                "i8" => s.serialize_i8(*z as i8),
                "i16" => s.serialize_i16(*z as i16),
                "i32" => s.serialize_i32(*z as i32),
                "i64" => s.serialize_i64(*z as i64),
                "i128" => s.serialize_i128(*z),
                "u8" => s.serialize_u8(*z as u8),
                "u16" => s.serialize_u16(*z as u16),
                "u32" => s.serialize_u32(*z as u32),
                "u64" => s.serialize_u64(*z as u64),
                _ => s.serialize_u128(*z as u128),
            },
            Dm::F32(b) => s.serialize_f32(f32::from_bits(*b)),
            Dm::F64(b) => s.serialize_f64(f64::from_bits(*b)),
            Dm::Char(c) => s.serialize_char(*c),
            Dm::Str(x) => s.serialize_str(x),
            Dm::Bytes(b) => s.serialize_bytes(b),
            Dm::None => s.serialize_none(),
            Dm::Some(d) => s.serialize_some(&DmSer(d)),
            Dm::UStruct => s.serialize_unit_struct("S"),
            Dm::NStruct(d) => s.serialize_newtype_struct("S", &DmSer(d)),
            Dm::Seq(v) => {
                let mut q = s.serialize_seq(Some(v.len()))?;
                for d in v {
                    q.serialize_element(&DmSer(d))?;
                }
                q.end()
            }
            Dm::Tuple(v) => {
                let mut q = s.serialize_tuple(v.len())?;
                for d in v {
                    q.serialize_element(&DmSer(d))?;
                }
                q.end()
            }
            Dm::TStruct(v) => {
                let mut q = s.serialize_tuple_struct("S", v.len())?;
                for d in v {
                    q.serialize_field(&DmSer(d))?;
                }
                q.end()
            }
            Dm::Map(v) => {
                let mut q = s.serialize_map(Some(v.len()))?;
                for (k, d) in v {
                    q.serialize_key(&DmSer(k))?;
                    q.serialize_value(&DmSer(d))?;
                }
                q.end()
            }
            Dm::Struct(v) => {
                let mut q = s.serialize_struct("S", v.len())?;
                for (n, d) in v {
                    q.serialize_field(leak(n), &DmSer(d))?;
                }
                q.end()
            }
            Dm::UVar(n) => s.serialize_unit_variant("E", 0, leak(n)),
            Dm::NVar(n, d) => s.serialize_newtype_variant("E", 0, leak(n), &DmSer(d)),
            Dm::TVar(n, v) => {
                let mut q = s.serialize_tuple_variant("E", 0, leak(n), v.len())?;
                for d in v {
                    q.serialize_field(&DmSer(d))?;
                }
                q.end()
            }
            Dm::SVar(n, v) => {
                let mut q = s.serialize_struct_variant("E", 0, leak(n), v.len())?;
                for (f, d) in v {
                    q.serialize_field(leak(f), &DmSer(d))?;
                }
                q.end()
            }
        }
    }
}

// ---- a deserializer presenting a tree to a visitor

struct DmDe<'a>(&'a Dm);

struct DmSeqAccess<'a>(std::slice::Iter<'a, Dm>);
impl<'de, 'a> de::SeqAccess<'de> for DmSeqAccess<'a> {
    type Error = DmErr;
    fn next_element_seed<T: DeserializeSeed<'de>>(&mut self, seed: T) -> Result<Option<T::Value>, DmErr> {
        match self.0.next() {
            Some(d) => seed.deserialize(DmDe(d)).map(Some),
            None => Ok(None),
        }
    }
    fn size_hint(&self) -> Option<usize> {
        Some(self.0.len())
    }
}

enum KeyRef<'a> {
    Dm(&'a Dm),
    Name(&'a str),
}
struct DmMapAccess<'a> {
    entries: Vec<(KeyRef<'a>, &'a Dm)>,
    at: usize,
}
impl<'de, 'a> de::MapAccess<'de> for DmMapAccess<'a> {
    type Error = DmErr;
    fn next_key_seed<K: DeserializeSeed<'de>>(&mut self, seed: K) -> Result<Option<K::Value>, DmErr> {
        match self.entries.get(self.at) {
            Some((KeyRef::Dm(d), _)) => seed.deserialize(DmDe(d)).map(Some),
            Some((KeyRef::Name(n), _)) => seed.deserialize(IntoDeserializer::<DmErr>::into_deserializer(*n)).map(Some),
            None => Ok(None),
        }
    }
    fn next_value_seed<V: DeserializeSeed<'de>>(&mut self, seed: V) -> Result<V::Value, DmErr> {
        let d = self.entries[self.at].1;
        self.at += 1;
        seed.deserialize(DmDe(d))
    }
    fn size_hint(&self) -> Option<usize> {
        Some(self.entries.len() - self.at)
    }
}

struct DmEnum<'a>(&'a Dm);
impl<'de, 'a> de::EnumAccess<'de> for DmEnum<'a> {
    type Error = DmErr;
    type Variant = DmEnum<'a>;
    fn variant_seed<V: DeserializeSeed<'de>>(self, seed: V) -> Result<(V::Value, DmEnum<'a>), DmErr> {
        let name: &str = match self.0 {
            Dm::UVar(n) | Dm::NVar(n, _) | Dm::TVar(n, _) | Dm::SVar(n, _) => n,
            _ => return Err(DmErr("not a variant".into())),
        };
        let v = seed.deserialize(IntoDeserializer::<DmErr>::into_deserializer(name))?;
        Ok((v, self))
    }
}
static UNIT: Dm = Dm::Unit;
impl<'de, 'a> de::VariantAccess<'de> for DmEnum<'a> {
    type Error = DmErr;
    fn unit_variant(self) -> Result<(), DmErr> {
        match self.0 {
            Dm::UVar(_) => Ok(()),
            _ => Err(DmErr("expected unit variant".into())),
        }
    }
    fn newtype_variant_seed<T: DeserializeSeed<'de>>(self, seed: T) -> Result<T::Value, DmErr> {
        match self.0 {
            Dm::NVar(_, d) => seed.deserialize(DmDe(d)),
            Dm::UVar(_) => seed.deserialize(DmDe(&UNIT)),
            // a tuple / struct variant read as a newtype variant: present the payload as a seq / map
            Dm::TVar(_, v) => seed.deserialize(de::value::SeqAccessDeserializer::new(DmSeqAccess(v.iter()))),
            Dm::SVar(_, v) => seed.deserialize(de::value::MapAccessDeserializer::new(DmMapAccess {
                entries: v.iter().map(|(n, d)| (KeyRef::Name(n), d)).collect(),
                at: 0,
            })),
            _ => Err(DmErr("not a variant".into())),
        }
    }
    fn tuple_variant<V: Visitor<'de>>(self, _: usize, visitor: V) -> Result<V::Value, DmErr> {
        match self.0 {
            Dm::TVar(_, v) => visitor.visit_seq(DmSeqAccess(v.iter())),
            _ => Err(DmErr("expected tuple variant".into())),
        }
    }
    fn struct_variant<V: Visitor<'de>>(self, _: &'static [&'static str], visitor: V) -> Result<V::Value, DmErr> {
        match self.0 {
            Dm::SVar(_, v) => visitor.visit_map(DmMapAccess {
                entries: v.iter().map(|(n, d)| (KeyRef::Name(n), d)).collect(),
                at: 0,
            }),
            _ => Err(DmErr("expected struct variant".into())),
        }
    }
}

impl<'de, 'a> Deserializer<'de> for DmDe<'a> {
    type Error = DmErr;

    fn deserialize_any<V: Visitor<'de>>(self, visitor: V) -> Result<V::Value, DmErr> {
        match self.0 {
            Dm::Unit | Dm::UStruct => visitor.visit_unit(),
            Dm::Bool(b) => visitor.visit_bool(*b),
            Dm::Int(k, z) => match *k {
                "i8" => visitor.visit_i8(*z as i8),
                "i16" => visitor.visit_i16(*z as i16),
                "i32" => visitor.visit_i32(*z as i32),
                "i64" => visitor.visit_i64(*z as i64),
                "i128" => visitor.visit_i128(*z),
                "u8" => visitor.visit_u8(*z as u8),
                "u16" => visitor.visit_u16(*z as u16),
                "u32" => visitor.visit_u32(*z as u32),
                "u64" => visitor.visit_u64(*z as u64),
                _ => visitor.visit_u128(*z as u128),
            },
            Dm::F32(b) => visitor.visit_f32(f32::from_bits(*b)),
            Dm::F64(b) => visitor.visit_f64(f64::from_bits(*b)),
            Dm::Char(c) => visitor.visit_char(*c),
            Dm::Str(s) => visitor.visit_str(s),
            Dm::Bytes(b) => visitor.visit_bytes(b),
            Dm::None => visitor.visit_none(),
            Dm::Some(d) => visitor.visit_some(DmDe(d)),
            Dm::NStruct(d) => visitor.visit_newtype_struct(DmDe(d)),
            Dm::Seq(v) | Dm::Tuple(v) | Dm::TStruct(v) => visitor.visit_seq(DmSeqAccess(v.iter())),
            Dm::Map(v) => visitor.visit_map(DmMapAccess {
                entries: v.iter().map(|(k, d)| (KeyRef::Dm(k), d)).collect(),
                at: 0,
            }),
            Dm::Struct(v) => visitor.visit_map(DmMapAccess {
                entries: v.iter().map(|(n, d)| (KeyRef::Name(n), d)).collect(),
                at: 0,
            }),
            Dm::UVar(_) | Dm::NVar(..) | Dm::TVar(..) | Dm::SVar(..) => visitor.visit_enum(DmEnum(self.0)),
        }
    }

    fn deserialize_option<V: Visitor<'de>>(self, visitor: V) -> Result<V::Value, DmErr> {
        match self.0 {
            Dm::None => visitor.visit_none(),
            Dm::Some(d) => visitor.visit_some(DmDe(d)),
            _ => visitor.visit_some(self),
        }
    }

    fn deserialize_newtype_struct<V: Visitor<'de>>(self, _: &'static str, visitor: V) -> Result<V::Value, DmErr> {
        match self.0 {
            Dm::NStruct(d) => visitor.visit_newtype_struct(DmDe(d)),
            _ => visitor.visit_newtype_struct(self),
        }
    }

    serde::forward_to_deserialize_any! {
        bool i8 i16 i32 i64 i128 u8 u16 u32 u64 u128 f32 f64 char str string bytes byte_buf unit unit_struct
        seq tuple tuple_struct map struct enum identifier ignored_any
    }
}

// ---- a `Deserialize` type recording what a format's deserializer presents through deserialize_any

struct DmAny(Dm);

struct DmAnyVisitor;
impl<'de> Visitor<'de> for DmAnyVisitor {
    type Value = DmAny;
    fn expecting(&self, f: &mut fmt::Formatter) -> fmt::Result {
        f.write_str("anything")
    }
    fn visit_bool<E: de::Error>(self, v: bool) -> Result<DmAny, E> {
        Ok(DmAny(Dm::Bool(v)))
    }
    fn visit_i8<E: de::Error>(self, v: i8) -> Result<DmAny, E> {
        Ok(DmAny(Dm::Int("i8", v as i128)))
    }
    fn visit_i16<E: de::Error>(self, v: i16) -> Result<DmAny, E> {
        Ok(DmAny(Dm::Int("i16", v as i128)))
    }
    fn visit_i32<E: de::Error>(self, v: i32) -> Result<DmAny, E> {
        Ok(DmAny(Dm::Int("i32", v as i128)))
    }
    fn visit_i64<E: de::Error>(self, v: i64) -> Result<DmAny, E> {
        Ok(DmAny(Dm::Int("i64", v as i128)))
    }
    fn visit_i128<E: de::Error>(self, v: i128) -> Result<DmAny, E> {
        Ok(DmAny(Dm::Int("i128", v)))
    }
    fn visit_u8<E: de::Error>(self, v: u8) -> Result<DmAny, E> {
        Ok(DmAny(Dm::Int("u8", v as i128)))
    }
    fn visit_u16<E: de::Error>(self, v: u16) -> Result<DmAny, E> {
        Ok(DmAny(Dm::Int("u16", v as i128)))
    }
    fn visit_u32<E: de::Error>(self, v: u32) -> Result<DmAny, E> {
        Ok(DmAny(Dm::Int("u32", v as i128)))
    }
    fn visit_u64<E: de::Error>(self, v: u64) -> Result<DmAny, E> {
        Ok(DmAny(Dm::Int("u64", v as i128)))
    }
    fn visit_u128<E: de::Error>(self, v: u128) -> Result<DmAny, E> {
        i128::try_from(v).map(|z| DmAny(Dm::Int("u128", z))).map_err(|_| E::custom("u128 above i128::MAX is outside the harness"))
    }
    fn visit_f32<E: de::Error>(self, v: f32) -> Result<DmAny, E> {
        Ok(DmAny(Dm::F32(v.to_bits())))
    }
    fn visit_f64<E: de::Error>(self, v: f64) -> Result<DmAny, E> {
        Ok(DmAny(Dm::F64(v.to_bits())))
    }
    fn visit_char<E: de::Error>(self, v: char) -> Result<DmAny, E> {
        Ok(DmAny(Dm::Char(v)))
    }
    fn visit_str<E: de::Error>(self, v: &str) -> Result<DmAny, E> {
        Ok(DmAny(Dm::Str(v.to_string())))
    }
    fn visit_bytes<E: de::Error>(self, v: &[u8]) -> Result<DmAny, E> {
        Ok(DmAny(Dm::Bytes(v.to_vec())))
    }
    fn visit_none<E: de::Error>(self) -> Result<DmAny, E> {
        Ok(DmAny(Dm::None))
    }
    fn visit_some<D: Deserializer<'de>>(self, d: D) -> Result<DmAny, D::Error> {
        Ok(DmAny(Dm::Some(Box::new(DmAny::deserialize(d)?.0))))
    }
    fn visit_unit<E: de::Error>(self) -> Result<DmAny, E> {
        Ok(DmAny(Dm::Unit))
    }
    fn visit_newtype_struct<D: Deserializer<'de>>(self, d: D) -> Result<DmAny, D::Error> {
        Ok(DmAny(Dm::NStruct(Box::new(DmAny::deserialize(d)?.0))))
    }
    fn visit_seq<A: de::SeqAccess<'de>>(self, mut a: A) -> Result<DmAny, A::Error> {
        let mut v = vec![];
        while let Some(x) = a.next_element::<DmAny>()? {
            v.push(x.0);
        }
        Ok(DmAny(Dm::Seq(v)))
    }
    fn visit_map<A: de::MapAccess<'de>>(self, mut a: A) -> Result<DmAny, A::Error> {
        let mut v = vec![];
        while let Some((k, x)) = a.next_entry::<DmAny, DmAny>()? {
            v.push((k.0, x.0));
        }
        Ok(DmAny(Dm::Map(v)))
    }
    fn visit_enum<A: de::EnumAccess<'de>>(self, a: A) -> Result<DmAny, A::Error> {
        use de::VariantAccess;
        let (tag, access) = a.variant::<DmAny>()?;
        let name = match tag.0 {
            Dm::Str(s) => s,
            other => format!("{other:?}"),
        };
        let payload = access.newtype_variant::<DmAny>()?;
        Ok(DmAny(Dm::NVar(name, Box::new(payload.0))))
    }
}
impl<'de> Deserialize<'de> for DmAny {
    fn deserialize<D: Deserializer<'de>>(d: D) -> Result<Self, D::Error> {
        d.deserialize_any(DmAnyVisitor)
    }
}

// ---------------------------------------------------------------------------------------------
// the text formats

fn api_print<T: Serialize>(fmt: &str, x: &T) -> Result<String, String> {
    match fmt {
        "json" => serde_json::to_string_pretty(x).map_err(|e| e.to_string()),
        "yaml" => serde_yaml_ng::to_string(x).map_err(|e| e.to_string()),
        "toml" => toml::to_string_pretty(x).map_err(|e| e.to_string()),
        _ => Err("unknown format".into()),
    }
}

fn api_parse<T: DeserializeOwned>(fmt: &str, text: &str) -> Result<T, String> {
    match fmt {
        "json" => serde_json::from_str::<T>(text).map_err(|e| e.to_string()),
        "yaml" => serde_yaml_ng::from_str::<T>(text).map_err(|e| e.to_string()),
        "toml" => toml::from_str::<T>(text).map_err(|e| e.to_string()),
        _ => Err("unknown format".into()),
    }
}

struct Scripts {
    vm: ScriptVm,
}

impl Scripts {
    fn new() -> Self {
        let vm = ScriptVm::new();
        // the same way the libs' own tests install the modules (libs/*/tests/koto_tests.rs)
        vm.vm.prelude().insert("json", koto_json::make_module());
        vm.vm.prelude().insert("yaml", koto_yaml::make_module());
        vm.vm.prelude().insert("toml", koto_toml::make_module());
        Self { vm }
    }

    /// `<fmt>.to_string kh_in` inside a script; Err(class) when the script throws
    fn to_string(&mut self, fmt: &str, v: &KValue) -> Result<String, String> {
        self.vm.vm.prelude().insert("kh_in", v.clone());
        let chunk = self.vm.compile(&format!("{fmt}.to_string kh_in"), Default::default())?;
        match self.vm.vm.run(chunk) {
            Ok(KValue::Str(s)) => Ok(s.as_str().to_string()),
            Ok(_) => Err("to_string did not return a string".into()),
            Err(e) => Err(e.to_string()),
        }
    }

    fn from_string(&mut self, fmt: &str, text: &str) -> Result<KValue, String> {
        self.vm.vm.prelude().insert("kh_in", KValue::Str(text.into()));
        let chunk = self.vm.compile(&format!("{fmt}.from_string kh_in"), Default::default())?;
        self.vm.vm.run(chunk).map_err(|e| e.to_string())
    }
}

fn opt_kv(r: &Result<KValue, String>) -> Value {
    match r {
        Ok(v) => kv_to_json(v),
        Err(_) => Value::Null,
    }
}

fn op_text(sc: &mut Scripts, fmt: &str, v: &KValue) -> Value {
    // inside scripts
    let t1 = sc.to_string(fmt, v);
    let mut out = serde_json::Map::new();
    out.insert("t1_ok".into(), json!(t1.is_ok()));
    if let Ok(t) = &t1 {
        out.insert("text".into(), json!(t));
        let r1 = sc.from_string(fmt, t);
        out.insert("r1".into(), opt_kv(&r1));
        if let Ok(r) = &r1 {
            let t2 = sc.to_string(fmt, r);
            out.insert("t2_ok".into(), json!(t2.is_ok()));
            if let Ok(t2) = &t2 {
                out.insert("t2_same".into(), json!(t2 == t));
                out.insert("r2".into(), opt_kv(&sc.from_string(fmt, t2)));
            }
        } else {
            out.insert("msg".into(), json!(r1.as_ref().err()));
        }
    } else {
        out.insert("msg".into(), json!(t1.as_ref().err()));
    }
    // Rust API
    let a1 = api_print(fmt, &SerializableKValue(v));
    out.insert("api_t1_same".into(), json!(a1.as_ref().ok() == t1.as_ref().ok()));
    if let Ok(t) = &a1 {
        let r = api_parse::<DeserializableKValue>(fmt, t).map(KValue::from);
        out.insert("api_r1".into(), opt_kv(&r));
    }
    Value::Object(out)
}

fn op_parse(sc: &mut Scripts, fmt: &str, text: &str) -> Value {
    let r1 = sc.from_string(fmt, text);
    let mut out = serde_json::Map::new();
    out.insert("r1".into(), opt_kv(&r1));
    let a = api_parse::<DeserializableKValue>(fmt, text).map(KValue::from);
    out.insert("api_r1".into(), opt_kv(&a));
    // what the format's parser presents to a visitor
    match api_parse::<DmAny>(fmt, text) {
        Ok(d) => {
            out.insert("dm".into(), dm_to_json(&d.0));
        }
        Err(_) => {
            out.insert("dm".into(), Value::Null);
        }
    }
    if let Ok(r) = &r1 {
        // a parsed value printed and parsed again, twice
        let t2 = sc.to_string(fmt, r);
        out.insert("t2_ok".into(), json!(t2.is_ok()));
        if let Ok(t2) = &t2 {
            let r2 = sc.from_string(fmt, t2);
            out.insert("r2".into(), opt_kv(&r2));
            if let Ok(r2) = &r2 {
                if let Ok(t3) = sc.to_string(fmt, r2) {
                    out.insert("r3".into(), opt_kv(&sc.from_string(fmt, &t3)));
                }
            }
        }
    }
    Value::Object(out)
}

fn op_codec(fmt: &str, d: &Dm) -> Value {
    match api_print(fmt, &DmSer(d)) {
        Err(e) => json!({"printed": false, "msg": e}),
        Ok(t) => match api_parse::<DmAny>(fmt, &t) {
            Ok(back) => json!({"printed": true, "text": t, "back": dm_to_json(&back.0)}),
            Err(e) => json!({"printed": true, "text": t, "back": null, "msg": e}),
        },
    }
}

// ---------------------------------------------------------------------------------------------
// the family of Rust types for the typed round trip

#[derive(Serialize, Deserialize, PartialEq, Debug, Clone)]
struct Prims {
    a: i8,
    b: i16,
    c: i32,
    d: i64,
    e: u8,
    f: u16,
    g: u32,
    h: u64,
    i: i128,
    j: u128,
    x: f32,
    y: f64,
    ch: char,
    s: String,
    t: bool,
    u: (),
}

#[derive(Serialize, Deserialize, PartialEq, Debug, Clone)]
struct Marker;

#[derive(Serialize, Deserialize, PartialEq, Debug, Clone)]
struct Meters(f64);

#[derive(Serialize, Deserialize, PartialEq, Debug, Clone)]
struct MaybeByte(Option<u8>);

#[derive(Serialize, Deserialize, PartialEq, Debug, Clone)]
struct Pair(i32, String);

#[derive(Serialize, Deserialize, PartialEq, Debug, Clone)]
enum Shape {
    Empty,
    Dot,
    Circle(u32),
    Label(String, bool),
    Rect { w: Option<f64>, t: (bool, char, Option<String>) },
    Maybe(Option<u8>),
    Nothing(()),
    Boxed(Box<Shape>),
}

#[derive(Serialize, Deserialize, PartialEq, Debug, Clone)]
struct Nest {
    id: u32,
    shape: Shape,
    opt: Option<Shape>,
    shapes: Vec<Shape>,
    names: BTreeMap<String, Vec<Option<i64>>>,
    by_num: BTreeMap<i32, bool>,
    t: (u8, (String, Shape)),
    m: Meters,
    mk: Marker,
    p: Pair,
    mb: MaybeByte,
}

#[derive(Serialize, Deserialize, PartialEq, Eq, PartialOrd, Ord, Debug, Clone)]
struct KeyStruct {
    k: u8,
}

#[derive(Serialize, Deserialize, PartialEq, Debug, Clone)]
struct Opts {
    oo: Option<Option<u8>>,
    ou: Option<()>,
    om: Option<Marker>,
    ov: Option<Vec<Option<Option<bool>>>>,
    on: Option<MaybeByte>,
}

#[derive(Serialize, Deserialize, PartialEq, Debug, Clone)]
struct Keys {
    ko: BTreeMap<Option<Option<u8>>, u8>,
    kt: BTreeMap<(u8, bool), String>,
    kc: BTreeMap<char, u8>,
    kb: BTreeMap<bool, u8>,
    kv: BTreeMap<Vec<i8>, u8>,
    ki: BTreeMap<i64, u8>,
}

fn t(s: &str) -> Value {
    json!([s])
}
fn ti(k: &str) -> Value {
    json!(["int", k])
}
fn topt(x: Value) -> Value {
    json!(["option", x])
}
fn tvec(x: Value) -> Value {
    json!(["vec", x])
}
fn ttuple(xs: Vec<Value>) -> Value {
    json!(["tuple", xs])
}
fn tmap(k: Value, v: Value) -> Value {
    json!(["map", k, v])
}
fn tstruct(fs: Vec<(&str, Value)>) -> Value {
    json!(["struct", fs.into_iter().map(|(n, x)| json!([n, x])).collect::<Vec<_>>()])
}

fn ty_prims() -> Value {
    tstruct(vec![
        ("a", ti("i8")),
        ("b", ti("i16")),
        ("c", ti("i32")),
        ("d", ti("i64")),
        ("e", ti("u8")),
        ("f", ti("u16")),
        ("g", ti("u32")),
        ("h", ti("u64")),
        ("i", ti("i128")),
        ("j", ti("u128")),
        ("x", t("f32")),
        ("y", t("f64")),
        ("ch", t("char")),
        ("s", t("string")),
        ("t", t("bool")),
        ("u", t("unit")),
    ])
}
fn ty_meters() -> Value {
    json!(["nstruct", t("f64")])
}
fn ty_maybebyte() -> Value {
    json!(["nstruct", topt(ti("u8"))])
}
fn ty_pair() -> Value {
    json!(["tstruct", [ti("i32"), t("string")]])
}
/// `depth` bounds the unfolding of the recursive variant Boxed
fn ty_shape(depth: u32) -> Value {
    let mut vs = vec![
        json!(["Empty", "unit", t("unit")]),
        json!(["Dot", "unit", t("unit")]),
        json!(["Circle", "newtype", ti("u32")]),
        json!(["Label", "tuple", ttuple(vec![t("string"), t("bool")])]),
        json!([
            "Rect",
            "struct",
            tstruct(vec![("w", topt(t("f64"))), ("t", ttuple(vec![t("bool"), t("char"), topt(t("string"))]))])
        ]),
        json!(["Maybe", "newtype", topt(ti("u8"))]),
        json!(["Nothing", "newtype", t("unit")]),
    ];
    if depth > 0 {
        vs.push(json!(["Boxed", "newtype", ty_shape(depth - 1)]));
    }
    json!(["enum", vs])
}
fn ty_nest() -> Value {
    tstruct(vec![
        ("id", ti("u32")),
        ("shape", ty_shape(2)),
        ("opt", topt(ty_shape(2))),
        ("shapes", tvec(ty_shape(2))),
        ("names", tmap(t("string"), tvec(topt(ti("i64"))))),
        ("by_num", tmap(ti("i32"), t("bool"))),
        ("t", ttuple(vec![ti("u8"), ttuple(vec![t("string"), ty_shape(2)])])),
        ("m", ty_meters()),
        ("mk", t("ustruct")),
        ("p", ty_pair()),
        ("mb", ty_maybebyte()),
    ])
}
fn ty_opts() -> Value {
    tstruct(vec![
        ("oo", topt(topt(ti("u8")))),
        ("ou", topt(t("unit"))),
        ("om", topt(t("ustruct"))),
        ("ov", topt(tvec(topt(topt(t("bool")))))),
        ("on", topt(ty_maybebyte())),
    ])
}
fn ty_keys() -> Value {
    tstruct(vec![
        ("ko", tmap(topt(topt(ti("u8"))), ti("u8"))),
        ("kt", tmap(ttuple(vec![ti("u8"), t("bool")]), t("string"))),
        ("kc", tmap(t("char"), ti("u8"))),
        ("kb", tmap(t("bool"), ti("u8"))),
        ("kv", tmap(tvec(ti("i8")), ti("u8"))),
        ("ki", tmap(ti("i64"), ti("u8"))),
    ])
}
fn ty_keystruct_map() -> Value {
    tmap(tstruct(vec![("k", ti("u8"))]), ti("u8"))
}

/// build T from the tree, to_koto_value, from_koto_value, re-record
fn typed<T: Serialize + DeserializeOwned + PartialEq + fmt::Debug>(d: &Dm) -> Value {
    let x = match T::deserialize(DmDe(d)) {
        Ok(x) => x,
        Err(e) => return json!({"built": false, "msg": e.to_string()}),
    };
    let x_dm = match record(&x) {
        Ok(d) => d,
        Err(e) => return json!({"built": false, "msg": e.to_string()}),
    };
    let kv = to_koto_value(&x);
    let mut out = serde_json::Map::new();
    out.insert("built".into(), json!(true));
    out.insert("x".into(), dm_to_json(&x_dm));
    match kv {
        Err(e) => {
            out.insert("kv".into(), Value::Null);
            out.insert("msg".into(), json!(e.to_string()));
        }
        Ok(kv) => {
            out.insert("kv".into(), kv_to_json(&kv));
            match from_koto_value::<T>(kv) {
                Err(e) => {
                    out.insert("y".into(), Value::Null);
                    out.insert("msg".into(), json!(e.to_string()));
                }
                Ok(y) => {
                    out.insert("eq".into(), json!(x == y));
                    out.insert("y".into(), record(&y).map(|d| dm_to_json(&d)).unwrap_or(Value::Null));
                }
            }
        }
    }
    Value::Object(out)
}

fn from_kv<T: Serialize + DeserializeOwned>(v: &KValue) -> Value {
    match from_koto_value::<T>(v.clone()) {
        Err(e) => json!({"y": null, "msg": e.to_string()}),
        Ok(y) => json!({"y": record(&y).map(|d| dm_to_json(&d)).unwrap_or(Value::Null)}),
    }
}

macro_rules! registry {
    ($( $name:literal => $ty:ty, $desc:expr ;)*) => {
        fn type_descriptors() -> Value {
            Value::Array(vec![$( json!([$name, $desc]) ),*])
        }
        fn typed_dispatch(name: &str, d: &Dm) -> Value {
            match name {
                $( $name => typed::<$ty>(d), )*
                _ => json!({"built": false, "msg": "unknown type"}),
            }
        }
        fn from_dispatch(name: &str, v: &KValue) -> Value {
            match name {
                $( $name => from_kv::<$ty>(v), )*
                _ => json!({"y": null, "msg": "unknown type"}),
            }
        }
    };
}

registry! {
    "Prims" => Prims, ty_prims();
    "Shape" => Shape, ty_shape(3);
    "Nest" => Nest, ty_nest();
    "Opts" => Opts, ty_opts();
    "Keys" => Keys, ty_keys();
    "KeyStructMap" => BTreeMap<KeyStruct, u8>, ty_keystruct_map();
    "Marker" => Marker, t("ustruct");
    "Meters" => Meters, ty_meters();
    "MaybeByte" => MaybeByte, ty_maybebyte();
    "Pair" => Pair, ty_pair();
    "Unit" => (), t("unit");
    "Bool" => bool, t("bool");
    "I8" => i8, ti("i8");
    "I16" => i16, ti("i16");
    "I32" => i32, ti("i32");
    "I64" => i64, ti("i64");
    "I128" => i128, ti("i128");
    "U8" => u8, ti("u8");
    "U16" => u16, ti("u16");
    "U32" => u32, ti("u32");
    "U64" => u64, ti("u64");
    "U128" => u128, ti("u128");
    "F32" => f32, t("f32");
    "F64" => f64, t("f64");
    "Char" => char, t("char");
    "String" => String, t("string");
    "OptOptU8" => Option<Option<u8>>, topt(topt(ti("u8")));
    "OptUnit" => Option<()>, topt(t("unit"));
    "VecOptI64" => Vec<Option<i64>>, tvec(topt(ti("i64")));
    "VecShape" => Vec<Shape>, tvec(ty_shape(3));
    "MapStrShape" => BTreeMap<String, Shape>, tmap(t("string"), ty_shape(3));
    "MapI32VecBool" => BTreeMap<i32, Vec<bool>>, tmap(ti("i32"), tvec(t("bool")));
    "Tup3" => (u8, String, Option<bool>), ttuple(vec![ti("u8"), t("string"), topt(t("bool"))]);
    "VecPair" => Vec<Pair>, tvec(ty_pair());
}

// ---------------------------------------------------------------------------------------------

fn op_casts(case: &Value) -> Value {
    let f32s: Vec<u32> = case["f32"].as_array().map(|a| a.iter().map(|x| x.as_u64().unwrap_or(0) as u32).collect()).unwrap_or_default();
    let f64s: Vec<u64> = case["f64"].as_array().map(|a| a.iter().map(|x| x.as_u64().unwrap_or(0)).collect()).unwrap_or_default();
    let i64s: Vec<i64> = case["i64"].as_array().map(|a| a.iter().map(|x| x.as_i64().unwrap_or(0)).collect()).unwrap_or_default();
    json!({
        "widen": f32s.iter().map(|b| (f32::from_bits(*b) as f64).to_bits()).collect::<Vec<_>>(),
        "narrow": f64s.iter().map(|b| (f64::from_bits(*b) as f32).to_bits()).collect::<Vec<_>>(),
        "f64_i64": f64s.iter().map(|b| f64::from_bits(*b) as i64).collect::<Vec<_>>(),
        "f64_u8": f64s.iter().map(|b| f64::from_bits(*b) as u8).collect::<Vec<_>>(),
        "f64_i8": f64s.iter().map(|b| f64::from_bits(*b) as i8).collect::<Vec<_>>(),
        "f64_u32": f64s.iter().map(|b| f64::from_bits(*b) as u32).collect::<Vec<_>>(),
        "i64_f64": i64s.iter().map(|i| (*i as f64).to_bits()).collect::<Vec<_>>(),
        "i64_f32": i64s.iter().map(|i| (*i as f32).to_bits()).collect::<Vec<_>>(),
        // ValueKey's Display of a float key (what SerializableKValue writes as the map key)
        "f64_key": f64s.iter().map(|b| {
            let k = ValueKey::try_from(KValue::Number(KNumber::F64(f64::from_bits(*b)))).unwrap();
            cps_of(&k.to_string())
        }).collect::<Vec<_>>(),
    })
}

fn run_case(sc: &mut Scripts, case: &Value) -> Result<Value, String> {
    let op = case["op"].as_str().ok_or("no op")?;
    Ok(match op {
        "text" => {
            let v = kv_from_json(&case["v"])?;
            op_text(sc, case["fmt"].as_str().ok_or("fmt")?, &v)
        }
        "parse" => op_parse(sc, case["fmt"].as_str().ok_or("fmt")?, &str_of(&case["text"])?),
        "ser" => {
            let v = kv_from_json(&case["v"])?;
            match record(&SerializableKValue(&v)) {
                Ok(d) => json!({"d": dm_to_json(&d)}),
                Err(e) => json!({"d": null, "msg": e.to_string()}),
            }
        }
        "de" => {
            let d = dm_from_json(&case["d"])?;
            match DeserializableKValue::deserialize(DmDe(&d)) {
                Ok(v) => json!({"v": kv_to_json(&KValue::from(v))}),
                Err(e) => json!({"v": null, "msg": e.to_string()}),
            }
        }
        "codec" => op_codec(case["fmt"].as_str().ok_or("fmt")?, &dm_from_json(&case["d"])?),
        "typed" => typed_dispatch(case["ty"].as_str().ok_or("ty")?, &dm_from_json(&case["d"])?),
        "from" => from_dispatch(case["ty"].as_str().ok_or("ty")?, &kv_from_json(&case["v"])?),
        "types" => json!({"types": type_descriptors()}),
        "casts" => op_casts(case),
        other => return Err(format!("unknown op {other}")),
    })
}

fn main() {
    quiet_panics();
    let cases = read_cases();
    let mut w = out();
    let mut sc = Scripts::new();
    for case in &cases {
        let r = guarded(std::panic::AssertUnwindSafe(|| run_case(&mut sc, case)));
        match r {
            Ok(Ok(v)) => emit_line(&mut w, &v),
            Ok(Err(msg)) => emit_line(&mut w, &json!({"bad_case": msg})),
            Err(msg) => {
                emit_line(&mut w, &json!({"panic": msg, "at": last_panic_location()}));
                // a panic may have left the VM in an odd state
                sc = Scripts::new();
            }
        }
    }
}
