//! C15 harness: runs koto's real string code on one case per line.
//!
//! kind "str": {"kind":"str","variant":0|1|2,"pad":n,"pre":[..],"s":[..],"post":[..],"pats":[[..],..]}
//!   -> {"gb":[..],"slice":[[..]..],"unpack":[[..]..],"iter":[[..]..]}  (tables in the order of coq/str/StrRun.v)
//! kind "ops": {"kind":"ops","s":[..],"pats":[[..]..],"reps":[[..]..],"counts":[..]}
//!   -> {"ops":[[..]..]}   (order of StrRun.ops_table)
//! kind "esc": {"kind":"esc","body":[code points of the literal's body]}
//!   -> {"esc":[..]}
//! kind "fmt": {"kind":"fmt","spec":[code points],"value":"<koto expr>"}
//!   -> {"parse":[..],"out":[bytes],"graphemes":n} ...
//! Encodings: 0 valid string + bytes | 1 null/none | 2 error | 3 unchecked (+ raw bytes) | 4 panic | 5 marker
use kh::script::ScriptVm;
use kh::*;
use koto_bytecode::{Chunk, CompilerSettings};
use koto_runtime::core_lib::string::iterators as sit;
use koto_runtime::{KIteratorOutput, Ptr, prelude::*};
use serde_json::{Value, json};
use std::panic::AssertUnwindSafe;
use unicode_segmentation::UnicodeSegmentation;

fn bytes_of(v: &Value) -> Vec<u8> {
    v.as_array().map(|a| a.iter().map(|b| b.as_u64().unwrap() as u8).collect()).unwrap_or_default()
}

fn enc_str(s: &str) -> Vec<u64> {
    let b = s.as_bytes();
    let tag = if std::str::from_utf8(b).is_ok() { 0 } else { 3 };
    let mut v = vec![tag];
    v.extend(b.iter().map(|x| *x as u64));
    v
}

fn enc_value(v: &KValue) -> Vec<u64> {
    match v {
        KValue::Str(k) => enc_str(k.as_str()),
        KValue::Null => vec![1],
        KValue::Number(n) => vec![i64::from(*n) as u64],
        KValue::Range(r) => vec![7, r.start().unwrap_or(-1) as u64, r.end().map(|e| e.0).unwrap_or(-1) as u64],
        KValue::Bool(b) => vec![6, *b as u64],
        _ => vec![9],
    }
}

struct Scripts {
    sv: ScriptVm,
    chunks: Vec<Ptr<Chunk>>,
    preds: Vec<KValue>,
}

const SRC: &[&str] = &[
    "s[a]",          // 0
    "s[a..b]",       // 1
    "s[a..=b]",      // 2
    "s[a..]",        // 3
    "s[..b]",        // 4
    "s[..=b]",       // 5
    "s[..]",         // 6
    "f = |(a, b)| (a, b)\nf s",                         // 7
    "f = |(a, b, c)| (a, b, c)\nf s",                   // 8
    "f = |(a, rest...)| (a, rest)\nf s",                // 9
    "f = |(a, b, rest...)| (a, b, rest)\nf s",          // 10
    "f = |(first..., z)| (first, z)\nf s",              // 11
    "f = |(first..., y, z)| (first, y, z)\nf s",        // 12
    "f = |(a, b, c, rest...)| (a, b, c, rest)\nf s",    // 13
    "s.starts_with p",   // 14
    "s.ends_with p",     // 15
    "s.contains p",      // 16
    "s.strip_prefix p",  // 17
    "s.strip_suffix p",  // 18
    "s.repeat a",        // 19
    "s.trim p",          // 20
    "s.trim_start p",    // 21
    "s.trim_end p",      // 22
    "s.replace p, q",    // 23
];

const PREDS: &[&str] = &[
    "|c| c == ' '",
    "|c| c == 'é'",
    "|c| (size c) > 1",
    "|c| true",
    "|c| false",
    "|c| c == '\\n'",
];

impl Scripts {
    fn new() -> Self {
        let mut sv = ScriptVm::new();
        let chunks = SRC.iter().map(|s| sv.compile(s, CompilerSettings::default()).expect("script compiles")).collect();
        let preds = PREDS
            .iter()
            .map(|p| {
                let c = sv.compile(p, CompilerSettings::default()).expect("pred compiles");
                sv.vm.run(c).expect("pred evaluates")
            })
            .collect();
        Self { sv, chunks, preds }
    }

    fn set(&self, name: &str, v: KValue) {
        self.sv.vm.prelude().insert(name, v);
    }
}

thread_local! {
    static SCRIPTS: std::cell::RefCell<Option<Scripts>> = const { std::cell::RefCell::new(None) };
}

fn with_scripts<T>(f: impl FnOnce(&mut Scripts) -> T) -> T {
    SCRIPTS.with(|s| {
        let mut s = s.borrow_mut();
        if s.is_none() {
            *s = Some(Scripts::new());
        }
        f(s.as_mut().unwrap())
    })
}

fn reset_scripts() {
    SCRIPTS.with(|s| *s.borrow_mut() = None);
}

/// runs chunk i with prelude s/a/b; a panic rebuilds the VM
fn run_chunk(i: usize, k: &KString, a: i64, b: i64) -> Result<KValue, u64> {
    let r = guarded(AssertUnwindSafe(|| {
        with_scripts(|sc| {
            sc.set("s", KValue::Str(k.clone()));
            sc.set("a", KValue::Number(a.into()));
            sc.set("b", KValue::Number(b.into()));
            let c = sc.chunks[i].clone();
            sc.sv.vm.run(c).map_err(|_| 2u64)
        })
    }));
    match r {
        Ok(x) => x,
        Err(_) => {
            reset_scripts();
            Err(4)
        }
    }
}

fn enc_result(r: Result<KValue, u64>) -> Vec<u64> {
    match r {
        Ok(v) => enc_value(&v),
        Err(c) => vec![c],
    }
}

fn make_k(variant: u64, pad: usize, pre: &[u8], s: &[u8], post: &[u8]) -> KString {
    let s_str = String::from_utf8(s.to_vec()).expect("case string is UTF-8");
    if variant == 0 {
        KString::from(s_str)
    } else {
        let mut parent = "x".repeat(pad);
        parent.push_str(std::str::from_utf8(pre).unwrap());
        let start = parent.len();
        parent.push_str(&s_str);
        let end = parent.len();
        parent.push_str(std::str::from_utf8(post).unwrap());
        KString::from(parent).with_bounds(start..end).unwrap()
    }
}

fn slice_table(k: &KString, variant: u64, len: usize) -> Vec<Vec<u64>> {
    let mut t = Vec::new();
    let l = len as i64;
    for a in 0..len + 2 {
        for b in 0..len + 2 {
            let r = guarded(AssertUnwindSafe(|| match k.with_bounds(a..b) {
                Some(r) => {
                    if variant == 0 && !(a <= b && b <= len) {
                        // unchecked bounds outside the buffer: never dereferenced here
                        std::mem::forget(r);
                        vec![3, 256]
                    } else {
                        enc_str(r.as_str())
                    }
                }
                None => vec![1],
            }));
            t.push(r.unwrap_or(vec![4]));
        }
    }
    for n in -1..=l + 1 {
        t.push(enc_result(run_chunk(0, k, n, 0)));
    }
    for a in -1..=l + 1 {
        for b in -1..=l + 1 {
            t.push(enc_result(run_chunk(1, k, a, b)));
            t.push(enc_result(run_chunk(2, k, a, b)));
        }
    }
    for a in -1..=l + 1 {
        t.push(enc_result(run_chunk(3, k, a, 0)));
    }
    for b in -1..=l + 1 {
        t.push(enc_result(run_chunk(4, k, 0, b)));
        t.push(enc_result(run_chunk(5, k, 0, b)));
    }
    t.push(enc_result(run_chunk(6, k, 0, 0)));
    t.push(enc_result(run_chunk(5, k, 0, i64::MAX)));
    t.push(enc_result(run_chunk(1, k, i64::MIN, i64::MAX)));
    t.push(enc_result(run_chunk(2, k, 0, i64::MAX)));
    t
}

fn unpack_table(k: &KString) -> Vec<Vec<u64>> {
    let mut t = Vec::new();
    for (n, i) in (7..=13).enumerate() {
        if n > 0 {
            t.push(vec![5]);
        }
        match run_chunk(i, k, 0, 0) {
            Ok(KValue::Tuple(tp)) => {
                for v in tp.iter() {
                    t.push(enc_value(v));
                }
            }
            Ok(_) => t.push(vec![9]),
            Err(c) => t.push(vec![c]),
        }
    }
    t
}

fn ops_table(k: &KString, pats: &[Vec<u8>]) -> Vec<Vec<u64>> {
    let mut t = Vec::new();
    for p in pats {
        let pk = KString::from(String::from_utf8(p.clone()).unwrap());
        with_scripts(|sc| sc.set("p", KValue::Str(pk.clone())));
        for i in 14..=18 {
            // (a panic rebuilds the VM: set p again)
            let r = run_chunk(i, k, 0, 0);
            if matches!(r, Err(4)) {
                with_scripts(|sc| sc.set("p", KValue::Str(pk.clone())));
            }
            t.push(enc_result(r));
        }
    }
    for n in 0..3 {
        t.push(enc_result(run_chunk(19, k, n, 0)));
    }
    t
}

/// pattern-taking functions (order of StrRun.pat_table)
fn pat_table(k: &KString, len: usize, pats: &[Vec<u8>], reps: &[Vec<u8>]) -> Vec<Vec<u64>> {
    let mut t = Vec::new();
    let ks = |b: &Vec<u8>| KString::from(String::from_utf8(b.clone()).unwrap());
    for p in pats {
        let pk = ks(p);
        for i in 20..=22 {
            with_scripts(|sc| sc.set("p", KValue::Str(pk.clone())));
            t.push(enc_result(run_chunk(i, k, 0, 0)));
        }
        for r in reps {
            with_scripts(|sc| {
                sc.set("p", KValue::Str(pk.clone()));
                sc.set("q", KValue::Str(ks(r)));
            });
            t.push(enc_result(run_chunk(23, k, 0, 0)));
        }
        t.push(vec![5, 105]);
        t.extend(drain_then_hint(sit::Split::new(k.clone(), pk.clone()), len + 3, None));
    }
    t
}

fn drain_then_hint<I>(mut it: I, fuel: usize, back: Option<&dyn Fn(&mut I) -> Option<KIteratorOutput>>) -> Vec<Vec<u64>>
where
    I: Iterator<Item = KIteratorOutput>,
{
    let r = guarded(AssertUnwindSafe(|| {
        let mut outs = Vec::new();
        let mut fin = false;
        for _ in 0..fuel {
            let n = match back {
                Some(f) => f(&mut it),
                None => it.next(),
            };
            match n {
                Some(KIteratorOutput::Value(v)) => outs.push(enc_value(&v)),
                Some(KIteratorOutput::ValuePair(..)) => outs.push(vec![9]),
                Some(KIteratorOutput::Error(_)) => outs.push(vec![2]),
                None => {
                    fin = true;
                    break;
                }
            }
        }
        (outs, fin)
    }));
    match r {
        Err(_) => vec![vec![4]],
        Ok((mut outs, fin)) => {
            outs.push(vec![5, fin as u64]);
            if fin {
                let h = guarded(AssertUnwindSafe(|| it.size_hint()));
                outs.push(match h {
                    Ok((lo, hi)) => vec![0, lo as u64, hi.map(|x| x as u64).unwrap_or(u64::MAX)],
                    Err(_) => vec![4],
                });
            }
            outs
        }
    }
}

fn iter_table(k: &KString, len: usize, pats: &[Vec<u8>]) -> Vec<Vec<u64>> {
    let fuel = len + 3;
    let mut t = Vec::new();
    t.push(vec![5, 100]);
    t.extend(drain_then_hint(sit::Bytes::new(k.clone()), fuel, None));
    t.push(vec![5, 101]);
    t.extend(drain_then_hint(sit::CharIndices::new(k.clone()), fuel, None));
    t.push(vec![5, 102]);
    t.extend(drain_then_hint(KIterator::with_string(k.clone()), fuel, None));
    t.push(vec![5, 103]);
    t.extend(drain_then_hint(KIterator::with_string(k.clone()), fuel, Some(&|it: &mut KIterator| it.next_back())));
    t.push(vec![5, 104]);
    t.extend(drain_then_hint(sit::Lines::new(k.clone()), fuel, None));
    for p in pats {
        t.push(vec![5, 105]);
        let p = KString::from(String::from_utf8(p.clone()).unwrap());
        t.extend(drain_then_hint(sit::Split::new(k.clone(), p), fuel, None));
    }
    for i in 0..PREDS.len() {
        t.push(vec![5, 106]);
        let r = guarded(AssertUnwindSafe(|| {
            with_scripts(|sc| {
                let it = sit::SplitWith::new(k.clone(), sc.preds[i].clone(), &sc.sv.vm);
                drain_then_hint(it, fuel, None)
            })
        }));
        match r {
            Ok(x) => t.extend(x),
            Err(_) => {
                reset_scripts();
                t.push(vec![4]);
            }
        }
    }
    t
}

/// cluster boundaries of s and whether re-segmenting suffixes/prefixes at boundaries is stable
fn grapheme_bounds(s: &str) -> (Vec<u64>, bool) {
    let mut gb = vec![0u64];
    let mut off = 0usize;
    for g in s.graphemes(true) {
        off += g.len();
        gb.push(off as u64);
    }
    let mut stable = true;
    for w in gb.windows(2) {
        let (i, j) = (w[0] as usize, w[1] as usize);
        if s[i..].graphemes(true).next().map(|g| g.len()) != Some(j - i) {
            stable = false;
        }
        if s[..j].graphemes(true).next_back().map(|g| g.len()) != Some(j - i) {
            stable = false;
        }
    }
    (gb, stable)
}

fn case_str(case: &Value) -> Value {
    let variant = case["variant"].as_u64().unwrap_or(0);
    let pad = case["pad"].as_u64().unwrap_or(0) as usize;
    let pre = bytes_of(&case["pre"]);
    let s = bytes_of(&case["s"]);
    let post = bytes_of(&case["post"]);
    let pats: Vec<Vec<u8>> = case["pats"].as_array().map(|a| a.iter().map(bytes_of).collect()).unwrap_or_default();
    let s_str = String::from_utf8(s.clone()).expect("case string is UTF-8");
    let (gb, stable) = grapheme_bounds(&s_str);
    if !stable {
        return json!({"skip": "segmentation of suffixes/prefixes differs"});
    }
    let k = make_k(variant, pad, &pre, &s, &post);
    let want = case["tables"].as_str().unwrap_or("sui");
    let mut o = serde_json::Map::new();
    o.insert("gb".into(), json!(gb));
    if want.contains('s') {
        o.insert("slice".into(), json!(slice_table(&k, variant, s.len())));
    }
    if want.contains('u') {
        o.insert("unpack".into(), json!(unpack_table(&k)));
    }
    if want.contains('p') {
        let reps: Vec<Vec<u8>> = case["reps"].as_array().map(|a| a.iter().map(bytes_of).collect()).unwrap_or_default();
        o.insert("pat".into(), json!(pat_table(&k, s.len(), &pats, &reps)));
    }
    if want.contains('o') {
        o.insert("ops".into(), json!(ops_table(&k, &pats)));
    }
    if want.contains('i') {
        o.insert("iter".into(), json!(iter_table(&k, s.len(), &pats)));
    }
    Value::Object(o)
}

/// kind "fmt": runs `x = <value>` then the two interpolations; returns bytes and cluster counts
fn case_fmt(case: &Value) -> Value {
    let value = case["value"].as_str().unwrap_or("0").to_string();
    let full = case["full"].as_str().unwrap_or("").to_string();
    let bare = case["bare"].as_str().unwrap_or("").to_string();
    // each interpolation runs under its own catch_unwind: Ok(text) | Err(error class) | panic
    let run = |spec: &str| -> Result<Result<String, String>, String> {
        let src = format!("x = {value}\n'{{x{spec}}}'");
        guarded(AssertUnwindSafe(move || {
            let mut sv = ScriptVm::new();
            let chunk = sv.compile(&src, CompilerSettings::default()).map_err(|_| "ECompile".to_string())?;
            match sv.vm.run(chunk) {
                Ok(KValue::Str(s)) => Ok(s.as_str().to_string()),
                Ok(_) => Err("EType".to_string()),
                Err(e) => Err(kh::script::error_class(&e)),
            }
        }))
        .map_err(|msg| format!("{msg} at {}", last_panic_location()))
    };
    let (f, b) = (run(&full), run(&bare));
    let mut o = serde_json::Map::new();
    for (name, r) in [("full", &f), ("bare", &b)] {
        match r {
            Ok(Ok(s)) => {
                o.insert(name.into(), json!(s.as_bytes()));
                o.insert(format!("g_{name}"), json!(s.graphemes(true).count()));
            }
            Ok(Err(class)) => {
                o.insert(format!("error_{name}"), json!(class));
            }
            Err(p) => {
                o.insert("panic".into(), json!(format!("'{{x{}}}': {p}", if name == "full" { &full } else { &bare })));
            }
        }
    }
    Value::Object(o)
}

/// kind "esc": the string literal '\<body>' compiled and evaluated
fn case_esc(case: &Value) -> Value {
    let body = cps_to_string(&case["body"]).unwrap_or_default();
    let src = format!("'\\{body}'");
    let mut sv = ScriptVm::new();
    let o = sv.run(&src);
    if !o.ok {
        return json!({"esc": [2], "class": o.result});
    }
    let chunk = match sv.compile(&src, CompilerSettings::default()) {
        Ok(c) => c,
        Err(_) => return json!({"esc": [2]}),
    };
    match sv.vm.run(chunk) {
        Ok(KValue::Str(s)) => json!({"esc": enc_str(s.as_str())}),
        _ => json!({"esc": [9]}),
    }
}

/// kind "lit": a whole script (code points) whose value is a string: -> {"lit": [0, bytes..] | [2] | [9]}
fn case_lit(case: &Value) -> Value {
    let src = cps_to_string(&case["src"]).unwrap_or_default();
    let mut sv = ScriptVm::new();
    let chunk = match sv.compile(&src, CompilerSettings::default()) {
        Ok(c) => c,
        Err(_) => return json!({"lit": [2]}),
    };
    match sv.vm.run(chunk) {
        Ok(KValue::Str(s)) => json!({"lit": enc_str(s.as_str())}),
        Ok(_) => json!({"lit": [9]}),
        Err(_) => json!({"lit": [2]}),
    }
}

/// kind "fparse": the format options the parser produces for '{x:<spec>}'
/// -> [0, align, w?, w, p?, p, r?, r, fill?, fill code points..] | [2] error | panic
fn case_fparse(case: &Value) -> Value {
    use koto_parser::{Node, Parser, StringContents, StringFormatRepresentation as R, StringNode};
    let spec = cps_to_string(&case["spec"]).unwrap_or_default();
    let src = format!("'{{x:{spec}}}'");
    // the oracle for the model: code points in the first cluster of the spec
    let g = spec.graphemes(true).next().map(|g| g.chars().count()).unwrap_or(0);
    let ast = match Parser::parse(&src) {
        Ok(a) => a,
        Err(_) => return json!({"fparse": [2], "g": g}),
    };
    for n in ast.nodes() {
        if let Node::Str(s) = &n.node {
            if let StringContents::Interpolated(nodes) = &s.contents {
                if nodes.len() != 1 {
                    return json!({"fparse": [8], "g": g, "why": "the lexer split the literal differently"});
                }
                if let StringNode::Expression { format, .. } = &nodes[0] {
                    let mut v: Vec<u64> = vec![0, format.alignment as u64];
                    for o in [format.min_width, format.precision] {
                        v.push(o.is_some() as u64);
                        v.push(o.unwrap_or(0) as u64);
                    }
                    let r = format.representation.map(|r| match r {
                        R::Debug => 0u64,
                        R::HexLower => 1,
                        R::HexUpper => 2,
                        R::Binary => 3,
                        R::Octal => 4,
                        R::ExpLower => 5,
                        R::ExpUpper => 6,
                    });
                    v.push(r.is_some() as u64);
                    v.push(r.unwrap_or(0));
                    match format.fill_character {
                        Some(c) => {
                            v.push(1);
                            v.extend(ast.constants().get_str(c).chars().map(|c| c as u64));
                        }
                        None => v.push(0),
                    }
                    return json!({"fparse": v, "g": g});
                }
            }
        }
    }
    json!({"fparse": [8], "g": g, "why": "no interpolated expression found"})
}

fn main() {
    quiet_panics();
    let cases = read_cases();
    let mut w = out();
    for case in &cases {
        let kind = case["kind"].as_str().unwrap_or("str");
        let r = guarded(AssertUnwindSafe(|| match kind {
            "str" => case_str(case),
            "fmt" => case_fmt(case),
            "esc" => case_esc(case),
            "lit" => case_lit(case),
            "fparse" => case_fparse(case),
            _ => json!({"skip": "unknown kind"}),
        }));
        match r {
            Ok(v) => emit_line(&mut w, &v),
            Err(msg) => {
                reset_scripts();
                emit_line(&mut w, &json!({"panic": msg, "at": last_panic_location()}))
            }
        }
    }
}
