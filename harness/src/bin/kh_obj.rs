//! C17: runs generated scripts that exercise operator / protocol dispatch and records which
//! user function ran with which operands.
//!
//! case  : {"src": "<koto script>"}
//! output: {"result": <canonical value | error class>, "trace": [[name, self, arg..]..], "msg": ..}
//!
//! Prelude additions available to the scripts:
//!   ev(name, self, args...)        appends [name, desc(self), desc(arg)..] to the trace
//!   host(id, [keys], {key: beh})   a host object (`HostFull`) overriding the KotoObject methods
//!                                  named by the metakey spellings in `keys`
//!   host4(id, [keys], {key: beh})  the same, additionally overriding the four comparison methods
//!                                  that have derived defaults (less_or_equal, greater,
//!                                  greater_or_equal, not_equal)
//!   bare(id)                       a host object overriding NOTHING (all trait defaults)
//!   derived(id)                    a `#[koto_impl]` object (methods reached through `.` access)
//!   nat_true / nat_false / nat_val native functions (log themselves) for use as metakey entries
//! `beh` is one of val | true | false | null | unimpl | err | rt.
use kh::script::ScriptVm;
use kh::*;
use koto_runtime::{ErrorKind, Result, derive::*, prelude::*};
use serde_json::json;
use std::cell::RefCell;
use std::collections::{HashMap, HashSet};

thread_local! {
    static TRACE: RefCell<Vec<Vec<String>>> = const { RefCell::new(Vec::new()) };
}

fn log(entry: Vec<String>) {
    TRACE.with(|t| t.borrow_mut().push(entry));
}

fn desc(v: &KValue) -> String {
    match v {
        KValue::Null => "null".into(),
        KValue::Bool(b) => format!("b{b}"),
        KValue::Number(n) => format!("n{}", i64::from(n)),
        KValue::Str(s) => format!("s:{}", s.as_str()),
        KValue::List(l) => match l.data().first() {
            Some(x) => format!("list[{}]", desc(x)),
            None => "list[]".into(),
        },
        KValue::Tuple(t) => match t.first() {
            Some(x) => format!("tuple[{}]", desc(x)),
            None => "tuple[]".into(),
        },
        KValue::Range(r) => format!("range{}", r.start().unwrap_or(-1)),
        KValue::Map(m) => match m.get("id") {
            Some(KValue::Str(s)) => s.as_str().to_string(),
            _ => "map".into(),
        },
        KValue::Object(o) => {
            if let Ok(h) = o.cast::<HostFull>() {
                h.core.id.clone()
            } else if let Ok(h) = o.cast::<Host4>() {
                h.core.id.clone()
            } else if let Ok(h) = o.cast::<HostBare>() {
                h.id.clone()
            } else if let Ok(h) = o.cast::<HostDerived>() {
                h.id.clone()
            } else {
                "obj".into()
            }
        }
        KValue::Function(_) | KValue::NativeFunction(_) => "fn".into(),
        KValue::Iterator(_) => "iter".into(),
        KValue::TemporaryTuple(_) => "temptuple".into(),
    }
}

#[derive(Clone, Default)]
struct Core {
    id: String,
    methods: HashSet<String>,
    beh: HashMap<String, String>,
    next_calls: u32,
}

impl Core {
    fn has(&self, key: &str) -> bool {
        self.methods.contains(key)
    }

    fn unimpl<T>(&self, key: &'static str) -> Result<T> {
        runtime_error!(ErrorKind::Unimplemented { fn_name: key, object_type: "Host".into() })
    }

    /// a method returning a value
    fn value(&self, key: &'static str, args: &[&KValue]) -> Result<KValue> {
        if !self.has(key) {
            return self.unimpl(key);
        }
        let mut e = vec![format!("{}{}", self.id, key), self.id.clone()];
        e.extend(args.iter().map(|a| desc(a)));
        log(e);
        match self.beh.get(key).map(|s| s.as_str()).unwrap_or("val") {
            "true" => Ok(true.into()),
            "false" => Ok(false.into()),
            "null" => Ok(KValue::Null),
            "unimpl" => self.unimpl(key),
            "err" => unexpected_args("boom", &[]),
            "rt" => unexpected_type("Thing", &KValue::Null),
            _ => Ok(format!("{}{}", self.id, key).into()),
        }
    }

    fn boolean(&self, key: &'static str, args: &[&KValue]) -> Result<bool> {
        match self.value(key, args)? {
            KValue::Bool(b) => Ok(b),
            _ => Ok(true),
        }
    }

    fn unit(&self, key: &'static str, args: &[&KValue]) -> Result<()> {
        self.value(key, args).map(|_| ())
    }

    fn iterable(&self) -> IsIterable {
        if self.has("@next") {
            if self.has("@next_back") { IsIterable::BidirectionalIterator } else { IsIterable::ForwardIterator }
        } else if self.has("@iterator") {
            IsIterable::Iterable
        } else {
            IsIterable::NotIterable
        }
    }

    fn next(&mut self, key: &'static str) -> Option<KIteratorOutput> {
        log(vec![format!("{}{}", self.id, key), self.id.clone()]);
        match self.beh.get(key).map(|s| s.as_str()).unwrap_or("val") {
            "null" | "unimpl" | "err" => None,
            _ => {
                self.next_calls += 1;
                if self.next_calls <= 2 {
                    Some(KIteratorOutput::Value(format!("{}{}", self.id, key).into()))
                } else {
                    None
                }
            }
        }
    }

    fn make_iterator(&self) -> Result<KIterator> {
        let v = self.value("@iterator", &[])?;
        Ok(KIterator::with_tuple(KTuple::from(vec![v.clone(), v])))
    }
}

macro_rules! common_methods {
    () => {
        fn display(&self, ctx: &mut DisplayContext) -> Result<()> {
            if self.core.has("@display") {
                match self.core.value("@display", &[])? {
                    KValue::Str(s) => {
                        ctx.append(s);
                        Ok(())
                    }
                    other => unexpected_type("String", &other),
                }
            } else {
                ctx.append(self.type_string());
                Ok(())
            }
        }
        fn index(&self, index: &KValue) -> Result<KValue> {
            self.core.value("@index", &[index])
        }
        fn index_assign(&mut self, index: &KValue, value: &KValue) -> Result<()> {
            self.core.unit("@index_assign", &[index, value])
        }
        fn size(&self) -> Option<usize> {
            if self.core.has("@size") {
                log(vec![format!("{}@size", self.core.id), self.core.id.clone()]);
                Some(2)
            } else {
                None
            }
        }
        fn is_callable(&self) -> bool {
            self.core.has("@call")
        }
        fn call(&mut self, ctx: &mut CallContext) -> Result<KValue> {
            let args: Vec<&KValue> = ctx.args().iter().collect();
            self.core.value("@call", &args)
        }
        fn negate(&self) -> Result<KValue> {
            self.core.value("@negate", &[])
        }
        fn add(&self, other: &KValue) -> Result<KValue> {
            self.core.value("@+", &[other])
        }
        fn add_rhs(&self, other: &KValue) -> Result<KValue> {
            self.core.value("@r+", &[other])
        }
        fn subtract(&self, other: &KValue) -> Result<KValue> {
            self.core.value("@-", &[other])
        }
        fn subtract_rhs(&self, other: &KValue) -> Result<KValue> {
            self.core.value("@r-", &[other])
        }
        fn multiply(&self, other: &KValue) -> Result<KValue> {
            self.core.value("@*", &[other])
        }
        fn multiply_rhs(&self, other: &KValue) -> Result<KValue> {
            self.core.value("@r*", &[other])
        }
        fn divide(&self, other: &KValue) -> Result<KValue> {
            self.core.value("@/", &[other])
        }
        fn divide_rhs(&self, other: &KValue) -> Result<KValue> {
            self.core.value("@r/", &[other])
        }
        fn remainder(&self, other: &KValue) -> Result<KValue> {
            self.core.value("@%", &[other])
        }
        fn remainder_rhs(&self, other: &KValue) -> Result<KValue> {
            self.core.value("@r%", &[other])
        }
        fn power(&self, other: &KValue) -> Result<KValue> {
            self.core.value("@^", &[other])
        }
        fn power_rhs(&self, other: &KValue) -> Result<KValue> {
            self.core.value("@r^", &[other])
        }
        fn add_assign(&mut self, other: &KValue) -> Result<()> {
            self.core.unit("@+=", &[other])
        }
        fn subtract_assign(&mut self, other: &KValue) -> Result<()> {
            self.core.unit("@-=", &[other])
        }
        fn multiply_assign(&mut self, other: &KValue) -> Result<()> {
            self.core.unit("@*=", &[other])
        }
        fn divide_assign(&mut self, other: &KValue) -> Result<()> {
            self.core.unit("@/=", &[other])
        }
        fn remainder_assign(&mut self, other: &KValue) -> Result<()> {
            self.core.unit("@%=", &[other])
        }
        fn power_assign(&mut self, other: &KValue) -> Result<()> {
            self.core.unit("@^=", &[other])
        }
        fn less(&self, other: &KValue) -> Result<bool> {
            self.core.boolean("@<", &[other])
        }
        fn equal(&self, other: &KValue) -> Result<bool> {
            self.core.boolean("@==", &[other])
        }
        fn is_iterable(&self) -> IsIterable {
            self.core.iterable()
        }
        fn make_iterator(&self, _vm: &mut KotoVm) -> Result<KIterator> {
            self.core.make_iterator()
        }
        fn iterator_next(&mut self, _vm: &mut KotoVm) -> Option<KIteratorOutput> {
            self.core.next("@next")
        }
        fn iterator_next_back(&mut self, _vm: &mut KotoVm) -> Option<KIteratorOutput> {
            self.core.next("@next_back")
        }
    };
}

/// overrides every KotoObject method EXCEPT less_or_equal / greater / greater_or_equal /
/// not_equal, whose trait defaults (derived from less / equal) therefore run
#[derive(Clone, KotoCopy, KotoType)]
#[koto(runtime = koto_runtime, type_name = "Host")]
struct HostFull {
    core: Core,
}

impl KotoAccess for HostFull {
    fn access_assign(&mut self, key: &KString, value: &KValue) -> Result<()> {
        self.core.unit("@access_assign", &[&KValue::Str(key.clone()), value])
    }
}

impl KotoObject for HostFull {
    common_methods!();
}

/// like HostFull, and the four derived comparison methods are overridden too
#[derive(Clone, KotoCopy, KotoType)]
#[koto(runtime = koto_runtime, type_name = "Host")]
struct Host4 {
    core: Core,
}

impl KotoAccess for Host4 {
    fn access_assign(&mut self, key: &KString, value: &KValue) -> Result<()> {
        self.core.unit("@access_assign", &[&KValue::Str(key.clone()), value])
    }
}

impl KotoObject for Host4 {
    common_methods!();
    fn less_or_equal(&self, other: &KValue) -> Result<bool> {
        self.core.boolean("@<=", &[other])
    }
    fn greater(&self, other: &KValue) -> Result<bool> {
        self.core.boolean("@>", &[other])
    }
    fn greater_or_equal(&self, other: &KValue) -> Result<bool> {
        self.core.boolean("@>=", &[other])
    }
    fn not_equal(&self, other: &KValue) -> Result<bool> {
        self.core.boolean("@!=", &[other])
    }
}

/// overrides nothing: every operation meets the trait's default
#[derive(Clone, KotoCopy, KotoType)]
#[koto(runtime = koto_runtime, type_name = "Host")]
struct HostBare {
    id: String,
}
impl KotoAccess for HostBare {}
impl KotoObject for HostBare {}

/// the derive path: `#[koto_method]`s reached through `.` access
#[derive(Clone, KotoCopy, KotoType)]
#[koto(runtime = koto_runtime, type_name = "Host")]
struct HostDerived {
    id: String,
}

#[koto_impl(runtime = koto_runtime)]
impl HostDerived {
    #[koto_method]
    fn tag(&self) -> KValue {
        log(vec![format!("{}.tag", self.id), self.id.clone()]);
        format!("{}.tag", self.id).into()
    }

    #[koto_method(alias = "same")]
    fn echo(&self, args: &[KValue]) -> Result<KValue> {
        let mut e = vec![format!("{}.echo", self.id), self.id.clone()];
        e.extend(args.iter().map(desc));
        log(e);
        Ok(args.first().cloned().unwrap_or(KValue::Null))
    }
}

impl KotoObject for HostDerived {
    fn add(&self, other: &KValue) -> Result<KValue> {
        log(vec![format!("{}@+", self.id), self.id.clone(), desc(other)]);
        Ok(format!("{}@+", self.id).into())
    }
}

fn make_core(args: &[KValue]) -> Result<Core> {
    match args {
        [KValue::Str(id), KValue::List(keys), KValue::Map(beh)] => {
            let mut core = Core { id: id.as_str().to_string(), ..Default::default() };
            for k in keys.data().iter() {
                if let KValue::Str(k) = k {
                    core.methods.insert(k.as_str().to_string());
                }
            }
            for (k, v) in beh.data().iter() {
                if let (KValue::Str(k), KValue::Str(v)) = (k.value(), v) {
                    core.beh.insert(k.as_str().to_string(), v.as_str().to_string());
                }
            }
            Ok(core)
        }
        unexpected => unexpected_args("|String, List, Map|", unexpected),
    }
}

fn install(vm: &mut ScriptVm) {
    let prelude = vm.vm.prelude();
    prelude.add_fn("ev", |ctx| {
        log(ctx.args().iter().enumerate().map(|(i, a)| match (i, a) {
            (0, KValue::Str(s)) => s.as_str().to_string(),
            (_, a) => desc(a),
        }).collect());
        Ok(KValue::Null)
    });
    // native functions usable as metakey entries (MetaMap::add_fn style)
    prelude.add_fn("nat_true", |ctx| {
        let mut e = vec!["nat_true".to_string(), desc(ctx.instance())];
        e.extend(ctx.args().iter().map(desc));
        log(e);
        Ok(true.into())
    });
    prelude.add_fn("nat_false", |ctx| {
        let mut e = vec!["nat_false".to_string(), desc(ctx.instance())];
        e.extend(ctx.args().iter().map(desc));
        log(e);
        Ok(false.into())
    });
    prelude.add_fn("nat_val", |ctx| {
        let mut e = vec!["nat_val".to_string(), desc(ctx.instance())];
        e.extend(ctx.args().iter().map(desc));
        log(e);
        Ok("nat".into())
    });
    prelude.add_fn("host", |ctx| Ok(KObject::from(HostFull { core: make_core(ctx.args())? }).into()));
    prelude.add_fn("host4", |ctx| Ok(KObject::from(Host4 { core: make_core(ctx.args())? }).into()));
    prelude.add_fn("bare", |ctx| match ctx.args() {
        [KValue::Str(id)] => Ok(KObject::from(HostBare { id: id.as_str().to_string() }).into()),
        unexpected => unexpected_args("|String|", unexpected),
    });
    prelude.add_fn("derived", |ctx| match ctx.args() {
        [KValue::Str(id)] => Ok(KObject::from(HostDerived { id: id.as_str().to_string() }).into()),
        unexpected => unexpected_args("|String|", unexpected),
    });
}

fn main() {
    quiet_panics();
    let cases = read_cases();
    let mut w = out();
    for case in &cases {
        let src = case["src"].as_str().unwrap_or("").to_string();
        TRACE.with(|t| t.borrow_mut().clear());
        let r = guarded(move || {
            let mut vm = ScriptVm::with_limit(Some(std::time::Duration::from_millis(3000)));
            install(&mut vm);
            let o = vm.run(&src);
            json!({"result": o.result, "out": o.out, "msg": o.message})
        });
        let trace: Vec<Vec<String>> = TRACE.with(|t| t.borrow().clone());
        match r {
            Ok(mut v) => {
                v["trace"] = json!(trace);
                emit_line(&mut w, &v)
            }
            Err(msg) => emit_line(&mut w, &json!({"panic": msg, "at": last_panic_location(), "trace": trace})),
        }
    }
}
