//! C13 harness: runs iterator pipelines on the real koto runtime.
//!
//! case {"src": "<koto script>"}: the script runs on a fresh VM whose prelude has a native
//!   `emit(tag, value)` that appends [tag, canon(value)] to an event log kept on the Rust side
//!   (so the interleaving of source pulls, callback calls and outputs is observed directly);
//!   -> {"events": [[tag, canon]..], "result": canon value or error class, "msg": error text}
//! case {"bytes": [..], "ops": "fbfb.."}: drives KIterator::with_bytes directly (ByteIterator has no
//!   script-level constructor besides os.command output): f = next, b = next_back;
//!   -> {"outs": [canon or null ..], "bidir": bool}
//! a panic -> {"panic": msg, "at": location}
use kh::script::{ScriptVm, canon};
use kh::*;
use koto_runtime::prelude::*;
use serde_json::json;
use std::cell::RefCell;

thread_local! {
    static EVENTS: RefCell<Vec<serde_json::Value>> = const { RefCell::new(Vec::new()) };
}

fn run_script(src: &str, limit_ms: u64) -> serde_json::Value {
    EVENTS.with(|e| e.borrow_mut().clear());
    let mut vm = ScriptVm::with_limit(Some(std::time::Duration::from_millis(limit_ms)));
    vm.vm.prelude().add_fn("emit", |ctx| {
        let args = ctx.args();
        let tag = match args.first() {
            Some(KValue::Str(s)) => s.as_str().to_string(),
            Some(other) => canon(other),
            None => String::new(),
        };
        let val = args.get(1).map(canon).unwrap_or_else(|| "n".to_string());
        EVENTS.with(|e| e.borrow_mut().push(json!([tag, val])));
        Ok(KValue::Null)
    });
    let o = vm.run(src);
    let events = EVENTS.with(|e| std::mem::take(&mut *e.borrow_mut()));
    json!({"events": events, "result": o.result, "msg": o.message, "out": o.out})
}

fn run_bytes(bytes: Vec<u8>, ops: &str) -> serde_json::Value {
    let ptr: koto_memory::Ptr<[u8]> = bytes.into();
    let mut it = KIterator::with_bytes(ptr).expect("with_bytes");
    let bidir = it.is_bidirectional();
    let mut outs = Vec::new();
    for op in ops.chars() {
        let o = if op == 'b' { it.next_back() } else { it.next() };
        outs.push(match o {
            Some(KIteratorOutput::Value(v)) => json!(canon(&v)),
            Some(KIteratorOutput::ValuePair(a, b)) => json!(format!("P({},{})", canon(&a), canon(&b))),
            Some(KIteratorOutput::Error(_)) => json!("E"),
            None => serde_json::Value::Null,
        });
    }
    json!({"outs": outs, "bidir": bidir})
}

fn main() {
    quiet_panics();
    let cases = read_cases();
    let mut w = out();
    for case in &cases {
        let case = case.clone();
        let r = guarded(move || {
            if let Some(bytes) = case.get("bytes") {
                let bytes: Vec<u8> =
                    bytes.as_array().unwrap().iter().map(|b| b.as_u64().unwrap() as u8).collect();
                run_bytes(bytes, case["ops"].as_str().unwrap_or(""))
            } else {
                let src = case["src"].as_str().unwrap_or("").to_string();
                let limit = case.get("limit_ms").and_then(|c| c.as_u64()).unwrap_or(2000);
                run_script(&src, limit)
            }
        });
        match r {
            Ok(v) => emit_line(&mut w, &v),
            Err(msg) => emit_line(&mut w, &json!({"panic": msg, "at": last_panic_location()})),
        }
    }
}
