//! C06 host safety sweep.  One JSON job per line of the case file; the first job may be
//! {"mode":"pool","items":[{"name","src"}..]} (values are produced by running `src` afresh for
//! every call).  Jobs:
//!   {"mode":"list"}                                   -> every entry of the prelude's modules
//!   {"mode":"calls","module","fn","form":"m"|"f","pools":[[pool idx..]..],
//!    "from":k?, "sample":{"n","seed"}?, "all":bool?, "drive":bool?}
//!   {"mode":"text","src", "run":bool?}                -> compile, format x2, error Display, run+display
//!   {"mode":"mutate","src","from":k?,"sample":{..}?,"run":bool?}  -> single-token delete/dup/swap
//! Every unit of work is announced in the progress file (KH_PROGRESS: job number, index) before it
//! starts, so that a hang (watchdog thread, exit code 9) or an abort is attributed to one case.
//! Output: one line per panic (always), one line per case when "all" is set, one summary line per job.
use kh::script::{ScriptVm, canon, error_class};
use kh::*;
use koto_bytecode::{Chunk, CompilerSettings};
use koto_runtime::{KValue, KotoVm, Ptr, prelude::*};
use serde_json::{Value, json};
use std::cell::Cell;
use std::collections::BTreeMap;
use std::os::unix::fs::FileExt;
use std::sync::atomic::{AtomicU64, Ordering};
use std::time::Duration;

static TICK: AtomicU64 = AtomicU64::new(0);
static CUR_JOB: AtomicU64 = AtomicU64::new(0);
static CUR_IDX: AtomicU64 = AtomicU64::new(0);
static CALLS_DONE: AtomicU64 = AtomicU64::new(0);

thread_local! {
    static PHASE: Cell<&'static str> = const { Cell::new("") };
}

fn phase(p: &'static str) {
    PHASE.with(|c| c.set(p));
}

struct Progress {
    file: Option<std::fs::File>,
}

impl Progress {
    fn mark(&self, job: u64, idx: u64) {
        CUR_JOB.store(job, Ordering::SeqCst);
        CUR_IDX.store(idx, Ordering::SeqCst);
        TICK.fetch_add(1, Ordering::SeqCst);
        if let Some(f) = &self.file {
            let mut b = [0u8; 16];
            b[..8].copy_from_slice(&job.to_le_bytes());
            b[8..].copy_from_slice(&idx.to_le_bytes());
            let _ = f.write_at(&b, 0);
        }
    }
}

fn say(v: &Value) {
    // stdout is line buffered: every line reaches the pipe before the next case starts
    println!("{}", serde_json::to_string(v).unwrap());
}

struct SplitMix(u64);
impl SplitMix {
    fn next(&mut self) -> u64 {
        self.0 = self.0.wrapping_add(0x9E3779B97F4A7C15);
        let mut z = self.0;
        z = (z ^ (z >> 30)).wrapping_mul(0xBF58476D1CE4E5B9);
        z = (z ^ (z >> 27)).wrapping_mul(0x94D049BB133111EB);
        z ^ (z >> 31)
    }
}

struct World {
    svm: ScriptVm,
    pool_src: Vec<(String, String)>,
    pool: Vec<Option<Ptr<Chunk>>>,
}

impl World {
    fn new(pool_src: &[(String, String)]) -> Self {
        let mut svm = ScriptVm::new();
        let pool = pool_src
            .iter()
            .map(|(_, src)| {
                if src == "@0" {
                    None
                } else {
                    Some(svm.compile(src, CompilerSettings::default()).expect("pool item does not compile"))
                }
            })
            .collect();
        Self { svm, pool_src: pool_src.to_vec(), pool }
    }

    fn value(&mut self, i: usize) -> Option<KValue> {
        let chunk = self.pool[i].clone()?;
        Some(self.svm.vm.run(chunk).unwrap_or_else(|e| panic!("pool item {} failed: {e}", self.pool_src[i].0)))
    }
}

fn entries(vm: &KotoVm) -> Vec<(String, String, KValue, KValue)> {
    // (module, name, value, module map)
    let mut out = vec![];
    let prelude = vm.prelude().clone();
    let top: Vec<(String, KValue)> =
        prelude.data().iter().map(|(k, v)| (k.value().to_string_lossy(), v.clone())).collect();
    for (k, v) in top {
        match &v {
            KValue::Map(m) => {
                let inner: Vec<(String, KValue)> =
                    m.data().iter().map(|(k, v)| (k.value().to_string_lossy(), v.clone())).collect();
                for (n, f) in inner {
                    out.push((k.clone(), n, f, v.clone()));
                }
            }
            _ => out.push(("prelude".to_string(), k, v.clone(), KValue::Map(prelude.clone()))),
        }
    }
    out
}

trait Lossy {
    fn to_string_lossy(&self) -> String;
}
impl Lossy for KValue {
    fn to_string_lossy(&self) -> String {
        match self {
            KValue::Str(s) => s.as_str().to_string(),
            other => canon(other),
        }
    }
}

fn kind_of(v: &KValue) -> &'static str {
    match v {
        KValue::NativeFunction(_) | KValue::Function(_) => "fn",
        KValue::Map(_) => "map",
        KValue::Object(_) => "object",
        _ => "value",
    }
}

/// canonical rendering with a node budget (cyclic / heavily shared containers)
fn canon_b(v: &KValue) -> String {
    fn go(v: &KValue, out: &mut String, budget: &mut i32) {
        *budget -= 1;
        if *budget < 0 {
            out.push_str("...");
            return;
        }
        match v {
            KValue::List(l) => {
                out.push_str("L[");
                let items: Vec<KValue> = l.data().iter().cloned().collect();
                for (i, e) in items.iter().enumerate() {
                    if i > 0 {
                        out.push(',');
                    }
                    if *budget < 0 {
                        break;
                    }
                    go(e, out, budget);
                }
                out.push(']');
            }
            KValue::Tuple(t) => {
                out.push_str("T(");
                for (i, e) in t.iter().enumerate() {
                    if i > 0 {
                        out.push(',');
                    }
                    if *budget < 0 {
                        break;
                    }
                    go(e, out, budget);
                }
                out.push(')');
            }
            KValue::Map(_) => out.push('M'),
            other => out.push_str(&canon(other)),
        }
    }
    let mut s = String::new();
    let mut budget = 400;
    go(v, &mut s, &mut budget);
    s
}

/// one call: returns the outcome class ("v:<canon>" | "e:<class>")
fn binary_op(name: &str) -> Option<BinaryOp> {
    Some(match name {
        "add" => BinaryOp::Add,
        "subtract" => BinaryOp::Subtract,
        "multiply" => BinaryOp::Multiply,
        "divide" => BinaryOp::Divide,
        "remainder" => BinaryOp::Remainder,
        "power" => BinaryOp::Power,
        "add_assign" => BinaryOp::AddAssign,
        "subtract_assign" => BinaryOp::SubtractAssign,
        "multiply_assign" => BinaryOp::MultiplyAssign,
        "divide_assign" => BinaryOp::DivideAssign,
        "remainder_assign" => BinaryOp::RemainderAssign,
        "power_assign" => BinaryOp::PowerAssign,
        "less" => BinaryOp::Less,
        "equal" => BinaryOp::Equal,
        _ => return None,
    })
}

fn one_call(
    w: &mut World,
    f: &KValue,
    module: &KValue,
    form: &str,
    items: &[usize],
    drive: bool,
    op: Option<BinaryOp>,
) -> String {
    phase("pool");
    let mut args: Vec<KValue> = Vec::with_capacity(items.len());
    for &i in items {
        let v = match w.value(i) {
            Some(v) => v,
            None => args.first().cloned().unwrap_or(KValue::Null), // "@0": the receiver itself
        };
        args.push(v);
    }
    phase("call");
    // a fresh register stack per call (failed host calls leave registers behind, see mode "repeat")
    let mut child = w.svm.vm.spawn_shared_vm();
    let vm = &mut child;
    let r = if let Some(op) = op {
        if args.len() == 2 {
            vm.run_binary_op(op, args[0].clone(), args[1].clone())
        } else {
            Ok(KValue::Null)
        }
    } else if form == "m" && !args.is_empty() {
        vm.call_instance_function(args[0].clone(), f.clone(), &args[1..])
    } else {
        vm.call_instance_function(module.clone(), f.clone(), &args[..])
    };
    match r {
        Ok(v) => {
            let c = canon_b(&v);
            phase("display");
            let _ = vm.value_to_string(&v);
            if drive {
                if let KValue::Iterator(it) = &v {
                    phase("drive");
                    let mut it = it.clone();
                    let _ = it.size_hint();
                    for _ in 0..3 {
                        match it.next() {
                            Some(KIteratorOutput::Value(x)) => {
                                let _ = vm.value_to_string(&x);
                            }
                            Some(KIteratorOutput::ValuePair(a, b)) => {
                                let _ = vm.value_to_string(&a);
                                let _ = vm.value_to_string(&b);
                            }
                            Some(KIteratorOutput::Error(e)) => {
                                let _ = e.to_string();
                                break;
                            }
                            None => break,
                        }
                        let _ = it.size_hint();
                    }
                    if it.is_bidirectional() {
                        let _ = it.next_back();
                    }
                    let _ = it.size_hint();
                }
            }
            let _ = w.svm.capture.take();
            format!("v:{c}")
        }
        Err(e) => {
            let c = error_class(&e);
            phase("display");
            let _ = e.to_string();
            let _ = w.svm.capture.take();
            format!("e:{c}")
        }
    }
}

fn class_of(outcome: &str) -> String {
    // coarse histogram key
    if let Some(rest) = outcome.strip_prefix("e:") {
        let head: String = rest.chars().take_while(|c| c.is_ascii_alphanumeric()).collect();
        format!("e:{head}")
    } else {
        "ok".to_string()
    }
}

fn decode(mut idx: u64, pools: &[Vec<usize>]) -> Vec<usize> {
    // position 0 varies slowest
    let mut out = vec![0; pools.len()];
    for p in (0..pools.len()).rev() {
        let n = pools[p].len() as u64;
        out[p] = pools[p][(idx % n) as usize];
        idx /= n;
    }
    out
}

fn index_list(job: &Value, total: u64) -> Vec<u64> {
    let from = job.get("from").and_then(|x| x.as_u64()).unwrap_or(0);
    if let Some(s) = job.get("sample").filter(|s| !s.is_null()) {
        let n = s["n"].as_u64().unwrap_or(0);
        if n < total {
            let mut rng = SplitMix(s["seed"].as_u64().unwrap_or(1));
            return (0..n).map(|_| rng.next() % total).skip(from as usize).collect();
        }
    }
    (from..total).collect()
}

fn run_calls(jno: u64, job: &Value, w: &mut World, progress: &Progress) {
    let module = job["module"].as_str().unwrap_or("");
    let name = job["fn"].as_str().unwrap_or("");
    let form = job["form"].as_str().unwrap_or("m").to_string();
    let all = job.get("all").and_then(|x| x.as_bool()).unwrap_or(false);
    let drive = job.get("drive").and_then(|x| x.as_bool()).unwrap_or(true);
    let pools: Vec<Vec<usize>> = job["pools"]
        .as_array()
        .map(|a| a.iter().map(|p| p.as_array().unwrap().iter().map(|x| x.as_u64().unwrap() as usize).collect()).collect())
        .unwrap_or_default();
    let total: u64 = pools.iter().map(|p| p.len() as u64).product();
    let sampled = job.get("sample").is_some_and(|s| !s.is_null() && s["n"].as_u64().unwrap_or(0) < total);
    let from = job.get("from").and_then(|x| x.as_u64()).unwrap_or(0);
    let idxs = index_list(job, total);
    let mut hist: BTreeMap<String, u64> = BTreeMap::new();
    let mut done = 0u64;
    let op = if module == "op" { binary_op(name) } else { None };
    let mut found = entries(&w.svm.vm).into_iter().find(|e| e.0 == module && e.1 == name);
    if op.is_some() {
        found = Some((module.to_string(), name.to_string(), KValue::Null, KValue::Null));
    }
    if found.is_none() {
        say(&json!({"j": jno, "missing": format!("{module}.{name}")}));
        return;
    }
    for (k, idx) in idxs.iter().enumerate() {
        // the progress index is the position in the (possibly sampled) sequence
        let pos = if sampled { from + k as u64 } else { *idx };
        progress.mark(jno, pos);
        let items = decode(*idx, &pools);
        let (f, m) = {
            let e = found.as_ref().unwrap();
            (e.2.clone(), e.3.clone())
        };
        let r = guarded(std::panic::AssertUnwindSafe(|| one_call(w, &f, &m, &form, &items, drive, op)));
        done += 1;
        match r {
            Ok(o) => {
                *hist.entry(class_of(&o)).or_default() += 1;
                if all {
                    say(&json!({"j": jno, "i": pos, "a": items, "o": o}));
                }
            }
            Err(msg) => {
                *hist.entry("panic".into()).or_default() += 1;
                let ph = PHASE.with(|c| c.get());
                say(&json!({"j": jno, "i": pos, "a": items, "panic": msg, "at": last_panic_location(), "phase": ph}));
                // the VM may have been left mid-call: start over with a fresh one
                let src = w.pool_src.clone();
                *w = World::new(&src);
                if op.is_none() {
                    found = entries(&w.svm.vm).into_iter().find(|e| e.0 == module && e.1 == name);
                }
            }
        }
    }
    say(&json!({"j": jno, "done": done, "hist": hist}));
}

const RISKY: [&str; 9] =
    ["command", "io.create", "remove_file", "io.open", "read_to_string", "stdin", "tempfile", "io.temp", "import"];

/// compile, format (two option sets), render errors, optionally run and display
fn text_case(src: &str, run: bool) -> Value {
    // large generated programs: compile, one format pass, run
    let light = src.len() > 20_000;
    let mut notes = serde_json::Map::new();
    phase("compile");
    let mut svm = ScriptVm::with_limit(Some(Duration::from_millis(100)));
    let compiled = svm.compile(src, CompilerSettings::default());
    notes.insert("compile".into(), json!(compiled.is_ok()));
    if let Ok(chunk) = &compiled {
        notes.insert("bytes".into(), json!(chunk.bytes.len()));
    }
    phase("parse");
    if light {
    } else if let Err(e) = koto_parser::Parser::parse(src) {
        phase("parse-error-display");
        let _ = e.to_string();
        let _ = format!("{e:?}");
    }
    phase("format");
    let f1 = koto_format::format(src, koto_format::FormatOptions::default());
    match &f1 {
        Ok(_) => {}
        Err(e) => {
            phase("format-error-display");
            let _ = e.to_string();
        }
    }
    notes.insert("format".into(), json!(f1.is_ok()));
    phase("format-narrow");
    let narrow = koto_format::FormatOptions {
        always_indent_arms: true,
        indent_width: 3,
        line_length: 24,
        chain_break_threshold: 1,
    };
    if light {
    } else if let Err(e) = koto_format::format(src, narrow) {
        phase("format-error-display");
        let _ = e.to_string();
    }
    if let (Ok(out), false) = (&f1, light) {
        // the formatter's own output goes through the same pipeline once more
        phase("format-again");
        if let Err(e) = koto_format::format(out, koto_format::FormatOptions::default()) {
            let _ = e.to_string();
        }
    }
    if run && !RISKY.iter().any(|r| src.contains(r)) {
        if let Ok(chunk) = compiled {
            phase("run");
            match svm.vm.run(chunk) {
                Ok(v) => {
                    phase("display");
                    let _ = svm.vm.value_to_string(&v);
                    notes.insert("run".into(), json!("ok"));
                }
                Err(e) => {
                    phase("run-error-display");
                    let _ = e.to_string();
                    let _ = format!("{e:#}");
                    let _ = format!("{e:?}");
                    notes.insert("run".into(), json!(error_class(&e)));
                }
            }
        }
    }
    Value::Object(notes)
}

fn guarded_text(jno: u64, pos: u64, src: String, run: bool, extra: Value, all: bool, hist: &mut BTreeMap<String, u64>) {
    match guarded(std::panic::AssertUnwindSafe(|| text_case(&src, run))) {
        Ok(v) => {
            let key = format!(
                "compile={} format={} run={}",
                v["compile"].as_bool().unwrap_or(false),
                v["format"].as_bool().unwrap_or(false),
                v.get("run").and_then(|r| r.as_str()).unwrap_or("-")
            );
            *hist.entry(key).or_default() += 1;
            if all {
                say(&json!({"j": jno, "i": pos, "o": v}));
            }
        }
        Err(msg) => {
            *hist.entry("panic".into()).or_default() += 1;
            let ph = PHASE.with(|c| c.get());
            say(&json!({"j": jno, "i": pos, "panic": msg, "at": last_panic_location(), "phase": ph, "src": src, "mut": extra}));
        }
    }
}

fn token_spans(src: &str) -> Vec<(usize, usize)> {
    let mut out = vec![];
    let lexer = koto_lexer::Lexer::new(src);
    for t in lexer {
        if t.source_bytes.end > t.source_bytes.start && t.source_bytes.end <= src.len() {
            out.push((t.source_bytes.start, t.source_bytes.end));
        }
        if out.len() > 20000 {
            break;
        }
    }
    out
}

fn mutant(src: &str, spans: &[(usize, usize)], idx: u64) -> Option<(String, &'static str, usize)> {
    let t = (idx / 3) as usize;
    let (a, b) = *spans.get(t)?;
    if !src.is_char_boundary(a) || !src.is_char_boundary(b) {
        return None;
    }
    match idx % 3 {
        0 => Some((format!("{}{}", &src[..a], &src[b..]), "delete", t)),
        1 => Some((format!("{}{}{}", &src[..b], &src[a..b], &src[b..]), "duplicate", t)),
        _ => {
            let (c, d) = *spans.get(t + 1)?;
            if c != b || !src.is_char_boundary(d) {
                return None;
            }
            Some((format!("{}{}{}{}", &src[..a], &src[c..d], &src[a..b], &src[d..]), "swap", t))
        }
    }
}

fn run_mutate(jno: u64, job: &Value, progress: &Progress) {
    let src = job["src"].as_str().unwrap_or("").to_string();
    let run = job.get("run").and_then(|x| x.as_bool()).unwrap_or(false);
    progress.mark(jno, u64::MAX);
    let s2 = src.clone();
    let spans = match guarded(move || token_spans(&s2)) {
        Ok(s) => s,
        Err(msg) => {
            say(&json!({"j": jno, "i": 0, "panic": msg, "at": last_panic_location(), "phase": "lex", "src": src}));
            return;
        }
    };
    let total = spans.len() as u64 * 3;
    let from = job.get("from").and_then(|x| x.as_u64()).unwrap_or(0);
    let sampled = job.get("sample").is_some_and(|s| !s.is_null() && s["n"].as_u64().unwrap_or(0) < total);
    let idxs = index_list(job, total);
    let mut hist = BTreeMap::new();
    let mut done = 0u64;
    for (k, idx) in idxs.iter().enumerate() {
        let pos = if sampled { from + k as u64 } else { *idx };
        progress.mark(jno, pos);
        if let Some((m, kind, t)) = mutant(&src, &spans, *idx) {
            done += 1;
            guarded_text(jno, pos, m, run, json!({"kind": kind, "token": t}), false, &mut hist);
        }
    }
    say(&json!({"j": jno, "done": done, "hist": hist, "tokens": spans.len()}));
}

fn main() {
    quiet_panics();
    let cases = read_cases();
    let progress = Progress {
        file: std::env::var("KH_PROGRESS")
            .ok()
            .and_then(|p| std::fs::OpenOptions::new().write(true).create(true).truncate(false).open(p).ok()),
    };
    let limit_ms: u64 = std::env::var("KH_WATCHDOG_MS").ok().and_then(|s| s.parse().ok()).unwrap_or(4000);
    // watchdog: a case that makes no progress for limit_ms is reported as a hang and the process exits
    std::thread::spawn(move || {
        let mut last = TICK.load(Ordering::SeqCst);
        let mut since = std::time::Instant::now();
        loop {
            std::thread::sleep(Duration::from_millis(100));
            let now = TICK.load(Ordering::SeqCst);
            if now != last {
                last = now;
                since = std::time::Instant::now();
            } else if since.elapsed() > Duration::from_millis(limit_ms) {
                let j = CUR_JOB.load(Ordering::SeqCst);
                let i = CUR_IDX.load(Ordering::SeqCst);
                say(&json!({"j": j, "i": i, "hang": true}));
                std::process::exit(9);
            }
        }
    });
    let worker = std::thread::Builder::new().stack_size(256 << 20).spawn(move || {
        let mut pool_src: Vec<(String, String)> = vec![];
        let mut world: Option<World> = None;
        for (jno, job) in cases.iter().enumerate() {
            let jno = job.get("id").and_then(|x| x.as_u64()).unwrap_or(jno as u64);
            progress.mark(jno, u64::MAX);
            match job["mode"].as_str().unwrap_or("") {
                "pool" => {
                    pool_src = job["items"]
                        .as_array()
                        .unwrap()
                        .iter()
                        .map(|i| (i["name"].as_str().unwrap().to_string(), i["src"].as_str().unwrap().to_string()))
                        .collect();
                    world = None;
                }
                "list" => {
                    let svm = ScriptVm::new();
                    let es: Vec<Value> = entries(&svm.vm)
                        .iter()
                        .map(|(m, n, v, _)| json!({"module": m, "name": n, "kind": kind_of(v)}))
                        .collect();
                    say(&json!({"j": jno, "entries": es}));
                }
                "calls" => {
                    if world.is_none() {
                        world = Some(World::new(&pool_src));
                    }
                    run_calls(jno, job, world.as_mut().unwrap(), &progress);
                }
                "repeat" => {
                    // the same call `times` times on ONE vm (no fresh register stack in between)
                    if world.is_none() {
                        world = Some(World::new(&pool_src));
                    }
                    let w = world.as_mut().unwrap();
                    let module = job["module"].as_str().unwrap_or("");
                    let name = job["fn"].as_str().unwrap_or("");
                    let items: Vec<usize> =
                        job["args"].as_array().unwrap().iter().map(|x| x.as_u64().unwrap() as usize).collect();
                    let times = job["times"].as_u64().unwrap_or(300);
                    let Some(e) = entries(&w.svm.vm).into_iter().find(|e| e.0 == module && e.1 == name) else {
                        say(&json!({"j": jno, "missing": format!("{module}.{name}")}));
                        continue;
                    };
                    progress.mark(jno, 0);
                    let r = guarded(std::panic::AssertUnwindSafe(|| {
                        let mut n = 0u64;
                        for _ in 0..times {
                            let args: Vec<KValue> = items.iter().map(|&i| w.value(i).unwrap_or(KValue::Null)).collect();
                            phase("call");
                            let _ = w.svm.vm.call_instance_function(e.3.clone(), e.2.clone(), &args[..]);
                            n += 1;
                            CALLS_DONE.store(n, Ordering::SeqCst);
                        }
                        n
                    }));
                    match r {
                        Ok(n) => say(&json!({"j": jno, "i": 0, "o": format!("v:{n}")})),
                        Err(msg) => {
                            say(&json!({"j": jno, "i": 0, "panic": msg, "at": last_panic_location(), "phase": "repeat",
                                        "after_calls": CALLS_DONE.load(Ordering::SeqCst)}));
                            world = None;
                        }
                    }
                    say(&json!({"j": jno, "done": 1, "hist": {}}));
                }
                "text" => {
                    let mut hist = BTreeMap::new();
                    progress.mark(jno, 0);
                    let run = job.get("run").and_then(|x| x.as_bool()).unwrap_or(false);
                    let all = job.get("all").and_then(|x| x.as_bool()).unwrap_or(false);
                    guarded_text(jno, 0, job["src"].as_str().unwrap_or("").to_string(), run, Value::Null, all, &mut hist);
                    say(&json!({"j": jno, "done": 1, "hist": hist}));
                }
                "mutate" => run_mutate(jno, job, &progress),
                other => say(&json!({"j": jno, "unknown_mode": other})),
            }
        }
        say(&json!({"end": true}));
    });
    let ok = worker.unwrap().join().is_ok();
    std::process::exit(if ok { 0 } else { 7 });
}
