//! C05 harness: compiles each case with the REAL compiler (parser first, to tell "not accepted by
//! the parser" from "compile error"), dumps the chunk bytes, the constant pool size/kinds and the
//! instruction list produced by the REAL `InstructionReader`, recompiles the same text `reps` times
//! in this process and reports whether the images are identical, and optionally runs the program.
//!
//! case:   {"raw": [bytes]}  (the real reader on raw bytes)  or
//!         {"src": "...", "reps": n?, "run": bool?, "limit_ms": n?, "no_dump": bool?}
//! output: {"parse": "err"} | {"compile": "err", "msg": ".."} | {"panic": "..", "at": "..", "stage": ".."}
//!       | {"bytes": [..], "nconsts": n, "kinds": "fis..", "instrs": [[ip, "Variant", {field: value}], ..],
//!          "end_ip": ip, "reader_error": msg?, "img": "<hash of bytes + constants>", "det": bool,
//!          "imgs": [..], "run": {"result": "..", "msg": ".."} | {"panic": "..", "at": ".."}}
use kh::script::ScriptVm;
use kh::*;
use koto_bytecode::{Chunk, Compiler, CompilerSettings, Instruction, InstructionReader};
use koto_parser::{Constant, ConstantIndex, MetaKeyId, Parser};
use serde_json::{Value, json};

trait J {
    fn j(&self) -> Value;
}
macro_rules! jnum {
    ($($t:ty),*) => { $(impl J for $t { fn j(&self) -> Value { json!(*self) } })* };
}
jnum!(u8, u16, u32, i8, i64, usize);
impl J for bool {
    fn j(&self) -> Value {
        json!(if *self { 1 } else { 0 })
    }
}
impl J for Option<u8> {
    fn j(&self) -> Value {
        match self {
            Some(x) => json!(*x),
            None => json!(-1),
        }
    }
}
impl J for ConstantIndex {
    fn j(&self) -> Value {
        json!(u32::from(*self))
    }
}
impl J for MetaKeyId {
    fn j(&self) -> Value {
        json!(*self as u8)
    }
}

macro_rules! fields {
    ($name:literal; $($f:ident),*) => { ($name, json!({ $(stringify!($f): $f.j()),* })) };
}

fn instruction_to_json(i: &Instruction) -> (&'static str, Value) {
    use Instruction::*;
    match i {
        Error { message } => ("Error", json!({"message": message})),
        NewFrame { register_count } => fields!("NewFrame"; register_count),
        Copy { target, source } => fields!("Copy"; target, source),
        SetNull { register } => fields!("SetNull"; register),
        SetBool { register, value } => fields!("SetBool"; register, value),
        SetNumber { register, value } => fields!("SetNumber"; register, value),
        LoadFloat { register, constant } => fields!("LoadFloat"; register, constant),
        LoadInt { register, constant } => fields!("LoadInt"; register, constant),
        LoadString { register, constant } => fields!("LoadString"; register, constant),
        LoadNonLocal { register, constant } => fields!("LoadNonLocal"; register, constant),
        ExportValue { key, value } => fields!("ExportValue"; key, value),
        ExportEntry { entry } => fields!("ExportEntry"; entry),
        Import { register } => fields!("Import"; register),
        ImportAll { register } => fields!("ImportAll"; register),
        MakeTempTuple { register, start, count } => fields!("MakeTempTuple"; register, start, count),
        TempTupleToTuple { register, source } => fields!("TempTupleToTuple"; register, source),
        MakeMap { register, size_hint } => fields!("MakeMap"; register, size_hint),
        SequenceStart { size_hint } => fields!("SequenceStart"; size_hint),
        SequencePush { value } => fields!("SequencePush"; value),
        SequencePushN { start, count } => fields!("SequencePushN"; start, count),
        SequenceToList { register } => fields!("SequenceToList"; register),
        SequenceToTuple { register } => fields!("SequenceToTuple"; register),
        Range { register, start, end } => fields!("Range"; register, start, end),
        RangeInclusive { register, start, end } => fields!("RangeInclusive"; register, start, end),
        RangeTo { register, end } => fields!("RangeTo"; register, end),
        RangeToInclusive { register, end } => fields!("RangeToInclusive"; register, end),
        RangeFrom { register, start } => fields!("RangeFrom"; register, start),
        RangeFull { register } => fields!("RangeFull"; register),
        MakeIterator { register, iterable } => fields!("MakeIterator"; register, iterable),
        Function { register, arg_count, optional_arg_count, capture_count, flags, size } => {
            let flags = u8::from(*flags);
            fields!("Function"; register, arg_count, optional_arg_count, capture_count, flags, size)
        }
        Capture { function, target, source } => fields!("Capture"; function, target, source),
        Negate { register, value } => fields!("Negate"; register, value),
        Not { register, value } => fields!("Not"; register, value),
        Add { register, lhs, rhs } => fields!("Add"; register, lhs, rhs),
        Subtract { register, lhs, rhs } => fields!("Subtract"; register, lhs, rhs),
        Multiply { register, lhs, rhs } => fields!("Multiply"; register, lhs, rhs),
        Divide { register, lhs, rhs } => fields!("Divide"; register, lhs, rhs),
        Remainder { register, lhs, rhs } => fields!("Remainder"; register, lhs, rhs),
        Power { register, lhs, rhs } => fields!("Power"; register, lhs, rhs),
        AddAssign { lhs, rhs } => fields!("AddAssign"; lhs, rhs),
        SubtractAssign { lhs, rhs } => fields!("SubtractAssign"; lhs, rhs),
        MultiplyAssign { lhs, rhs } => fields!("MultiplyAssign"; lhs, rhs),
        DivideAssign { lhs, rhs } => fields!("DivideAssign"; lhs, rhs),
        RemainderAssign { lhs, rhs } => fields!("RemainderAssign"; lhs, rhs),
        PowerAssign { lhs, rhs } => fields!("PowerAssign"; lhs, rhs),
        Less { register, lhs, rhs } => fields!("Less"; register, lhs, rhs),
        LessOrEqual { register, lhs, rhs } => fields!("LessOrEqual"; register, lhs, rhs),
        Greater { register, lhs, rhs } => fields!("Greater"; register, lhs, rhs),
        GreaterOrEqual { register, lhs, rhs } => fields!("GreaterOrEqual"; register, lhs, rhs),
        Equal { register, lhs, rhs } => fields!("Equal"; register, lhs, rhs),
        NotEqual { register, lhs, rhs } => fields!("NotEqual"; register, lhs, rhs),
        Jump { offset } => fields!("Jump"; offset),
        JumpBack { offset } => fields!("JumpBack"; offset),
        JumpIfTrue { register, offset } => fields!("JumpIfTrue"; register, offset),
        JumpIfFalse { register, offset } => fields!("JumpIfFalse"; register, offset),
        JumpIfNull { register, offset } => fields!("JumpIfNull"; register, offset),
        Call { result, function, frame_base, arg_count, packed_arg_count } => {
            fields!("Call"; result, function, frame_base, arg_count, packed_arg_count)
        }
        CallInstance { result, function, instance, frame_base, arg_count, packed_arg_count } => {
            fields!("CallInstance"; result, function, instance, frame_base, arg_count, packed_arg_count)
        }
        Return { register } => fields!("Return"; register),
        Yield { register } => fields!("Yield"; register),
        Throw { register } => fields!("Throw"; register),
        Size { register, value } => fields!("Size"; register, value),
        IterNext { result, iterator, jump_offset, temporary_output } => {
            fields!("IterNext"; result, iterator, jump_offset, temporary_output)
        }
        TempIndex { register, value, index } => fields!("TempIndex"; register, value, index),
        SliceFrom { register, value, index } => fields!("SliceFrom"; register, value, index),
        SliceTo { register, value, index } => fields!("SliceTo"; register, value, index),
        Index { register, value, index } => fields!("Index"; register, value, index),
        IndexMut { register, index, value } => fields!("IndexMut"; register, index, value),
        MetaInsert { register, value, id } => fields!("MetaInsert"; register, value, id),
        MetaInsertNamed { register, value, id, name } => fields!("MetaInsertNamed"; register, value, id, name),
        MetaExport { id, value } => fields!("MetaExport"; id, value),
        MetaExportNamed { id, name, value } => fields!("MetaExportNamed"; id, name, value),
        Access { register, value, key } => fields!("Access"; register, value, key),
        TryAccess { register, value, key, jump_offset } => fields!("TryAccess"; register, value, key, jump_offset),
        AccessString { register, value, key } => fields!("AccessString"; register, value, key),
        TryAccessString { register, value, key, jump_offset } => {
            fields!("TryAccessString"; register, value, key, jump_offset)
        }
        AccessAssign { register, key, value } => fields!("AccessAssign"; register, key, value),
        TryStart { arg_register, catch_offset } => fields!("TryStart"; arg_register, catch_offset),
        TryEnd => ("TryEnd", json!({})),
        Debug { register, constant } => fields!("Debug"; register, constant),
        CheckSizeEqual { register, size } => fields!("CheckSizeEqual"; register, size),
        CheckSizeMin { register, size } => fields!("CheckSizeMin"; register, size),
        AssertType { value, allow_null, type_string } => fields!("AssertType"; value, allow_null, type_string),
        CheckType { value, allow_null, type_string, jump_offset } => {
            fields!("CheckType"; value, allow_null, type_string, jump_offset)
        }
        StringStart { size_hint } => fields!("StringStart"; size_hint),
        StringPush { value, format_options } => {
            let format_options = match format_options {
                None => json!(-1),
                Some(o) => json!([
                    o.alignment as u8,
                    o.min_width.map(|x| x as i64).unwrap_or(-1),
                    o.precision.map(|x| x as i64).unwrap_or(-1),
                    o.fill_character.map(|x| u32::from(x) as i64).unwrap_or(-1),
                    o.representation.map(|x| x as u8 as i64).unwrap_or(-1),
                ]),
            };
            ("StringPush", json!({"value": value, "format_options": format_options}))
        }
        StringFinish { register } => fields!("StringFinish"; register),
    }
}

fn fnv(h: &mut u64, bytes: &[u8]) {
    for b in bytes {
        *h ^= *b as u64;
        *h = h.wrapping_mul(0x100000001b3);
    }
}

fn image(chunk: &Chunk) -> String {
    let mut h = 0xcbf29ce484222325u64;
    fnv(&mut h, &chunk.bytes);
    fnv(&mut h, &[0xff, 0x00, 0xff]);
    for c in chunk.constants.iter() {
        match c {
            Constant::F64(x) => {
                fnv(&mut h, b"f");
                fnv(&mut h, &x.to_bits().to_le_bytes());
            }
            Constant::I64(x) => {
                fnv(&mut h, b"i");
                fnv(&mut h, &x.to_le_bytes());
            }
            Constant::Str(s) => {
                fnv(&mut h, b"s");
                fnv(&mut h, s.as_bytes());
                fnv(&mut h, &[0]);
            }
        }
    }
    format!("{h:016x}")
}

fn compile(src: &str) -> Result<Chunk, String> {
    Compiler::compile(src, None, CompilerSettings::default()).map_err(|e| e.to_string())
}

/// {"raw": [bytes]}: what the real InstructionReader yields on these bytes (no compiler involved)
fn raw_case(bytes: Vec<u8>) -> Value {
    let chunk = Chunk { bytes, ..Default::default() };
    let ptr = koto_memory::Ptr::from(chunk);
    let dump = guarded(move || {
        let mut reader = InstructionReader::new(ptr);
        let mut instrs = vec![];
        let mut reader_error = Value::Null;
        loop {
            let ip = reader.ip;
            let Some(i) = reader.next() else { break };
            let (name, fields) = instruction_to_json(&i);
            if name == "Error" {
                reader_error = json!([ip, fields["message"], reader.ip]);
                break;
            }
            instrs.push(json!([ip, name, fields, reader.ip]));
        }
        json!({"instrs": instrs, "reader_error": reader_error, "end_ip": reader.ip})
    });
    match dump {
        Ok(v) => v,
        Err(msg) => json!({"reader_panic": [msg, last_panic_location()]}),
    }
}

fn case(v: &Value) -> Value {
    if let Some(raw) = v["raw"].as_array() {
        return raw_case(raw.iter().map(|b| b.as_u64().unwrap_or(0) as u8).collect());
    }
    let src = v["src"].as_str().unwrap_or("").to_string();
    let reps = v["reps"].as_u64().unwrap_or(1).max(1);
    let run = v["run"].as_bool().unwrap_or(false);
    let no_dump = v["no_dump"].as_bool().unwrap_or(false);
    let limit = v["limit_ms"].as_u64().unwrap_or(2000);

    let s = src.clone();
    // largest local_count the parser reports for any frame (main block or function)
    let max_locals = match guarded(move || {
        Parser::parse(&s).ok().map(|ast| {
            ast.nodes()
                .iter()
                .map(|n| match &n.node {
                    koto_parser::Node::MainBlock { local_count, .. } => *local_count,
                    koto_parser::Node::Function(f) => f.local_count,
                    _ => 0,
                })
                .max()
                .unwrap_or(0)
        })
    }) {
        Ok(Some(n)) => n,
        Ok(None) => return json!({"parse": "err"}),
        Err(msg) => return json!({"panic": msg, "at": last_panic_location(), "stage": "parse"}),
    };
    let s = src.clone();
    let chunk = match guarded(move || compile(&s)) {
        Ok(Ok(c)) => c,
        Ok(Err(msg)) => return json!({"compile": "err", "msg": msg, "max_locals": max_locals}),
        Err(msg) => {
            return json!({"panic": msg, "at": last_panic_location(), "stage": "compile", "max_locals": max_locals});
        }
    };
    let img = image(&chunk);
    let mut imgs = vec![img.clone()];
    for _ in 1..reps {
        let s = src.clone();
        match guarded(move || compile(&s)) {
            Ok(Ok(c)) => imgs.push(image(&c)),
            Ok(Err(_)) => imgs.push("compile-error".into()),
            Err(_) => imgs.push("panic".into()),
        }
    }
    let det = imgs.iter().all(|i| *i == img);

    let mut out = json!({"nconsts": chunk.constants.size(), "img": img, "det": det, "imgs": imgs,
                         "nbytes": chunk.bytes.len(), "max_locals": max_locals});
    if !no_dump {
        let kinds: String = chunk
            .constants
            .iter()
            .map(|c| match c {
                Constant::F64(_) => 'f',
                Constant::I64(_) => 'i',
                Constant::Str(_) => 's',
            })
            .collect();
        let ptr = koto_memory::Ptr::from(chunk.clone());
        let dump = guarded(move || {
            let mut reader = InstructionReader::new(ptr);
            let mut instrs = vec![];
            let mut reader_error = Value::Null;
            loop {
                let ip = reader.ip;
                let Some(i) = reader.next() else { break };
                let (name, fields) = instruction_to_json(&i);
                if name == "Error" {
                    reader_error = json!([ip, fields["message"], reader.ip]);
                    break;
                }
                instrs.push(json!([ip, name, fields, reader.ip]));
            }
            (instrs, reader_error, reader.ip)
        });
        match dump {
            Ok((instrs, reader_error, end_ip)) => {
                out["bytes"] = json!(chunk.bytes);
                out["kinds"] = json!(kinds);
                out["instrs"] = json!(instrs);
                out["reader_error"] = reader_error;
                out["end_ip"] = json!(end_ip);
            }
            Err(msg) => {
                out["bytes"] = json!(chunk.bytes);
                out["reader_panic"] = json!([msg, last_panic_location()]);
            }
        }
    }
    if run {
        let s = src.clone();
        let r = guarded(move || {
            let mut vm = ScriptVm::with_limit(Some(std::time::Duration::from_millis(limit)));
            let o = vm.run(&s);
            json!({"result": o.result, "msg": o.message})
        });
        out["run"] = match r {
            Ok(v) => v,
            Err(msg) => json!({"panic": msg, "at": last_panic_location()}),
        };
    }
    out
}

fn main() {
    quiet_panics();
    let cases = read_cases();
    let mut w = out();
    for c in &cases {
        let c2 = c.clone();
        // run each case on a thread with a large stack (deeply nested generated programs)
        let r = std::thread::Builder::new()
            .stack_size(256 << 20)
            .spawn(move || {
                quiet_panics();
                let r = guarded(move || case(&c2));
                (r, last_panic_location())
            })
            .unwrap()
            .join();
        match r {
            Ok((Ok(v), _)) => emit_line(&mut w, &v),
            Ok((Err(msg), at)) => emit_line(&mut w, &json!({"panic": msg, "at": at, "stage": "harness"})),
            Err(_) => emit_line(&mut w, &json!({"panic": "thread", "at": "", "stage": "harness"})),
        }
    }
}
