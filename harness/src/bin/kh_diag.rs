//! C12 correspondence / observation binary.  One JSON case per line, field "m" selects the mode:
//!
//! {"m":"smap","pushes":[[ip,sl,sc,el,ec],..],"queries":[ip,..]}
//!     real `DebugInfo::push` for every push, then real `get_source_span` for every query
//!     -> {"r":[null | [sl,sc,el,ec], ..]}
//! {"m":"excerpt","src":"..","span":[sl,sc,el,ec]}
//!     real `koto_parser::format_source_excerpt(src, span, None)`
//!     -> {"text":[code points]} | {"panic":..,"at":..}
//! {"m":"run","src":".."}
//!     compile + run on a fresh VM
//!     -> {"kind":"compile","span":[..],"msg":..}
//!      | {"kind":"runtime","class":..,"trace":[{"ip":n,"span":[..]|null,"op":name,"excerpt":text|null}..],
//!         "msg":..,"head":..,"out":..,"instrs":[[ip,opname,sl,sc,el,ec]..],"ast":[[node kind,sl,sc,el,ec]..]}
//!      | {"kind":"ok","out":..,"instrs":[..]}
//!      | {"panic":..,"at":..}
use kh::script::{Capture, error_class};
use kh::*;
use koto_bytecode::{Chunk, CompilerSettings, DebugInfo, Instruction, InstructionReader};
use koto_parser::{Node, Parser, Position, Span, format_source_excerpt};
use koto_runtime::{KotoVm, KotoVmSettings, Ptr, prelude::*};
use serde_json::{Value, json};

fn span_of(v: &Value) -> Span {
    let g = |i: usize| v[i].as_u64().unwrap_or(0) as u32;
    Span {
        start: Position { line: g(0), column: g(1) },
        end: Position { line: g(2), column: g(3) },
    }
}

fn span_json(s: &Span) -> Value {
    json!([s.start.line, s.start.column, s.end.line, s.end.column])
}

fn smap_case(case: &Value) -> Value {
    let mut di = DebugInfo::default();
    for p in case["pushes"].as_array().unwrap() {
        let ip = p[0].as_u64().unwrap() as u32;
        let sp = Span {
            start: Position { line: p[1].as_u64().unwrap() as u32, column: p[2].as_u64().unwrap() as u32 },
            end: Position { line: p[3].as_u64().unwrap() as u32, column: p[4].as_u64().unwrap() as u32 },
        };
        di.push(ip, sp);
    }
    let r: Vec<Value> = case["queries"]
        .as_array()
        .unwrap()
        .iter()
        .map(|q| match di.get_source_span(q.as_u64().unwrap() as u32) {
            Some(s) => span_json(&s),
            None => Value::Null,
        })
        .collect();
    json!({"r": r})
}

fn cps(s: &str) -> Vec<u32> {
    s.chars().map(|c| c as u32).collect()
}

fn excerpt_case(case: &Value) -> Value {
    let src = case["src"].as_str().unwrap();
    let span = span_of(&case["span"]);
    let text = format_source_excerpt(src, &span, None);
    json!({"text": cps(&text)})
}

fn op_name(i: &Instruction) -> String {
    if let Instruction::Error { .. } = i {
        return "Error".into();
    }
    let s = format!("{i:?}");
    s.split(|c: char| c.is_whitespace() || c == '{').next().unwrap_or("").to_string()
}

fn decode(chunk: &Ptr<Chunk>) -> Vec<(usize, String)> {
    let mut reader = InstructionReader::new(chunk.clone());
    let mut v = vec![];
    let mut ip = reader.ip;
    while let Some(i) = reader.next() {
        v.push((ip, op_name(&i)));
        ip = reader.ip;
        if v.len() > 200_000 {
            break;
        }
    }
    v
}

/// every AST node of the parsed source: [kind, sl, sc, el, ec]; kind is the Node variant
/// (BinaryOp / UnaryOp carry their operator)
fn ast_nodes(src: &str) -> Vec<Value> {
    let Ok(ast) = Parser::parse(src) else { return vec![] };
    ast.nodes()
        .iter()
        .map(|n| {
            let kind = match &n.node {
                Node::BinaryOp { op, .. } => format!("BinaryOp:{op:?}"),
                Node::UnaryOp { op, .. } => format!("UnaryOp:{op:?}"),
                other => {
                    let s = format!("{other:?}");
                    s.split(|c: char| !c.is_alphanumeric()).next().unwrap_or("").to_string()
                }
            };
            let sp = ast.span(n.span);
            json!([kind, sp.start.line, sp.start.column, sp.end.line, sp.end.column])
        })
        .collect()
}

fn run_case(case: &Value) -> Value {
    let src = case["src"].as_str().unwrap();
    let capture = Capture::new();
    let stdout: Ptr<dyn KotoFile> = Ptr::from(Box::new(capture.clone()) as Box<dyn KotoFile>);
    let stderr: Ptr<dyn KotoFile> = Ptr::from(Box::new(capture.clone()) as Box<dyn KotoFile>);
    let mut vm = KotoVm::with_settings(KotoVmSettings {
        stdout,
        stderr,
        execution_limit: Some(std::time::Duration::from_millis(2000)),
        ..Default::default()
    });
    let compiled = vm.loader().borrow_mut().compile_script(src, None, CompilerSettings::default());
    let chunk = match compiled {
        Ok(c) => c,
        Err(e) => {
            let span = e.source.as_ref().map(|s| span_json(&s.span)).unwrap_or(Value::Null);
            let msg = e.to_string();
            return json!({"kind": "compile", "span": span, "msg": msg, "head": format!("{}", e.error)});
        }
    };
    let decoded = decode(&chunk);
    let instrs: Vec<Value> = decoded
        .iter()
        .map(|(ip, name)| match chunk.debug_info.get_source_span(*ip as u32) {
            Some(s) => json!([ip, name, s.start.line, s.start.column, s.end.line, s.end.column]),
            None => json!([ip, name]),
        })
        .collect();
    match vm.run(chunk.clone()) {
        Ok(_) => json!({"kind": "ok", "out": capture.take(), "instrs": instrs, "ast": ast_nodes(src)}),
        Err(e) => {
            let trace: Vec<Value> = e
                .trace
                .iter()
                .map(|f| {
                    let same = Ptr::ptr_eq(&f.chunk, &chunk);
                    let span = f.chunk.debug_info.get_source_span(f.instruction);
                    let op = decoded
                        .iter()
                        .find(|(ip, _)| *ip == f.instruction as usize)
                        .map(|(_, n)| n.clone());
                    json!({
                        "ip": f.instruction,
                        "span": span.as_ref().map(span_json),
                        "op": if same { json!(op) } else { Value::Null },
                        "same_chunk": same,
                    })
                })
                .collect();
            let head = {
                let mut h = format!("{}", e.error);
                for c in e.context.iter() {
                    h.push_str(&format!(" ({c})"));
                }
                h
            };
            json!({"kind": "runtime", "class": error_class(&e), "trace": trace, "msg": e.to_string(),
                   "head": head, "out": capture.take(), "instrs": instrs, "ast": ast_nodes(src)})
        }
    }
}

fn main() {
    quiet_panics();
    let cases = read_cases();
    let mut w = out();
    for case in &cases {
        let c = case.clone();
        let r = guarded(move || match c["m"].as_str().unwrap_or("") {
            "smap" => smap_case(&c),
            "excerpt" => excerpt_case(&c),
            "run" => run_case(&c),
            other => json!({"error": format!("unknown mode {other}")}),
        });
        match r {
            Ok(v) => emit_line(&mut w, &v),
            Err(msg) => emit_line(&mut w, &json!({"panic": msg, "at": last_panic_location()})),
        }
    }
}
