//! C01 compiler-correctness component: for each case {"src": "..."} compile the script with the real
//! parser + compiler and run it on a fresh VM.
//! Output per case:
//!   {"ast": <s-expression of the parsed main block, Core-0 nodes only>,
//!    "bytes": [u8...], "consts": [[0, "name"] | [1, "<i64 as decimal string>"] | [2]...],
//!    "result": <canonical value or error class>, "msg": <error text, diagnostics only>}
//!   or {"compile_error": "..."} / {"panic": "...", "at": "..."}
use kh::script::{ScriptVm, canon, error_class};
use kh::*;
use koto_bytecode::CompilerSettings;
use koto_parser::{Ast, AstBinaryOp, AstIndex, AstUnaryOp, Constant, Node, Parser};
use serde_json::json;

fn sexp(ast: &Ast, i: AstIndex, out: &mut String) {
    let name = |c: &koto_parser::ConstantIndex| ast.constants().get_str(*c).to_string();
    match &ast.node(i).node {
        Node::Null => out.push_str("null"),
        Node::BoolTrue => out.push_str("true"),
        Node::BoolFalse => out.push_str("false"),
        Node::SmallInt(n) => out.push_str(&format!("(int {n})")),
        Node::Int(c) => out.push_str(&format!("(int {})", ast.constants().get_i64(*c))),
        Node::Id(c, None) => out.push_str(&format!("(id {})", name(c))),
        Node::Nested(e) => {
            out.push_str("(nested ");
            sexp(ast, *e, out);
            out.push(')');
        }
        Node::UnaryOp { op, value } => {
            out.push_str(match op {
                AstUnaryOp::Negate => "(neg ",
                AstUnaryOp::Not => "(not ",
            });
            sexp(ast, *value, out);
            out.push(')');
        }
        Node::BinaryOp { op, lhs, rhs } => {
            use AstBinaryOp::*;
            let s = match op {
                Add => "+",
                Subtract => "-",
                Multiply => "*",
                AddAssign => "+=",
                SubtractAssign => "-=",
                MultiplyAssign => "*=",
                Equal => "==",
                NotEqual => "!=",
                Less => "<",
                LessOrEqual => "<=",
                Greater => ">",
                GreaterOrEqual => ">=",
                And => "and",
                Or => "or",
                _ => "?",
            };
            out.push_str(&format!("({s} "));
            sexp(ast, *lhs, out);
            out.push(' ');
            sexp(ast, *rhs, out);
            out.push(')');
        }
        Node::Assign { target, expression, let_assignment: false } => {
            out.push_str("(= ");
            sexp(ast, *target, out);
            out.push(' ');
            sexp(ast, *expression, out);
            out.push(')');
        }
        Node::Block(es) => {
            out.push_str("(block");
            for e in es.iter() {
                out.push(' ');
                sexp(ast, *e, out);
            }
            out.push(')');
        }
        Node::MainBlock { body, local_count } => {
            out.push_str(&format!("(main {local_count}"));
            for e in body.iter() {
                out.push(' ');
                sexp(ast, *e, out);
            }
            out.push(')');
        }
        Node::If(a) => {
            out.push_str("(if ");
            sexp(ast, a.condition, out);
            out.push(' ');
            sexp(ast, a.then_node, out);
            for (c, t) in a.else_if_blocks.iter() {
                out.push_str(" (elif ");
                sexp(ast, *c, out);
                out.push(' ');
                sexp(ast, *t, out);
                out.push(')');
            }
            if let Some(e) = a.else_node {
                out.push_str(" (else ");
                sexp(ast, e, out);
                out.push(')');
            }
            out.push(')');
        }
        Node::While { condition, body } => {
            out.push_str("(while ");
            sexp(ast, *condition, out);
            out.push(' ');
            sexp(ast, *body, out);
            out.push(')');
        }
        Node::Until { condition, body } => {
            out.push_str("(until ");
            sexp(ast, *condition, out);
            out.push(' ');
            sexp(ast, *body, out);
            out.push(')');
        }
        Node::Loop { body } => {
            out.push_str("(loop ");
            sexp(ast, *body, out);
            out.push(')');
        }
        Node::Break(None) => out.push_str("(break)"),
        Node::Break(Some(e)) => {
            out.push_str("(break ");
            sexp(ast, *e, out);
            out.push(')');
        }
        Node::Continue => out.push_str("(continue)"),
        other => out.push_str(&format!("(OTHER {:?})", std::mem::discriminant(other))),
    }
}

fn main() {
    quiet_panics();
    let cases = read_cases();
    let mut w = out();
    for case in &cases {
        let src = case["src"].as_str().unwrap_or("").to_string();
        let limit = case.get("limit_ms").and_then(|c| c.as_u64()).unwrap_or(5000);
        let r = guarded(move || {
            let ast_text = match Parser::parse(&src) {
                Ok(ast) => {
                    let mut s = String::new();
                    if let Some(e) = ast.entry_point() {
                        sexp(&ast, e, &mut s);
                    }
                    s
                }
                Err(e) => format!("(PARSE-ERROR {e})"),
            };
            let mut vm = ScriptVm::with_limit(Some(std::time::Duration::from_millis(limit)));
            let chunk = match vm.compile(&src, CompilerSettings::default()) {
                Ok(c) => c,
                Err(msg) => return json!({"ast": ast_text, "compile_error": msg}),
            };
            let bytes: Vec<u8> = chunk.bytes.clone();
            let consts: Vec<serde_json::Value> = chunk
                .constants
                .iter()
                .map(|c| match c {
                    Constant::Str(s) => json!([0, s]),
                    Constant::I64(n) => json!([1, n.to_string()]),
                    Constant::F64(_) => json!([2]),
                })
                .collect();
            let (result, msg) = match vm.vm.run(chunk) {
                Ok(v) => (canon(&v), String::new()),
                Err(e) => (error_class(&e), e.to_string()),
            };
            json!({"ast": ast_text, "bytes": bytes, "consts": consts, "result": result, "msg": msg})
        });
        match r {
            Ok(v) => emit_line(&mut w, &v),
            Err(msg) => emit_line(&mut w, &json!({"panic": msg, "at": last_panic_location()})),
        }
    }
}
