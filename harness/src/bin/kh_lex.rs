//! C09 correspondence: runs koto_lexer on each case (a list of code points) and prints the
//! token stream up to and including the first Error token.
use kh::*;
use koto_lexer::{Lexer as KotoLexer, StringQuote, StringType, Token};
use serde_json::json;
use std::collections::BTreeSet;
use unicode_segmentation::UnicodeSegmentation;
use unicode_width::UnicodeWidthChar;
use unicode_xid::UnicodeXID;

fn is_extend(c: char) -> bool {
    // c joins the grapheme cluster of a preceding ordinary character
    let s = format!("a{c}");
    s.graphemes(true).count() == 1
}

// The model's rule for the first grapheme cluster (LexRun.t_grapheme_len)
fn rule_grapheme_len(s: &str) -> usize {
    let mut it = s.chars();
    let Some(c) = it.next() else { return 0 };
    if c == '\r' {
        return if it.next() == Some('\n') { 2 } else { 1 };
    }
    if (c as u32) < 32 || c as u32 == 127 {
        return 1;
    }
    1 + it.take_while(|c| (*c as u32) >= 128 && is_extend(*c)).count()
}

fn oracle_ok(s: &str) -> bool {
    // the model's first-grapheme rule must agree with the crate at every char boundary,
    // and ASCII must have the widths / xid classes the model hard-codes
    for (i, c) in s.char_indices() {
        let rest = &s[i..];
        let g = rest.graphemes(true).next().map(|g| g.chars().count()).unwrap_or(0);
        if g != rule_grapheme_len(rest) {
            // only matters at grapheme starts, but keep it simple and strict
            let starts: Vec<usize> = s.grapheme_indices(true).map(|(i, _)| i).collect();
            if starts.contains(&i) {
                return false;
            }
        }
        if (c as u32) < 128 {
            let w = c.width().unwrap_or(0);
            let expect = if (32..127).contains(&(c as u32)) { 1 } else { 0 };
            if w != expect {
                return false;
            }
            if c.is_xid_start() != c.is_ascii_alphabetic() {
                return false;
            }
            if c.is_xid_continue() != (c.is_ascii_alphanumeric() || c == '_') {
                return false;
            }
        }
    }
    true
}

fn lex_case(s: &str) -> serde_json::Value {
    let limit = 2 * s.chars().count() + 3;
    let mut toks = vec![];
    let mut overrun = false;
    let mut lexer = KotoLexer::new(s);
    loop {
        let Some(t) = lexer.next() else { break };
        let name = match t.token {
            Token::StringStart(_) => "StringStart".to_string(),
            other => format!("{other:?}"),
        };
        let (st, hashes) = match t.token {
            Token::StringStart(StringType::Normal(StringQuote::Double)) => (1, 0),
            Token::StringStart(StringType::Normal(StringQuote::Single)) => (2, 0),
            Token::StringStart(StringType::Raw(d)) => (
                if d.quote == StringQuote::Double { 3 } else { 4 },
                d.hash_count as u64,
            ),
            _ => (0, 0),
        };
        toks.push(json!([
            name, st, hashes,
            t.source_bytes.start, t.source_bytes.end,
            t.span.start.line, t.span.start.column, t.span.end.line, t.span.end.column,
            t.indent
        ]));
        if t.token == Token::Error {
            break;
        }
        if toks.len() > limit {
            overrun = true;
            break;
        }
    }
    json!({"toks": toks, "overrun": overrun})
}

fn main() {
    quiet_panics();
    let cases = read_cases();
    let mut w = out();
    let mut non_ascii = BTreeSet::new();
    for case in &cases {
        let Some(s) = cps_to_string(case) else {
            emit_line(&mut w, &json!({"skip": "not-scalar-values"}));
            continue;
        };
        for c in s.chars() {
            if (c as u32) >= 128 {
                non_ascii.insert(c);
            }
        }
        if !oracle_ok(&s) {
            emit_line(&mut w, &json!({"skip": "oracle"}));
            continue;
        }
        let s2 = s.clone();
        match guarded(move || lex_case(&s2)) {
            Ok(v) => emit_line(&mut w, &v),
            Err(msg) => emit_line(&mut w, &json!({"panic": msg, "at": last_panic_location()})),
        }
    }
    let utab: Vec<_> = non_ascii
        .iter()
        .map(|c| {
            json!([*c as u32, c.width().unwrap_or(0), c.is_xid_start(), c.is_xid_continue(), is_extend(*c)])
        })
        .collect();
    emit_line(&mut w, &json!({"utab": utab}));
}
