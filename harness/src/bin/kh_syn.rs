//! kh_syn: the real koto parser / formatter / runtime on case files, for C10 (layout) and C11 (formatter).
//!
//! Cases (one JSON object per line), by "mode":
//!  prog  {"src", "run": bool?, "limit_ms"?}
//!        -> {"ok", "strict", "loose", "indent_err", "loader_indent_err", "err_kind", "err_line",
//!            "result"?, "out"?}            (strict/loose = canonical AST dumps, see `Dump`)
//!  fmt   {"src", "opts": {"line_length","indent_width","chain_break_threshold","always_indent_arms"}, "run": bool?}
//!        -> {"parse_ok", "fmt": "ok"|"err"|"panic", "text"?, "reparse_ok"?, "strict_eq"?, "loose_eq"?,
//!            "strict_src"?/"strict_out"? (only when different), "comments_src", "comments_out",
//!            "idem"?, "text2"? (only when different), "run_src"?, "run_out"?, "at"? "msg"?}
//!  spec  {"spec": "<format spec>"}  source `x = 1` + newline + `y = "{x:<spec>}"`
//!        -> {"glen", "parse": {"ok", "align","width","precision","fill","repr"} | {"err": kind},
//!            "fmt": "ok"|"err"|"panic", "rendered"?: spec text found in the formatted output}
//!  slice {"src"} -> {"toks": [[name, sl, sc, el, ec, b0, b1], ..], "fmt": .., "text"?}
use kh::script::ScriptVm;
use kh::*;
use koto_bytecode::CompilerSettings;
use koto_format::FormatOptions;
use koto_lexer::{Lexer, Token};
use koto_parser::{
    Ast, AstIndex, AstString, ChainNode, ConstantIndex, Node, Parser, StringContents, StringNode,
};
use serde_json::{Value, json};
use std::fmt::Write;
use unicode_segmentation::UnicodeSegmentation;

/// Canonical AST rendering.  `loose` additionally forgets the purely notational choices that C10's
/// layout freedoms may change: `Nested` (redundant parentheses), `If.inline`, one-expression
/// `Block`s (inline vs indented bodies), `Call.with_parens`, `Tuple.parentheses`, `Map.braces`,
/// string quote style, and the source text kept by `debug`.
struct Dump<'a> {
    ast: &'a Ast,
    loose: bool,
    out: String,
}

impl<'a> Dump<'a> {
    fn cstr(&mut self, c: ConstantIndex) {
        let s = self.ast.constants().get_str(c).to_string();
        write!(self.out, "{s:?}").unwrap();
    }

    fn opt_cstr(&mut self, c: Option<ConstantIndex>) {
        match c {
            Some(c) => self.cstr(c),
            None => self.out.push('_'),
        }
    }

    fn opt(&mut self, i: Option<AstIndex>) {
        match i {
            Some(i) => self.node(i),
            None => self.out.push('_'),
        }
    }

    fn list(&mut self, xs: &[AstIndex]) {
        self.out.push('[');
        for (i, x) in xs.iter().enumerate() {
            if i > 0 {
                self.out.push(' ');
            }
            self.node(*x);
        }
        self.out.push(']');
    }

    fn string(&mut self, s: &AstString) {
        self.out.push_str("(str");
        if !self.loose {
            write!(self.out, " {:?}", s.quote).unwrap();
        }
        match &s.contents {
            StringContents::Literal(c) => {
                self.out.push_str(" lit ");
                self.cstr(*c);
            }
            StringContents::Raw { constant, hash_count } => {
                if self.loose {
                    self.out.push_str(" raw ");
                } else {
                    write!(self.out, " raw{hash_count} ").unwrap();
                }
                self.cstr(*constant);
            }
            StringContents::Interpolated(nodes) => {
                self.out.push_str(" interp");
                for n in nodes {
                    self.out.push(' ');
                    match n {
                        StringNode::Literal(c) => self.cstr(*c),
                        StringNode::Expression { expression, format } => {
                            self.out.push('{');
                            self.node(*expression);
                            write!(
                                self.out,
                                " :{:?}/{:?}/{:?}/",
                                format.alignment, format.min_width, format.precision
                            )
                            .unwrap();
                            self.opt_cstr(format.fill_character);
                            write!(self.out, "/{:?}}}", format.representation).unwrap();
                        }
                    }
                }
            }
        }
        self.out.push(')');
    }

    fn node(&mut self, index: AstIndex) {
        let node = &self.ast.node(index).node;
        match node {
            Node::Null => self.out.push_str("null"),
            Node::Nested(n) => {
                if self.loose {
                    self.node(*n)
                } else {
                    self.out.push_str("(nested ");
                    self.node(*n);
                    self.out.push(')');
                }
            }
            Node::Id(c, hint) => {
                self.out.push_str("(id ");
                self.cstr(*c);
                if hint.is_some() {
                    self.out.push(' ');
                    self.opt(*hint);
                }
                self.out.push(')');
            }
            Node::Meta(k, name) => {
                write!(self.out, "(meta {} ", k.as_str()).unwrap();
                self.opt_cstr(*name);
                self.out.push(')');
            }
            Node::Chain((cn, next)) => {
                self.out.push_str("(chain ");
                match cn {
                    ChainNode::Root(r) => {
                        self.out.push_str("root ");
                        self.node(*r);
                    }
                    ChainNode::Id(c) => {
                        self.out.push('.');
                        self.cstr(*c);
                    }
                    ChainNode::Str(s) => {
                        self.out.push('.');
                        self.string(s);
                    }
                    ChainNode::Index(i) => {
                        self.out.push_str("index ");
                        self.node(*i);
                    }
                    ChainNode::Call { args, with_parens } => {
                        if self.loose {
                            self.out.push_str("call ");
                        } else {
                            write!(self.out, "call{} ", if *with_parens { "()" } else { "" }).unwrap();
                        }
                        self.list(args);
                    }
                    ChainNode::NullCheck => self.out.push('?'),
                }
                self.out.push_str(" -> ");
                self.opt(*next);
                self.out.push(')');
            }
            Node::BoolTrue => self.out.push_str("true"),
            Node::BoolFalse => self.out.push_str("false"),
            Node::SmallInt(i) => write!(self.out, "(int {i})").unwrap(),
            Node::Int(c) => write!(self.out, "(int {})", self.ast.constants().get_i64(*c)).unwrap(),
            Node::Float(c) => {
                write!(self.out, "(float {:016x})", self.ast.constants().get_f64(*c).to_bits()).unwrap()
            }
            Node::Str(s) => self.string(s),
            Node::List(xs) => {
                self.out.push_str("(list ");
                self.list(xs);
                self.out.push(')');
            }
            Node::Tuple { elements, parentheses } => {
                if self.loose {
                    self.out.push_str("(tuple ");
                } else {
                    write!(self.out, "(tuple{} ", if *parentheses { "()" } else { "" }).unwrap();
                }
                self.list(elements);
                self.out.push(')');
            }
            Node::TempTuple(xs) => {
                self.out.push_str("(temptuple ");
                self.list(xs);
                self.out.push(')');
            }
            Node::Range { start, end, inclusive } => {
                write!(self.out, "(range{} ", if *inclusive { "=" } else { "" }).unwrap();
                self.node(*start);
                self.out.push(' ');
                self.node(*end);
                self.out.push(')');
            }
            Node::RangeFrom { start } => {
                self.out.push_str("(rangefrom ");
                self.node(*start);
                self.out.push(')');
            }
            Node::RangeTo { end, inclusive } => {
                write!(self.out, "(rangeto{} ", if *inclusive { "=" } else { "" }).unwrap();
                self.node(*end);
                self.out.push(')');
            }
            Node::RangeFull => self.out.push_str("(rangefull)"),
            Node::Map { entries, braces } => {
                if self.loose {
                    self.out.push_str("(map ");
                } else {
                    write!(self.out, "(map{} ", if *braces { "{}" } else { "" }).unwrap();
                }
                self.list(entries);
                self.out.push(')');
            }
            Node::MapEntry(k, v) => {
                self.out.push_str("(entry ");
                self.node(*k);
                self.out.push(' ');
                self.node(*v);
                self.out.push(')');
            }
            Node::MapPattern { entries, type_hint } => {
                self.out.push_str("(mappattern ");
                self.list(entries);
                self.out.push(' ');
                self.opt(*type_hint);
                self.out.push(')');
            }
            Node::MapKeyRebind { key, id_or_ignored } => {
                self.out.push_str("(rebind ");
                self.node(*key);
                self.out.push(' ');
                self.node(*id_or_ignored);
                self.out.push(')');
            }
            Node::Self_ => self.out.push_str("self"),
            Node::MainBlock { body, local_count } => {
                write!(self.out, "(main locals={local_count} ").unwrap();
                self.list(body);
                self.out.push(')');
            }
            Node::Block(body) => {
                if self.loose && body.len() == 1 {
                    self.node(body[0]);
                } else {
                    self.out.push_str("(block ");
                    self.list(body);
                    self.out.push(')');
                }
            }
            Node::Function(f) => {
                write!(self.out, "(fn locals={} gen={} nonlocals=[", f.local_count, f.is_generator).unwrap();
                // the order of accessed_non_locals varies from run to run (HashSet iteration, reported
                // under another property); it is a set here
                let mut names: Vec<String> =
                    f.accessed_non_locals.iter().map(|c| self.ast.constants().get_str(*c).to_string()).collect();
                names.sort();
                write!(self.out, "{}", names.join(" ")).unwrap();
                self.out.push_str("] ");
                self.node(f.args);
                self.out.push(' ');
                self.node(f.body);
                self.out.push(')');
            }
            Node::FunctionArgs { args, variadic, output_type } => {
                write!(self.out, "(args variadic={variadic} ").unwrap();
                self.list(args);
                self.out.push(' ');
                self.opt(*output_type);
                self.out.push(')');
            }
            Node::Import { from, items } => {
                self.out.push_str("(import from=");
                self.list(from);
                self.out.push_str(" items=[");
                for (i, it) in items.iter().enumerate() {
                    if i > 0 {
                        self.out.push(' ');
                    }
                    self.out.push('(');
                    self.node(it.item);
                    self.out.push_str(" as ");
                    self.opt(it.name);
                    self.out.push(')');
                }
                self.out.push_str("])");
            }
            Node::Export(e) => {
                self.out.push_str("(export ");
                self.node(*e);
                self.out.push(')');
            }
            Node::Assign { target, expression, let_assignment } => {
                write!(self.out, "(assign let={let_assignment} ").unwrap();
                self.node(*target);
                self.out.push(' ');
                self.node(*expression);
                self.out.push(')');
            }
            Node::MultiAssign { targets, expression, let_assignment } => {
                write!(self.out, "(multiassign let={let_assignment} ").unwrap();
                self.list(targets);
                self.out.push(' ');
                self.node(*expression);
                self.out.push(')');
            }
            Node::UnaryOp { op, value } => {
                write!(self.out, "(unary {} ", op.as_str()).unwrap();
                self.node(*value);
                self.out.push(')');
            }
            Node::BinaryOp { op, lhs, rhs } => {
                write!(self.out, "(bin {} ", op.as_str()).unwrap();
                self.node(*lhs);
                self.out.push(' ');
                self.node(*rhs);
                self.out.push(')');
            }
            Node::If(i) => {
                if self.loose {
                    self.out.push_str("(if ");
                } else {
                    write!(self.out, "(if inline={} ", i.inline).unwrap();
                }
                self.node(i.condition);
                self.out.push(' ');
                self.node(i.then_node);
                for (c, b) in i.else_if_blocks.iter() {
                    self.out.push_str(" elif ");
                    self.node(*c);
                    self.out.push(' ');
                    self.node(*b);
                }
                self.out.push_str(" else ");
                self.opt(i.else_node);
                self.out.push(')');
            }
            Node::Match { expression, arms } => {
                self.out.push_str("(match ");
                self.node(*expression);
                self.out.push(' ');
                self.list(arms);
                self.out.push(')');
            }
            Node::MatchArm { patterns, condition, expression } => {
                self.out.push_str("(arm ");
                self.list(patterns);
                self.out.push(' ');
                self.opt(*condition);
                self.out.push(' ');
                self.node(*expression);
                self.out.push(')');
            }
            Node::Switch(arms) => {
                self.out.push_str("(switch ");
                self.list(arms);
                self.out.push(')');
            }
            Node::SwitchArm { condition, expression } => {
                self.out.push_str("(sarm ");
                self.opt(*condition);
                self.out.push(' ');
                self.node(*expression);
                self.out.push(')');
            }
            Node::Ignored(name, hint) => {
                self.out.push_str("(ignored ");
                self.opt_cstr(*name);
                self.out.push(' ');
                self.opt(*hint);
                self.out.push(')');
            }
            Node::PackedId(name) => {
                self.out.push_str("(packedid ");
                self.opt_cstr(*name);
                self.out.push(')');
            }
            Node::PackedExpression(e) => {
                self.out.push_str("(packed ");
                self.node(*e);
                self.out.push(')');
            }
            Node::For(f) => {
                self.out.push_str("(for ");
                self.list(&f.args);
                self.out.push(' ');
                self.node(f.iterable);
                self.out.push(' ');
                self.node(f.body);
                self.out.push(')');
            }
            Node::Loop { body } => {
                self.out.push_str("(loop ");
                self.node(*body);
                self.out.push(')');
            }
            Node::While { condition, body } => {
                self.out.push_str("(while ");
                self.node(*condition);
                self.out.push(' ');
                self.node(*body);
                self.out.push(')');
            }
            Node::Until { condition, body } => {
                self.out.push_str("(until ");
                self.node(*condition);
                self.out.push(' ');
                self.node(*body);
                self.out.push(')');
            }
            Node::Break(e) => {
                self.out.push_str("(break ");
                self.opt(*e);
                self.out.push(')');
            }
            Node::Continue => self.out.push_str("continue"),
            Node::Return(e) => {
                self.out.push_str("(return ");
                self.opt(*e);
                self.out.push(')');
            }
            Node::Try(t) => {
                self.out.push_str("(try ");
                self.node(t.try_block);
                for c in t.catch_blocks.iter() {
                    self.out.push_str(" catch ");
                    self.node(c.arg);
                    self.out.push(' ');
                    self.node(c.block);
                }
                self.out.push_str(" finally ");
                self.opt(t.finally_block);
                self.out.push(')');
            }
            Node::Throw(e) => {
                self.out.push_str("(throw ");
                self.node(*e);
                self.out.push(')');
            }
            Node::Yield(e) => {
                self.out.push_str("(yield ");
                self.node(*e);
                self.out.push(')');
            }
            Node::Debug { expression_string, expression } => {
                self.out.push_str("(debug ");
                if !self.loose {
                    self.cstr(*expression_string);
                    self.out.push(' ');
                }
                self.node(*expression);
                self.out.push(')');
            }
            Node::Type { type_index, allow_null } => {
                write!(self.out, "(type null={allow_null} ").unwrap();
                self.cstr(*type_index);
                self.out.push(')');
            }
        }
    }
}

fn dump(ast: &Ast, loose: bool) -> String {
    match ast.entry_point() {
        Some(e) => {
            let mut d = Dump { ast, loose, out: String::new() };
            d.node(e);
            d.out
        }
        None => "(empty)".into(),
    }
}

fn err_kind(e: &koto_parser::Error) -> String {
    use koto_parser::ErrorKind::*;
    match &e.error {
        InternalError(_) => "Internal".into(),
        ExpectedIndentation(k) => format!("ExpectedIndentation::{k:?}"),
        SyntaxError(k) => {
            let s = format!("{k:?}");
            format!("Syntax::{}", s.split(['(', ' ', '{']).next().unwrap_or(""))
        }
        #[allow(unreachable_patterns)]
        _ => "Other".into(),
    }
}

fn comments(src: &str) -> Vec<String> {
    let mut v = Vec::new();
    for t in Lexer::new(src) {
        match t.token {
            Token::CommentSingle | Token::CommentMulti => {
                // trailing white space inside a comment is not content
                v.push(t.slice(src).trim_end().to_string())
            }
            Token::Error => {
                v.push("<lexer error>".into());
                break;
            }
            _ => {}
        }
    }
    v
}

fn run_script(src: &str, limit_ms: u64) -> Value {
    let src = src.to_string();
    match guarded(move || {
        let mut vm = ScriptVm::with_limit(Some(std::time::Duration::from_millis(limit_ms)));
        let o = vm.run(&src);
        json!({"result": o.result, "out": o.out})
    }) {
        Ok(v) => v,
        Err(msg) => json!({"result": format!("PANIC({msg})"), "out": "", "at": last_panic_location()}),
    }
}

fn loader_indent_err(src: &str) -> Option<bool> {
    let vm = ScriptVm::new();
    match vm.vm.loader().borrow_mut().compile_script(src, None, CompilerSettings::default()) {
        Ok(_) => None,
        Err(e) => Some(e.is_indentation_error()),
    }
}

fn mode_prog(case: &Value) -> Value {
    let src = case["src"].as_str().unwrap_or("").to_string();
    let run = case.get("run").and_then(|r| r.as_bool()).unwrap_or(false);
    let limit = case.get("limit_ms").and_then(|r| r.as_u64()).unwrap_or(2000);
    let s2 = src.clone();
    let parsed = guarded(move || match Parser::parse(&s2) {
        Ok(ast) => json!({"ok": true, "strict": dump(&ast, false), "loose": dump(&ast, true)}),
        Err(e) => json!({"ok": false, "indent_err": e.is_indentation_error(), "err_kind": err_kind(&e),
                         "err_line": e.span.start.line, "msg": e.to_string()}),
    });
    let mut v = match parsed {
        Ok(v) => v,
        Err(msg) => return json!({"panic": msg, "at": last_panic_location()}),
    };
    if !v["ok"].as_bool().unwrap() {
        let s3 = src.clone();
        if let Ok(l) = guarded(move || loader_indent_err(&s3)) {
            v["loader_indent_err"] = json!(l);
        }
    } else if run {
        let r = run_script(&src, limit);
        v["result"] = r["result"].clone();
        v["out"] = r["out"].clone();
    }
    v
}

fn fmt_opts(case: &Value) -> FormatOptions {
    let d = FormatOptions::default();
    let o = &case["opts"];
    FormatOptions {
        always_indent_arms: o.get("always_indent_arms").and_then(|x| x.as_bool()).unwrap_or(d.always_indent_arms),
        indent_width: o.get("indent_width").and_then(|x| x.as_u64()).map(|x| x as u8).unwrap_or(d.indent_width),
        line_length: o.get("line_length").and_then(|x| x.as_u64()).map(|x| x as u8).unwrap_or(d.line_length),
        chain_break_threshold: o
            .get("chain_break_threshold")
            .and_then(|x| x.as_u64())
            .map(|x| x as u8)
            .unwrap_or(d.chain_break_threshold),
    }
}

enum Fmt {
    Ok(String),
    Err(String),
    Panic(String, String),
}

fn do_format(src: &str, opts: FormatOptions) -> Fmt {
    let s = src.to_string();
    match guarded(move || koto_format::format(&s, opts)) {
        Ok(Ok(t)) => Fmt::Ok(t),
        Ok(Err(e)) => Fmt::Err(e.to_string()),
        Err(msg) => Fmt::Panic(msg, last_panic_location()),
    }
}

/// Class predicates of the known formatter defects, evaluated on the source (see checks/c11.py).
/// would should_chain_be_broken() force some chain of the program onto several lines?
fn forced_chain_break(ast: &Ast, threshold: u8) -> bool {
    for n in ast.nodes() {
        if let Node::Chain((ChainNode::Root(_), first_next)) = &n.node {
            // (a threshold of 0 disables counting since koto 0f09f59; only the "call without parentheses
            // in mid-chain" rule can still force a break then)
            let mut count = 0u32;
            let mut last_access = false;
            let mut next = *first_next;
            while let Some(i) = next {
                if let Node::Chain((cn, nn)) = &ast.node(i).node {
                    match cn {
                        ChainNode::Call { with_parens, .. } => {
                            if !with_parens && nn.is_some() {
                                return true;
                            }
                            if last_access {
                                count += 1;
                            }
                            last_access = false;
                        }
                        ChainNode::Id(_) | ChainNode::Str(_) => last_access = true,
                        ChainNode::Index(_) => {
                            if last_access {
                                count += 1;
                            }
                            last_access = false;
                        }
                        _ => last_access = false,
                    }
                    if threshold > 0 && count >= threshold as u32 {
                        return true;
                    }
                    next = *nn;
                } else {
                    break;
                }
            }
        }
    }
    false
}

/// (a) a comment in the middle of an expression: inside an open bracket / parenthesis / brace, or right
/// after `=` / a binary operator / a comma;  (b) a bracketed literal that spans several lines and is
/// continued by `.` (the root of a chain)
fn comment_mid_expression(src: &str) -> (bool, bool) {
    let mut depth = 0i32;
    let mut mid = false;
    let mut multi_line_root = false;
    let mut last_sig: Option<Token> = None;
    let mut open_lines: Vec<u32> = Vec::new();
    let mut last_close_multiline = false;
    for t in Lexer::new(src) {
        match t.token {
            Token::Whitespace | Token::NewLine => continue,
            Token::CommentSingle | Token::CommentMulti => {
                if depth > 0 {
                    mid = true;
                }
                if let Some(p) = last_sig {
                    use Token::*;
                    if matches!(
                        p,
                        Assign | Add | Subtract | Multiply | Divide | Remainder | Power | And | Or | Equal | NotEqual
                            | Less | LessOrEqual | Greater | GreaterOrEqual | Comma | Arrow | AddAssign | SubtractAssign
                            | MultiplyAssign | DivideAssign | RemainderAssign | PowerAssign | Colon
                    ) {
                        mid = true;
                    }
                }
                continue;
            }
            Token::Error => break,
            Token::RoundOpen | Token::SquareOpen | Token::CurlyOpen => {
                depth += 1;
                open_lines.push(t.span.start.line);
                last_close_multiline = false;
            }
            Token::RoundClose | Token::SquareClose | Token::CurlyClose => {
                depth -= 1;
                let open = open_lines.pop().unwrap_or(t.span.start.line);
                last_close_multiline = open < t.span.start.line;
            }
            Token::Dot => {
                if last_close_multiline {
                    multi_line_root = true;
                }
                last_close_multiline = false;
            }
            _ => last_close_multiline = false,
        }
        last_sig = Some(t.token);
    }
    (mid, multi_line_root)
}

fn classes(src: &str, ast: &Ast) -> Value {
    let mut wildcard = false;
    let mut repr = false;
    let check_str = |s: &AstString, repr: &mut bool| {
        if let StringContents::Interpolated(nodes) = &s.contents {
            for n in nodes {
                if let StringNode::Expression { format, .. } = n {
                    if format.representation.is_some() {
                        *repr = true;
                    }
                }
            }
        }
    };
    for n in ast.nodes() {
        match &n.node {
            Node::Import { items, .. } if items.is_empty() => wildcard = true,
            Node::Str(s) => check_str(s, &mut repr),
            Node::Chain((ChainNode::Str(s), _)) => check_str(s, &mut repr),
            _ => {}
        }
    }
    // C11c: the formatter re-reads number literals, comments and #[fmt:skip] regions through
    // FormatContext::source_slice (line offset + COLUMN as a byte index): wrong as soon as a character whose
    // display width differs from its UTF-8 length (non-ASCII, or an ASCII control character such as a tab
    // inside a comment or string) comes before such a token.  Formatting may join lines, so the class is
    // taken file-wide: such a character exists, and so does a token that is re-read by span.
    let odd_width = src.chars().any(|c| {
        c != '\n' && c != '\r' && unicode_width::UnicodeWidthChar::width(c).unwrap_or(0) != c.len_utf8()
    });
    let mut has_sliced = src.contains("#[fmt:");
    for t in Lexer::new(src) {
        match t.token {
            Token::Number | Token::CommentSingle | Token::CommentMulti => has_sliced = true,
            Token::Error => break,
            _ => {}
        }
    }
    let sliced_after_non_ascii = odd_width && has_sliced;
    let (mid, mlroot) = comment_mid_expression(src);
    // C11i: the source starts with two or more line breaks (white space aside)
    let lead: String = src.chars().take_while(|c| c.is_whitespace()).collect();
    let leading_blank_lines = lead.matches('\n').count() >= 2;
    // C11j: a comma directly followed (on its line) by a token that cannot start an expression
    let mut comma_before_operator = false;
    {
        let mut after_comma = false;
        for t in Lexer::new(src) {
            use Token::*;
            match t.token {
                Whitespace | CommentMulti => continue,
                Error => break,
                Comma => {
                    after_comma = true;
                    continue;
                }
                Assign | Add | Multiply | Divide | Remainder | Power | Equal | NotEqual | Less | LessOrEqual | Greater
                | GreaterOrEqual | And | Or | Arrow | AddAssign | SubtractAssign | MultiplyAssign | DivideAssign
                | RemainderAssign | PowerAssign | Dot | Colon
                    if after_comma =>
                {
                    comma_before_operator = true
                }
                _ => {}
            }
            after_comma = false;
        }
    }
    let _ = (wildcard, repr);   // C11a / C11b are fixed (koto e32ec60, 06483c8): no class, a recurrence is a violation
    json!({"sliced_after_non_ascii": sliced_after_non_ascii,
           "comment_mid_expression": mid, "multi_line_chain_root": mlroot,
           "leading_blank_lines": leading_blank_lines, "comma_before_operator": comma_before_operator})
}

fn mode_fmt(case: &Value) -> Value {
    let src = case["src"].as_str().unwrap_or("").to_string();
    let run = case.get("run").and_then(|r| r.as_bool()).unwrap_or(false);
    let limit = case.get("limit_ms").and_then(|r| r.as_u64()).unwrap_or(1000);
    let opts = fmt_opts(case);
    let s2 = src.clone();
    let parsed = guarded(move || {
        Parser::parse(&s2).ok().map(|a| {
            let mut c = classes(&s2, &a);
            c["forced_chain_break"] = json!(forced_chain_break(&a, opts.chain_break_threshold));
            (dump(&a, false), dump(&a, true), c)
        })
    });
    let (strict_src, loose_src, cls) = match parsed {
        Ok(Some(x)) => x,
        Ok(None) => return json!({"parse_ok": false}),
        Err(msg) => return json!({"parse_ok": false, "parse_panic": msg}),
    };
    let mut v = json!({"parse_ok": true, "classes": cls});
    // C11d: does the formatter have to wrap?  (some line of the output at the widest setting is longer than
    // the requested line_length)
    {
        let wide = FormatOptions { line_length: 255, ..opts };
        if let Fmt::Ok(t) = do_format(&src, wide) {
            let longest = t.lines().map(|l| unicode_width::UnicodeWidthStr::width(l)).max().unwrap_or(0);
            v["classes"]["wrap_forced"] = json!(longest > opts.line_length as usize);
        }
    }
    match do_format(&src, opts) {
        Fmt::Err(e) => {
            v["fmt"] = json!("err");
            v["msg"] = json!(e);
        }
        Fmt::Panic(msg, at) => {
            v["fmt"] = json!("panic");
            v["msg"] = json!(msg);
            v["at"] = json!(at);
        }
        Fmt::Ok(text) => {
            v["fmt"] = json!("ok");
            v["text"] = json!(text);
            let t2 = text.clone();
            match guarded(move || Parser::parse(&t2).map(|a| (dump(&a, false), dump(&a, true))).map_err(|e| e.to_string())) {
                Ok(Ok((strict_out, loose_out))) => {
                    v["reparse_ok"] = json!(true);
                    v["strict_eq"] = json!(strict_out == strict_src);
                    v["loose_eq"] = json!(loose_out == loose_src);
                    if loose_out != loose_src {
                        v["loose_src"] = json!(loose_src);
                        v["loose_out"] = json!(loose_out);
                    } else if strict_out != strict_src {
                        v["strict_src"] = json!(strict_src);
                        v["strict_out"] = json!(strict_out);
                    }
                }
                Ok(Err(e)) => {
                    v["reparse_ok"] = json!(false);
                    v["msg"] = json!(e);
                }
                Err(msg) => {
                    v["reparse_ok"] = json!(false);
                    v["msg"] = json!(format!("parser panicked: {msg}"));
                }
            }
            v["comments_src"] = json!(comments(&src));
            v["comments_out"] = json!(comments(&text));
            match do_format(&text, opts) {
                Fmt::Ok(text2) => {
                    v["idem"] = json!(text2 == text);
                    if text2 != text {
                        v["text2"] = json!(text2);
                    }
                }
                Fmt::Err(e) => {
                    v["idem"] = json!(false);
                    v["text2"] = json!(format!("<error: {e}>"));
                }
                Fmt::Panic(msg, at) => {
                    v["idem"] = json!(false);
                    v["text2"] = json!(format!("<panic: {msg} at {at}>"));
                }
            }
            if run && v["reparse_ok"] == json!(true) {
                v["run_src"] = run_script(&src, limit);
                v["run_out"] = run_script(&text, limit);
            }
        }
    }
    v
}

fn find_format(ast: &Ast) -> Option<koto_parser::StringFormatOptions> {
    for n in ast.nodes() {
        if let Node::Str(AstString { contents: StringContents::Interpolated(nodes), .. }) = &n.node {
            for sn in nodes {
                if let StringNode::Expression { format, .. } = sn {
                    return Some(*format);
                }
            }
        }
    }
    None
}

fn mode_spec(case: &Value) -> Value {
    let spec = case["spec"].as_str().unwrap_or("").to_string();
    let src = format!("x = 1\ny = \"{{x:{spec}}}\"\n");
    let glen = spec.graphemes(true).next().map(|g| g.chars().count()).unwrap_or(0);
    let mut v = json!({"glen": glen, "src": src});
    let s2 = src.clone();
    let parsed = guarded(move || match Parser::parse(&s2) {
        Ok(ast) => match find_format(&ast) {
            Some(f) => json!({
                "ok": true,
                "align": f.alignment as u8,
                "width": f.min_width,
                "precision": f.precision,
                "fill": f.fill_character.map(|c| ast.constants().get_str(c).chars().map(|c| c as u32).collect::<Vec<_>>()),
                "repr": f.representation.map(|r| r as u8),
            }),
            None => json!({"ok": false, "err": "no interpolated expression in the AST"}),
        },
        Err(e) => json!({"ok": false, "err": err_kind(&e), "msg": e.to_string()}),
    });
    v["parse"] = match parsed {
        Ok(p) => p,
        Err(msg) => json!({"ok": false, "err": "panic", "msg": msg}),
    };
    match do_format(&src, FormatOptions::default()) {
        Fmt::Ok(text) => {
            v["fmt"] = json!("ok");
            v["text"] = json!(text);
            // the second line is  y = "{x:<rendered>}"  or  y = "{x}"
            if let Some(line) = text.lines().nth(1) {
                if let Some(rest) = line.strip_prefix("y = \"{x") {
                    if let Some(body) = rest.strip_suffix("}\"") {
                        v["rendered"] = json!(body.strip_prefix(':').unwrap_or(if body.is_empty() { "" } else { "\u{0}" }));
                    }
                }
            }
        }
        Fmt::Err(e) => {
            v["fmt"] = json!("err");
            v["msg"] = json!(e);
        }
        Fmt::Panic(msg, at) => {
            v["fmt"] = json!("panic");
            v["msg"] = json!(msg);
            v["at"] = json!(at);
        }
    }
    v
}

fn mode_slice(case: &Value) -> Value {
    let src = case["src"].as_str().unwrap_or("").to_string();
    let mut toks = Vec::new();
    for t in Lexer::new(&src) {
        toks.push(json!([
            format!("{:?}", t.token).split('(').next().unwrap_or("").to_string(),
            t.span.start.line, t.span.start.column, t.span.end.line, t.span.end.column,
            t.source_bytes.start, t.source_bytes.end, t.indent
        ]));
        if t.token == Token::Error {
            break;
        }
    }
    let mut v = json!({"toks": toks});
    match do_format(&src, FormatOptions::default()) {
        Fmt::Ok(text) => {
            v["fmt"] = json!("ok");
            v["text"] = json!(text);
        }
        Fmt::Err(e) => {
            v["fmt"] = json!("err");
            v["msg"] = json!(e);
        }
        Fmt::Panic(msg, at) => {
            v["fmt"] = json!("panic");
            v["msg"] = json!(msg);
            v["at"] = json!(at);
        }
    }
    v
}

fn main() {
    quiet_panics();
    let cases = read_cases();
    let mut w = out();
    for case in &cases {
        let mode = case.get("mode").and_then(|m| m.as_str()).unwrap_or("prog").to_string();
        let c = case.clone();
        let r = guarded(move || match mode.as_str() {
            "prog" => mode_prog(&c),
            "fmt" => mode_fmt(&c),
            "spec" => mode_spec(&c),
            "slice" => mode_slice(&c),
            _ => json!({"error": "unknown mode"}),
        });
        match r {
            Ok(v) => emit_line(&mut w, &v),
            Err(msg) => emit_line(&mut w, &json!({"panic": msg, "at": last_panic_location()})),
        }
    }
}
