//! Runtime-level harness for C08 (execution limit) and C07 (no residue after failed runs).
//!
//! Case kinds (one JSON object per line of the case file):
//!
//! {"kind":"t","src":S,"limit_ms":N|null,"follow":S2}
//!     runs S on a VM with execution limit N ms (null: none), measuring wall-clock time, then runs S2 on the SAME vm
//!     -> {"r":class,"out":stdout,"wall_us":n,"sz":[5 sizes],"follow":{"r","out","sz"}}
//!
//!     optional "config": how the runtime is built (default: KotoVmSettings { execution_limit, .. } directly):
//!       {"via":"vm"} | {"via":"vm-spawned"} (the script runs on vm.spawn_shared_vm())
//!       {"via":"koto","order":[B,..]}  Koto::with_settings(KotoSettings::default().B1().B2()..) with the builder methods
//!           applied in that order; B in limit|stdout|stderr|stdin|args|callback|inherit_args|inherit_io|run_tests_off.
//!           The script runs through Koto::compile_and_run (errors arrive as text there: a timeout is recognised by
//!           the Display prefix of ErrorKind::Timeout).  When the chain leaves NO limit configured although one was
//!           requested, a script marked "nonterminating" is not started: "r":"ENoLimitConfigured".
//!
//! {"kind":"cfg","order":[B,..],"limit_ms":N}
//!     only builds the settings -> {"limit_ms": configured execution limit in ms or null, "run_import_tests": bool}
//!
//! {"kind":"h","limit_ms":N?,"ops":[OP,...]}
//!     performs a history of host operations on ONE vm; after every operation reports the result class,
//!     captured output, the five stack sizes (hook `verif_stack_sizes`) and the canonical exports map
//!     -> {"steps":[{"r","out","sz","ex"} | {"panic","at"}]}   (a panic ends the history)
//!   OP = {"op":"run","src":S,"path":P?,"checks":bool?}     Koto::compile_and_run (run, tests, @main)
//!      | {"op":"call","name":F,"args":[v..],"tuple":bool?} call_function on the exported value F
//!      | {"op":"display","name":V}                         value_to_string of the exported value V
//!      | {"op":"unop","which":W,"name":V}                  run_unary_op
//!      | {"op":"binop","which":W,"lhs":A,"rhs":B}          run_binary_op (A,B: {"x":name} or literal)
//!      | {"op":"framesize","name":F}                       register count of F's NewFrame instruction
//!      | {"op":"repeat","n":N,"body":OP}                   N times the same OP (one step per repetition)
//!
//! Every line is flushed as soon as the case is finished, so that a case that never returns can be
//! identified by the caller (which applies a hard cap).
use kh::script::{Capture, canon, error_class};
use kh::*;
use koto_bytecode::CompilerSettings;
use koto_runtime::{BinaryOp, KotoVm, KotoVmSettings, MetaKey, Ptr, UnaryOp, prelude::*};
use serde_json::{Value, json};
use std::io::Write;
use std::panic::AssertUnwindSafe;
use std::time::{Duration, Instant};

struct Rt {
    vm: KotoVm,
    capture: Capture,
}

impl Rt {
    fn new(limit: Option<Duration>) -> Self {
        let capture = Capture::new();
        let stdout: Ptr<dyn KotoFile> = Ptr::from(Box::new(capture.clone()) as Box<dyn KotoFile>);
        let stderr: Ptr<dyn KotoFile> = Ptr::from(Box::new(capture.clone()) as Box<dyn KotoFile>);
        let vm = KotoVm::with_settings(KotoVmSettings {
            stdout,
            stderr,
            execution_limit: limit,
            ..Default::default()
        });
        Self { vm, capture }
    }

    fn sizes(&self) -> Value {
        let (a, b, c, d, e) = self.vm.verif_stack_sizes();
        json!([a, b, c, d, e])
    }

    /// mirrors koto::Koto::compile_and_run: compile, run, exported tests, @main
    fn compile_and_run(&mut self, src: &str, path: Option<&str>, checks: bool) -> Result<KValue, String> {
        let settings = CompilerSettings { enable_type_checks: checks, ..Default::default() };
        let chunk = self
            .vm
            .loader()
            .borrow_mut()
            .compile_script(src, path.map(KString::from), settings)
            .map_err(|_| "ECompile".to_string())?;
        let result = self.vm.run(chunk).map_err(|e| error_class(&e))?;
        self.vm
            .run_tests(self.vm.exports().clone())
            .map_err(|e| format!("ETest:{}", error_class(&e)))?;
        if let Some(main) = self.vm.exports().get_meta_value(&MetaKey::Main) {
            self.vm.call_function(main, &[]).map_err(|e| error_class(&e))
        } else {
            Ok(result)
        }
    }

    fn lookup(&self, name: &str) -> Option<KValue> {
        self.vm.exports().get(name)
    }

    fn operand(&self, v: &Value) -> Result<KValue, String> {
        if let Some(name) = v.get("x").and_then(|n| n.as_str()) {
            self.lookup(name).ok_or_else(|| "EMissing".to_string())
        } else {
            Ok(lit(v))
        }
    }
}

fn lit(v: &Value) -> KValue {
    match v {
        Value::Null => KValue::Null,
        Value::Bool(b) => KValue::Bool(*b),
        Value::Number(n) => {
            if let Some(i) = n.as_i64() {
                KValue::Number(i.into())
            } else {
                KValue::Number(n.as_f64().unwrap_or(0.0).into())
            }
        }
        Value::String(s) => KValue::Str(s.as_str().into()),
        Value::Array(a) => KValue::Tuple(a.iter().map(lit).collect::<Vec<_>>().into()),
        Value::Object(_) => KValue::Null,
    }
}

fn unop(which: &str) -> Option<UnaryOp> {
    Some(match which {
        "debug" => UnaryOp::Debug,
        "display" => UnaryOp::Display,
        "iterator" => UnaryOp::Iterator,
        "next" => UnaryOp::Next,
        "next_back" => UnaryOp::NextBack,
        "negate" => UnaryOp::Negate,
        "size" => UnaryOp::Size,
        _ => return None,
    })
}

fn binop(which: &str) -> Option<BinaryOp> {
    Some(match which {
        "add" => BinaryOp::Add,
        "subtract" => BinaryOp::Subtract,
        "multiply" => BinaryOp::Multiply,
        "divide" => BinaryOp::Divide,
        "remainder" => BinaryOp::Remainder,
        "power" => BinaryOp::Power,
        "add_assign" => BinaryOp::AddAssign,
        "less" => BinaryOp::Less,
        "equal" => BinaryOp::Equal,
        "not_equal" => BinaryOp::NotEqual,
        _ => return None,
    })
}

fn res(r: Result<KValue, String>) -> String {
    match r {
        Ok(v) => canon(&v),
        Err(c) => c,
    }
}

fn do_op(rt: &mut Rt, op: &Value) -> String {
    match op["op"].as_str().unwrap_or("") {
        "run" => {
            let src = op["src"].as_str().unwrap_or("");
            let checks = op.get("checks").and_then(|c| c.as_bool()).unwrap_or(true);
            res(rt.compile_and_run(src, op.get("path").and_then(|p| p.as_str()), checks))
        }
        "call" => {
            let Some(f) = rt.lookup(op["name"].as_str().unwrap_or("")) else {
                return "EMissing".into();
            };
            let args: Vec<KValue> =
                op["args"].as_array().map(|a| a.iter().map(lit).collect()).unwrap_or_default();
            let as_tuple = op.get("tuple").and_then(|c| c.as_bool()).unwrap_or(false);
            let r = if as_tuple {
                rt.vm.call_function(f, CallArgs::AsTuple(&args))
            } else {
                rt.vm.call_function(f, CallArgs::Separate(&args))
            };
            res(r.map_err(|e| error_class(&e)))
        }
        // the register count declared by the NewFrame instruction of an exported Koto function
        // (parameter `required` of the model's frames)
        "framesize" => match rt.lookup(op["name"].as_str().unwrap_or("")) {
            Some(KValue::Function(f)) => {
                let mut reader = koto_bytecode::InstructionReader::new(f.chunk.clone());
                reader.ip = f.ip as usize;
                match reader.next() {
                    Some(koto_bytecode::Instruction::NewFrame { register_count }) => format!("i{register_count}"),
                    _ => "ENoNewFrame".into(),
                }
            }
            _ => "EMissing".into(),
        },
        "display" => {
            let Some(v) = rt.lookup(op["name"].as_str().unwrap_or("")) else {
                return "EMissing".into();
            };
            match rt.vm.value_to_string(&v) {
                Ok(s) => canon(&KValue::Str(s.as_str().into())),
                Err(e) => error_class(&e),
            }
        }
        "unop" => {
            let Some(v) = rt.lookup(op["name"].as_str().unwrap_or("")) else {
                return "EMissing".into();
            };
            let Some(w) = unop(op["which"].as_str().unwrap_or("")) else {
                return "EBadCase".into();
            };
            res(rt.vm.run_unary_op(w, v).map_err(|e| error_class(&e)))
        }
        "binop" => {
            let (a, b) = match (rt.operand(&op["lhs"]), rt.operand(&op["rhs"])) {
                (Ok(a), Ok(b)) => (a, b),
                _ => return "EMissing".into(),
            };
            let Some(w) = binop(op["which"].as_str().unwrap_or("")) else {
                return "EBadCase".into();
            };
            res(rt.vm.run_binary_op(w, a, b).map_err(|e| error_class(&e)))
        }
        _ => "EBadCase".into(),
    }
}

/// returns false when the history has to stop (panic)
fn step(rt: &mut Rt, op: &Value, steps: &mut Vec<Value>) -> bool {
    let r = guarded(AssertUnwindSafe(|| do_op(rt, op)));
    match r {
        Ok(r) => {
            let ex = canon(&KValue::Map(rt.vm.exports().clone()));
            steps.push(json!({"r": r, "out": rt.capture.take(), "sz": rt.sizes(), "ex": ex}));
            true
        }
        Err(msg) => {
            steps.push(json!({"panic": msg, "at": last_panic_location()}));
            false
        }
    }
}

fn history(case: &Value) -> Value {
    let limit = case.get("limit_ms").and_then(|c| c.as_u64()).map(Duration::from_millis);
    let mut rt = Rt::new(limit);
    let mut steps = Vec::new();
    let empty = vec![];
    'ops: for op in case["ops"].as_array().unwrap_or(&empty) {
        if op["op"].as_str() == Some("repeat") {
            for _ in 0..op["n"].as_u64().unwrap_or(0) {
                if !step(&mut rt, &op["body"], &mut steps) {
                    break 'ops;
                }
            }
        } else if !step(&mut rt, op, &mut steps) {
            break;
        }
    }
    json!({"steps": steps})
}

fn timeout_case(case: &Value) -> Value {
    let via = case["config"]["via"].as_str().unwrap_or("vm");
    if via == "koto" {
        return timeout_case_koto(case);
    }
    // "limit_ms": null => no execution limit
    let limit = case.get("limit_ms").and_then(|c| c.as_u64()).map(Duration::from_millis);
    let mut rt = Rt::new(limit);
    if via == "vm-spawned" {
        rt.vm = rt.vm.spawn_shared_vm();
    }
    let src = case["src"].as_str().unwrap_or("").to_string();
    let t0 = Instant::now();
    let r = guarded(AssertUnwindSafe(|| res(rt.compile_and_run(&src, None, true))));
    let wall = t0.elapsed();
    let r = match r {
        Ok(r) => r,
        Err(msg) => return json!({"panic": msg, "at": last_panic_location(), "wall_us": wall.as_micros() as u64}),
    };
    let out = rt.capture.take();
    let sz = rt.sizes();
    let follow = match case.get("follow").and_then(|f| f.as_str()) {
        Some(f) => {
            let f = f.to_string();
            match guarded(AssertUnwindSafe(|| res(rt.compile_and_run(&f, None, true)))) {
                Ok(fr) => json!({"r": fr, "out": rt.capture.take(), "sz": rt.sizes()}),
                Err(msg) => json!({"panic": msg, "at": last_panic_location()}),
            }
        }
        None => Value::Null,
    };
    json!({"r": r, "out": out, "wall_us": wall.as_micros() as u64, "sz": sz, "follow": follow})
}

fn build_settings(order: &[Value], limit: Option<Duration>, capture: &Capture) -> koto::KotoSettings {
    let mut s = koto::KotoSettings::default();
    for b in order {
        s = match b.as_str().unwrap_or("") {
            "limit" => match limit {
                Some(l) => s.with_execution_limit(l),
                None => s,
            },
            "stdout" => s.with_stdout(capture.clone()),
            "stderr" => s.with_stderr(capture.clone()),
            "stdin" => s.with_stdin(capture.clone()),
            "args" => s.with_args(["a", "b"]),
            "callback" => s.with_module_imported_callback(|_p: &std::path::Path| {}),
            "inherit_args" => s.inherit_args(),
            "inherit_io" => s.inherit_io(),
            "run_tests_off" => {
                let mut s = s;
                s.run_tests = false;
                s
            }
            _ => s,
        };
    }
    s
}

fn cfg_case(case: &Value) -> Value {
    let limit = case.get("limit_ms").and_then(|c| c.as_u64()).map(Duration::from_millis);
    let empty = vec![];
    let s = build_settings(case["order"].as_array().unwrap_or(&empty), limit, &Capture::new());
    json!({"limit_ms": s.vm_settings.execution_limit.map(|d| d.as_millis() as u64),
           "run_import_tests": s.vm_settings.run_import_tests, "run_tests": s.run_tests})
}

fn koto_result(r: koto::Result<KValue>) -> String {
    match r {
        Ok(v) => canon(&v),
        Err(koto::Error::CompileError { .. }) => "ECompile".into(),
        Err(e) => {
            let m = e.to_string();
            if m.starts_with("execution timed out") { "ETimeout".into() } else { "EString".into() }
        }
    }
}

/// the `t` kind with the runtime built through the public Koto / KotoSettings API
fn timeout_case_koto(case: &Value) -> Value {
    let limit = case.get("limit_ms").and_then(|c| c.as_u64()).map(Duration::from_millis);
    let capture = Capture::new();
    let empty = vec![];
    let settings = build_settings(case["config"]["order"].as_array().unwrap_or(&empty), limit, &capture);
    let configured = settings.vm_settings.execution_limit;
    let nonterminating = case.get("nonterminating").and_then(|c| c.as_bool()).unwrap_or(false);
    if nonterminating && limit.is_some() && configured.is_none() {
        return json!({"r": "ENoLimitConfigured", "out": "", "wall_us": 0, "sz": [0, 0, 0, 0, 0], "follow": Value::Null,
                      "configured_ms": Value::Null});
    }
    let mut koto = koto::Koto::with_settings(settings);
    let src = case["src"].as_str().unwrap_or("").to_string();
    let t0 = Instant::now();
    let r = guarded(AssertUnwindSafe(|| koto_result(koto.compile_and_run(src.as_str()))));
    let wall = t0.elapsed();
    let r = match r {
        Ok(r) => r,
        Err(msg) => return json!({"panic": msg, "at": last_panic_location(), "wall_us": wall.as_micros() as u64}),
    };
    let out = capture.take();
    let (a, b, c, d, e) = koto.verif_stack_sizes();
    let follow = match case.get("follow").and_then(|f| f.as_str()) {
        Some(f) => match guarded(AssertUnwindSafe(|| koto_result(koto.compile_and_run(f)))) {
            Ok(fr) => json!({"r": fr, "out": capture.take()}),
            Err(msg) => json!({"panic": msg, "at": last_panic_location()}),
        },
        None => Value::Null,
    };
    json!({"r": r, "out": out, "wall_us": wall.as_micros() as u64, "sz": [a, b, c, d, e], "follow": follow,
           "configured_ms": configured.map(|d| d.as_millis() as u64)})
}

fn main() {
    quiet_panics();
    let cases = read_cases();
    let stdout = std::io::stdout();
    for case in &cases {
        let v = match case["kind"].as_str() {
            Some("t") => timeout_case(case),
            Some("h") => history(case),
            Some("cfg") => cfg_case(case),
            _ => json!({"bad_case": true}),
        };
        let mut w = stdout.lock();
        emit_line(&mut w, &v);
        w.flush().unwrap();
    }
}
