//! C16 harness: each case is {"src": "...", "bc": bool?, "limit_ms": n?}.
//! The script is compiled and run twice on fresh VMs: with `enable_type_checks` on and off.
//! Output: {"on": {"result","out"}, "off": {"result","out"},
//!          "bc": {"on": [[ip, len, text, sign, offset], ...], "off": [...], "consts_eq": bool}}
//! `text` is the Debug rendering of the decoded instruction with its jump offset (if any) set to 0,
//! `sign` is 0 (no offset), 1 (forward from the end of the instruction) or -1 (JumpBack).
//!
//! The prelude gets `mk_obj flags`: a host object of type "TObj" with
//! is_callable = flags&1, size().is_some() = flags&2, is_iterable = flags&4.
use kh::script::ScriptVm;
use kh::*;
use koto_bytecode::{Chunk, Compiler, CompilerSettings, Instruction, InstructionReader};
use koto_runtime::{derive::*, prelude::*, Ptr, Result as KResult};
use serde_json::{json, Value};

#[derive(Clone, Debug, KotoCopy, KotoType)]
#[koto(runtime = koto_runtime)]
struct TObj {
    flags: u8,
}

#[koto_impl(runtime = koto_runtime)]
impl TObj {}

impl KotoObject for TObj {
    fn is_callable(&self) -> bool {
        self.flags & 1 != 0
    }
    fn call(&mut self, _ctx: &mut CallContext) -> KResult<KValue> {
        Ok(KValue::Null)
    }
    fn size(&self) -> Option<usize> {
        if self.flags & 2 != 0 { Some(0) } else { None }
    }
    fn is_iterable(&self) -> IsIterable {
        if self.flags & 4 != 0 { IsIterable::Iterable } else { IsIterable::NotIterable }
    }
    fn make_iterator(&self, _vm: &mut KotoVm) -> KResult<KIterator> {
        Ok(KIterator::with_tuple(KTuple::default()))
    }
}

fn new_vm(limit: Option<u64>) -> ScriptVm {
    let vm = ScriptVm::with_limit(limit.map(std::time::Duration::from_millis));
    vm.vm.prelude().add_fn("mk_obj", |ctx| match ctx.args() {
        [KValue::Number(n)] => Ok(KObject::from(TObj { flags: i64::from(n) as u8 }).into()),
        unexpected => unexpected_args("|Number|", unexpected),
    });
    vm
}

/// (sign, offset) of the instruction's relative jump, which is reset to 0 in place
fn scrub(i: &mut Instruction) -> (i64, u64) {
    use Instruction::*;
    macro_rules! take {
        ($f:expr, $s:expr) => {{
            let o = *$f as u64;
            *$f = 0;
            ($s, o)
        }};
    }
    match i {
        Function { size, .. } => take!(size, 1),
        Jump { offset } => take!(offset, 1),
        JumpBack { offset } => take!(offset, -1),
        JumpIfTrue { offset, .. } => take!(offset, 1),
        JumpIfFalse { offset, .. } => take!(offset, 1),
        JumpIfNull { offset, .. } => take!(offset, 1),
        IterNext { jump_offset, .. } => take!(jump_offset, 1),
        TryAccess { jump_offset, .. } => take!(jump_offset, 1),
        TryAccessString { jump_offset, .. } => take!(jump_offset, 1),
        TryStart { catch_offset, .. } => take!(catch_offset, 1),
        CheckType { jump_offset, .. } => take!(jump_offset, 1),
        _ => (0, 0),
    }
}

fn listing(chunk: Ptr<Chunk>) -> Value {
    let mut reader = InstructionReader::new(chunk.clone());
    let mut rows = Vec::new();
    loop {
        let ip = reader.ip;
        let Some(mut instr) = reader.next() else { break };
        if let Instruction::Error { message } = &instr {
            rows.push(json!([ip, 0, format!("Error {message}"), 0, 0]));
            break;
        }
        let (sign, off) = scrub(&mut instr);
        rows.push(json!([ip, reader.ip - ip, format!("{instr:?}"), sign, off]));
    }
    Value::Array(rows)
}

fn main() {
    quiet_panics();
    let cases = read_cases();
    let mut w = out();
    for case in &cases {
        let src = case["src"].as_str().unwrap_or("").to_string();
        let want_bc = case.get("bc").and_then(|c| c.as_bool()).unwrap_or(false);
        let limit = case.get("limit_ms").and_then(|c| c.as_u64());
        let mut res = serde_json::Map::new();
        for (name, checks) in [("on", true), ("off", false)] {
            let s = src.clone();
            let r = guarded(move || {
                let mut vm = new_vm(limit);
                let settings = CompilerSettings { enable_type_checks: checks, ..Default::default() };
                let o = vm.run_with(&s, settings);
                json!({"result": o.result, "out": o.out, "msg": o.message})
            });
            res.insert(
                name.into(),
                match r {
                    Ok(v) => v,
                    Err(msg) => json!({"panic": msg, "at": last_panic_location()}),
                },
            );
        }
        if want_bc {
            let s = src.clone();
            let r = guarded(move || {
                let compile = |checks: bool| -> Result<Ptr<Chunk>, String> {
                    Compiler::compile(&s, None, CompilerSettings { enable_type_checks: checks, ..Default::default() })
                        .map(Ptr::<Chunk>::from)
                        .map_err(|e| e.to_string())
                };
                match (compile(true), compile(false)) {
                    (Ok(on), Ok(off)) => json!({
                        "consts_eq": on.constants == off.constants,
                        "on": listing(on), "off": listing(off)}),
                    (a, b) => json!({"compile_error": [a.err(), b.err()]}),
                }
            });
            res.insert(
                "bc".into(),
                match r {
                    Ok(v) => v,
                    Err(msg) => json!({"panic": msg, "at": last_panic_location()}),
                },
            );
        }
        emit_line(&mut w, &Value::Object(res));
    }
}
