//! C19 atomicity tie (search only): N threads, each with its OWN KotoVm, share ONE KList / KMap
//! (injected into every VM's prelude as `shared`; values are Send + Sync under the `arc` strategy).
//! Each thread runs its list of small scripts (one container operation each, or a whole hammer
//! loop) after a common barrier.  Every operation is stamped with a global invocation / response
//! counter so that the checker can respect real-time order when it searches for a linearization.
//!
//! case: {"kind":"list"|"map", "init":[i64..] | [[k,v]..], "threads":[[src..]..],
//!        "timeout_ms":n?, "repeat":n?}
//! out : {"runs":[{"threads":[[{"r":canon|class,"inv":n,"resp":n} | {"panic":msg,"at":loc,..}]..],
//!                 "final":canon, "deadlock":bool, "progress":[n..]}..]}
//!
//! Built with `--no-default-features --features arc` only; under `rc` it is a stub (values are
//! not Send there, which is the point of the feature).

#[cfg(not(feature = "arc"))]
fn main() {
    eprintln!("kh_arc needs the `arc` feature");
    std::process::exit(2);
}

#[cfg(feature = "arc")]
fn main() {
    imp::main()
}

#[cfg(feature = "arc")]
mod imp {
    use kh::script::{ScriptVm, canon, error_class};
    use kh::*;
    use koto_bytecode::CompilerSettings;
    use koto_runtime::prelude::*;
    use serde_json::{Value, json};
    use std::sync::atomic::{AtomicU64, AtomicUsize, Ordering};
    use std::sync::{Arc, Barrier, mpsc};
    use std::time::Duration;

    fn make_shared(kind: &str, init: &Value) -> KValue {
        match kind {
            "map" => {
                let m = KMap::new();
                for e in init.as_array().map(|a| a.as_slice()).unwrap_or(&[]) {
                    let k = e[0].as_i64().unwrap_or(0);
                    let v = e[1].as_i64().unwrap_or(0);
                    m.insert(ValueKey::try_from(KValue::from(k)).unwrap(), KValue::from(v));
                }
                KValue::Map(m)
            }
            _ => {
                let data: ValueVec = init
                    .as_array()
                    .map(|a| a.as_slice())
                    .unwrap_or(&[])
                    .iter()
                    .map(|v| KValue::from(v.as_i64().unwrap_or(0)))
                    .collect();
                KValue::List(KList::with_data(data))
            }
        }
    }

    struct Job {
        shared: KValue,
        srcs: Vec<String>,
        barrier: Arc<Barrier>,
        clock: Arc<AtomicU64>,
        progress: Arc<AtomicUsize>,
        tx: mpsc::Sender<(usize, Vec<Value>)>,
        index: usize,
    }

    /// worker threads with a persistent KotoVm each (creating a VM costs far more than the
    /// operations under test); a pool whose workers are stuck in a deadlock is abandoned
    pub struct Pool {
        workers: Vec<mpsc::Sender<Job>>,
    }

    fn worker(rx: mpsc::Receiver<Job>) {
        let mut vm = ScriptVm::new();
        while let Ok(job) = rx.recv() {
            vm.vm.prelude().insert("shared", job.shared.clone());
            let chunks: Vec<_> =
                job.srcs.iter().map(|s| vm.compile(s, CompilerSettings::default())).collect();
            let mut results = Vec::with_capacity(chunks.len());
            job.barrier.wait();
            for chunk in chunks {
                let inv = job.clock.fetch_add(1, Ordering::SeqCst);
                let vmref = std::panic::AssertUnwindSafe(&mut vm);
                let r = guarded(move || {
                    let vm = vmref;
                    match chunk {
                        Err(m) => ("ECompile".to_string(), m),
                        Ok(c) => match vm.0.vm.run(c) {
                            Ok(v) => (canon(&v), String::new()),
                            Err(e) => (error_class(&e), e.to_string()),
                        },
                    }
                });
                let resp = job.clock.fetch_add(1, Ordering::SeqCst);
                let panicked = r.is_err();
                results.push(match r {
                    Ok((r, msg)) => json!({"r": r, "inv": inv, "resp": resp, "msg": msg}),
                    Err(msg) => json!({"panic": msg, "at": last_panic_location(), "inv": inv, "resp": resp}),
                });
                job.progress.fetch_add(1, Ordering::SeqCst);
                if panicked {
                    // the VM was unwound in the middle of an instruction: start from a clean one
                    let _ = vm.capture.take();
                    vm = ScriptVm::new();
                    vm.vm.prelude().insert("shared", job.shared.clone());
                }
            }
            let _ = vm.capture.take();
            let _ = job.tx.send((job.index, results));
        }
    }

    impl Pool {
        pub fn new() -> Self {
            Pool { workers: Vec::new() }
        }
        fn ensure(&mut self, n: usize) {
            while self.workers.len() < n {
                let (tx, rx) = mpsc::channel::<Job>();
                std::thread::Builder::new().stack_size(8 << 20).spawn(move || worker(rx)).expect("spawn");
                self.workers.push(tx);
            }
        }
    }

    fn run_once(pool: &mut Pool, kind: &str, init: &Value, threads: &[Vec<String>], timeout: Duration) -> Value {
        let shared = make_shared(kind, init);
        let n = threads.len();
        pool.ensure(n);
        let clock = Arc::new(AtomicU64::new(0));
        let barrier = Arc::new(Barrier::new(n));
        let progress: Vec<Arc<AtomicUsize>> = (0..n).map(|_| Arc::new(AtomicUsize::new(0))).collect();
        let (tx, rx) = mpsc::channel::<(usize, Vec<Value>)>();
        for (t, srcs) in threads.iter().enumerate() {
            pool.workers[t]
                .send(Job {
                    shared: shared.clone(),
                    srcs: srcs.clone(),
                    barrier: barrier.clone(),
                    clock: clock.clone(),
                    progress: progress[t].clone(),
                    tx: tx.clone(),
                    index: t,
                })
                .expect("worker gone");
        }
        drop(tx);
        let deadline = std::time::Instant::now() + timeout;
        let mut per_thread: Vec<Option<Vec<Value>>> = vec![None; n];
        let mut got = 0;
        while got < n {
            let left = deadline.saturating_duration_since(std::time::Instant::now());
            match rx.recv_timeout(left) {
                Ok((t, r)) => {
                    per_thread[t] = Some(r);
                    got += 1;
                }
                Err(_) => break,
            }
        }
        let deadlock = got < n;
        if deadlock {
            // the stuck workers stay behind; later runs get fresh ones
            pool.workers.clear();
        }
        let prog: Vec<usize> = progress.iter().map(|p| p.load(Ordering::SeqCst)).collect();
        // reading the container of a deadlocked run would block as well
        let fin = if deadlock { "LOCKED".to_string() } else { canon(&shared) };
        json!({
            "threads": per_thread.into_iter().map(|r| r.map(Value::Array).unwrap_or(Value::Null)).collect::<Vec<_>>(),
            "final": fin, "deadlock": deadlock, "progress": prog,
        })
    }

    pub fn main() {
        quiet_panics();
        let cases = read_cases();
        let mut w = out();
        let mut pool = Pool::new();
        // a runtime that deadlocks on (say) every pop would cost one watchdog timeout per case:
        // after a few deadlocked cases the rest of the file is skipped (reported as such)
        let mut deadlocked_cases = 0;
        let mut max_deadlocked = 3;
        for case in &cases {
            if let Some(n) = case.get("abort_after_deadlocks").and_then(|v| v.as_u64()) {
                max_deadlocked = n;
            }
            if deadlocked_cases >= max_deadlocked {
                emit_line(&mut w, &json!({"runs": [], "skipped": true}));
                continue;
            }
            let kind = case["kind"].as_str().unwrap_or("list").to_string();
            let threads: Vec<Vec<String>> = case["threads"]
                .as_array()
                .map(|ts| {
                    ts.iter()
                        .map(|t| {
                            t.as_array()
                                .map(|ops| ops.iter().map(|s| s.as_str().unwrap_or("").to_string()).collect())
                                .unwrap_or_default()
                        })
                        .collect()
                })
                .unwrap_or_default();
            let timeout = Duration::from_millis(case.get("timeout_ms").and_then(|v| v.as_u64()).unwrap_or(10_000));
            let repeat = case.get("repeat").and_then(|v| v.as_u64()).unwrap_or(1);
            let mut runs = Vec::new();
            for _ in 0..repeat {
                let r = run_once(&mut pool, &kind, &case["init"], &threads, timeout);
                let dead = r["deadlock"].as_bool().unwrap_or(false);
                runs.push(r);
                if dead {
                    deadlocked_cases += 1;
                    break; // the stuck threads stay behind; do not pile more on top
                }
            }
            emit_line(&mut w, &json!({"runs": runs}));
            use std::io::Write;
            w.flush().unwrap();
        }
    }
}
