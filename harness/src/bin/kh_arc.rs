//! C19 atomicity tie (search only): N threads, each with its OWN KotoVm, share ONE KList / KMap
//! (injected into every VM's prelude as `shared`; values are Send + Sync under the `arc` strategy).
//! Each thread runs its list of small scripts (one container operation each, or a whole hammer
//! loop) after a common barrier.  Every operation is stamped with a global invocation / response
//! counter so that the checker can respect real-time order when it searches for a linearization.
//!
//! case: {"kind":"list"|"map", "init":[i64..] | [[k,v]..], "threads":[[src..]..],
//!        "timeout_ms":n?, "repeat":n?}
//! out : {"runs":[{"threads":[[{"r":canon|class,"inv":n,"resp":n} | {"panic":msg,"at":loc,..}]..],
//!                 "final":canon, "deadlock":bool, "progress":[n..]}..]}
//!
//! Built with `--no-default-features --features arc` only; under `rc` it is a stub (values are
//! not Send there, which is the point of the feature).

#[cfg(not(feature = "arc"))]
fn main() {
    eprintln!("kh_arc needs the `arc` feature");
    std::process::exit(2);
}

#[cfg(feature = "arc")]
fn main() {
    imp::main()
}

#[cfg(feature = "arc")]
mod imp {
    use kh::script::{ScriptVm, canon, error_class};
    use kh::*;
    use koto_bytecode::CompilerSettings;
    use koto_runtime::prelude::*;
    use serde_json::{Value, json};
    use std::sync::atomic::{AtomicU64, AtomicUsize, Ordering};
    use std::sync::{Arc, Barrier, mpsc};
    use std::time::Duration;

    fn make_shared(kind: &str, init: &Value) -> KValue {
        match kind {
            "map" => {
                let m = KMap::new();
                for e in init.as_array().map(|a| a.as_slice()).unwrap_or(&[]) {
                    let k = e[0].as_i64().unwrap_or(0);
                    let v = e[1].as_i64().unwrap_or(0);
                    m.insert(ValueKey::try_from(KValue::from(k)).unwrap(), KValue::from(v));
                }
                KValue::Map(m)
            }
            _ => {
                let data: ValueVec = init
                    .as_array()
                    .map(|a| a.as_slice())
                    .unwrap_or(&[])
                    .iter()
                    .map(|v| KValue::from(v.as_i64().unwrap_or(0)))
                    .collect();
                KValue::List(KList::with_data(data))
            }
        }
    }

    fn run_once(kind: &str, init: &Value, threads: &[Vec<String>], timeout: Duration) -> Value {
        let shared = make_shared(kind, init);
        let n = threads.len();
        let clock = Arc::new(AtomicU64::new(0));
        let barrier = Arc::new(Barrier::new(n));
        let progress: Vec<Arc<AtomicUsize>> = (0..n).map(|_| Arc::new(AtomicUsize::new(0))).collect();
        let (tx, rx) = mpsc::channel::<(usize, Vec<Value>)>();
        for (t, srcs) in threads.iter().enumerate() {
            let srcs = srcs.clone();
            let shared = shared.clone();
            let clock = clock.clone();
            let barrier = barrier.clone();
            let prog = progress[t].clone();
            let tx = tx.clone();
            std::thread::Builder::new()
                .stack_size(8 << 20)
                .spawn(move || {
                    let mut vm = ScriptVm::new();
                    vm.vm.prelude().insert("shared", shared.clone());
                    let chunks: Vec<_> =
                        srcs.iter().map(|s| vm.compile(s, CompilerSettings::default())).collect();
                    let mut results = Vec::with_capacity(chunks.len());
                    barrier.wait();
                    for chunk in chunks {
                        let inv = clock.fetch_add(1, Ordering::SeqCst);
                        let vmref = std::panic::AssertUnwindSafe(&mut vm);
                        let r = guarded(move || {
                            let vm = vmref;
                            match chunk {
                                Err(m) => ("ECompile".to_string(), m),
                                Ok(c) => match vm.0.vm.run(c) {
                                    Ok(v) => (canon(&v), String::new()),
                                    Err(e) => (error_class(&e), e.to_string()),
                                },
                            }
                        });
                        let resp = clock.fetch_add(1, Ordering::SeqCst);
                        results.push(match r {
                            Ok((r, msg)) => json!({"r": r, "inv": inv, "resp": resp, "msg": msg}),
                            Err(msg) => json!({"panic": msg, "at": last_panic_location(), "inv": inv, "resp": resp}),
                        });
                        prog.fetch_add(1, Ordering::SeqCst);
                    }
                    let _ = tx.send((t, results));
                })
                .expect("spawn");
        }
        drop(tx);
        let deadline = std::time::Instant::now() + timeout;
        let mut per_thread: Vec<Option<Vec<Value>>> = vec![None; n];
        let mut got = 0;
        while got < n {
            let left = deadline.saturating_duration_since(std::time::Instant::now());
            match rx.recv_timeout(left) {
                Ok((t, r)) => {
                    per_thread[t] = Some(r);
                    got += 1;
                }
                Err(_) => break,
            }
        }
        let deadlock = got < n;
        let prog: Vec<usize> = progress.iter().map(|p| p.load(Ordering::SeqCst)).collect();
        // reading the container of a deadlocked run would block as well
        let fin = if deadlock { "LOCKED".to_string() } else { canon(&shared) };
        json!({
            "threads": per_thread.into_iter().map(|r| r.map(Value::Array).unwrap_or(Value::Null)).collect::<Vec<_>>(),
            "final": fin, "deadlock": deadlock, "progress": prog,
        })
    }

    pub fn main() {
        quiet_panics();
        let cases = read_cases();
        let mut w = out();
        for case in &cases {
            let kind = case["kind"].as_str().unwrap_or("list").to_string();
            let threads: Vec<Vec<String>> = case["threads"]
                .as_array()
                .map(|ts| {
                    ts.iter()
                        .map(|t| {
                            t.as_array()
                                .map(|ops| ops.iter().map(|s| s.as_str().unwrap_or("").to_string()).collect())
                                .unwrap_or_default()
                        })
                        .collect()
                })
                .unwrap_or_default();
            let timeout = Duration::from_millis(case.get("timeout_ms").and_then(|v| v.as_u64()).unwrap_or(10_000));
            let repeat = case.get("repeat").and_then(|v| v.as_u64()).unwrap_or(1);
            let mut runs = Vec::new();
            for _ in 0..repeat {
                let r = run_once(&kind, &case["init"], &threads, timeout);
                let dead = r["deadlock"].as_bool().unwrap_or(false);
                runs.push(r);
                if dead {
                    break; // the stuck threads stay behind; do not pile more on top
                }
            }
            emit_line(&mut w, &json!({"runs": runs}));
            use std::io::Write;
            w.flush().unwrap();
        }
    }
}
