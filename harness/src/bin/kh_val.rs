//! C14 harness (value model).  Two kinds of cases, one JSON object per line:
//!
//! {"pool": [desc..], "fill": [desc..]}
//!     builds the values with the runtime's own constructors and evaluates, for every ordered pair,
//!     `== != < <= > >=` through `KotoVm::run_binary_op` (the code behind the VM instructions),
//!     `ValueKey` eq / partial_cmp / hash (FxHasher, exactly as `ValueMap` does), lookups of key j in a
//!     one-entry map {k_i} and in a map {k_i, fill..} (real `ValueMap`), and `sort_values` on every
//!     pair/triple-free list given in "sorts".
//!     value descriptions: null | true/false | {"i": "<dec>"} | {"f": "<16 hex digits of the bits>"} |
//!     {"s": [bytes]} | {"r": [lo|null, hi|null, inclusive]} | {"L": [..]} | {"T": [..]} | {"M": [[k, v], ..]}
//!
//! {"src": "<koto script>"}
//!     runs the script with a native `obs(values...)` in the prelude that records the canonical
//!     rendering of its arguments at the time of the call.
use kh::script::{ScriptVm, canon, error_class};
use kh::*;
use koto_runtime::{BinaryOp, KotoHasher, PtrMut, prelude::*};
use serde_json::{Value, json};
use std::hash::{Hash, Hasher};

fn build(d: &Value) -> Result<KValue, String> {
    match d {
        Value::Null => Ok(KValue::Null),
        Value::Bool(b) => Ok(KValue::Bool(*b)),
        Value::Object(o) => {
            if let Some(i) = o.get("i") {
                let z: i64 = i.as_str().ok_or("i")?.parse().map_err(|_| "i64")?;
                Ok(KValue::Number(KNumber::I64(z)))
            } else if let Some(f) = o.get("f") {
                let bits = u64::from_str_radix(f.as_str().ok_or("f")?, 16).map_err(|_| "f64 bits")?;
                Ok(KValue::Number(KNumber::F64(f64::from_bits(bits))))
            } else if let Some(s) = o.get("s") {
                let bytes: Vec<u8> = s.as_array().ok_or("s")?.iter().map(|b| b.as_u64().unwrap_or(63) as u8).collect();
                let s = String::from_utf8(bytes).map_err(|_| "utf8")?;
                Ok(KValue::Str(s.into()))
            } else if let Some(r) = o.get("r") {
                let a = r.as_array().ok_or("r")?;
                let lo = a[0].as_i64();
                let hi = a[1].as_i64().map(|h| (h, a[2].as_bool().unwrap_or(false)));
                Ok(KValue::Range(KRange::new(lo, hi)))
            } else if let Some(l) = o.get("L") {
                let items: Result<ValueVec, String> = l.as_array().ok_or("L")?.iter().map(build).collect();
                Ok(KValue::List(KList::with_data(items?)))
            } else if let Some(t) = o.get("T") {
                let items: Result<Vec<KValue>, String> = t.as_array().ok_or("T")?.iter().map(build).collect();
                Ok(KValue::Tuple(items?.into()))
            } else if let Some(m) = o.get("M") {
                let mut data = ValueMap::default();
                for e in m.as_array().ok_or("M")? {
                    let k = build(&e[0])?;
                    let v = build(&e[1])?;
                    let key = ValueKey::try_from(k).map_err(|_| "unhashable key in description")?;
                    data.insert(key, v);
                }
                Ok(KValue::Map(KMap::with_data(data)))
            } else {
                Err("unknown description".into())
            }
        }
        _ => Err("unknown description".into()),
    }
}

/// 1 = true, 0 = false, 2 = error (class in the second component)
fn binop(vm: &mut KotoVm, op: BinaryOp, a: &KValue, b: &KValue) -> Value {
    // a failing run_binary_op leaves its three registers behind: use a fresh register stack per op
    let mut vm = vm.spawn_shared_vm();
    match vm.run_binary_op(op, a.clone(), b.clone()) {
        Ok(KValue::Bool(true)) => json!(1),
        Ok(KValue::Bool(false)) => json!(0),
        Ok(other) => json!([3, canon(&other)]),
        Err(e) => json!([2, error_class(&e)]),
    }
}

fn hash_of(k: &ValueKey) -> u64 {
    let mut h = KotoHasher::default();
    k.hash(&mut h);
    h.finish()
}

fn ord_code(o: Option<std::cmp::Ordering>) -> i64 {
    match o {
        Some(std::cmp::Ordering::Less) => 0,
        Some(std::cmp::Ordering::Equal) => 1,
        Some(std::cmp::Ordering::Greater) => 2,
        None => 3,
    }
}

fn pool_case(case: &Value) -> Value {
    let descs = case["pool"].as_array().cloned().unwrap_or_default();
    let fill_descs = case["fill"].as_array().cloned().unwrap_or_default();
    let vals: Vec<KValue> = match descs.iter().map(build).collect::<Result<_, _>>() {
        Ok(v) => v,
        Err(e) => return json!({"bad": e}),
    };
    let fill: Vec<KValue> = match fill_descs.iter().map(build).collect::<Result<_, _>>() {
        Ok(v) => v,
        Err(e) => return json!({"bad": e}),
    };
    let n = vals.len();
    let mut svm = ScriptVm::new();
    let ops = [
        ("eq", BinaryOp::Equal),
        ("ne", BinaryOp::NotEqual),
        ("lt", BinaryOp::Less),
        ("le", BinaryOp::LessOrEqual),
        ("gt", BinaryOp::Greater),
        ("ge", BinaryOp::GreaterOrEqual),
    ];
    let mut out = serde_json::Map::new();
    for (name, op) in ops {
        let mut rows = Vec::new();
        for i in 0..n {
            let mut row = Vec::new();
            for j in 0..n {
                row.push(binop(&mut svm.vm, op, &vals[i], &vals[j]));
            }
            rows.push(Value::Array(row));
        }
        out.insert(name.to_string(), Value::Array(rows));
    }
    // keys
    let keys: Vec<Option<ValueKey>> = vals.iter().map(|v| ValueKey::try_from(v.clone()).ok()).collect();
    out.insert("hashable".into(), json!(keys.iter().map(|k| k.is_some()).collect::<Vec<_>>()));
    out.insert(
        "hash".into(),
        json!(keys.iter().map(|k| k.as_ref().map(|k| format!("{:016x}", hash_of(k)))).collect::<Vec<_>>()),
    );
    let fill_keys: Vec<ValueKey> = fill.iter().filter_map(|v| ValueKey::try_from(v.clone()).ok()).collect();
    let mut keq = Vec::new();
    let mut kcmp = Vec::new();
    let mut get1 = Vec::new();
    let mut getn = Vec::new();
    let mut ins1 = Vec::new();
    let mut insn = Vec::new();
    let mut rem1 = Vec::new();
    let mut remn = Vec::new();
    for i in 0..n {
        let (mut r_eq, mut r_cmp, mut r_g1, mut r_gn, mut r_i1, mut r_in, mut r_r1, mut r_rn) =
            (vec![], vec![], vec![], vec![], vec![], vec![], vec![], vec![]);
        for j in 0..n {
            match (&keys[i], &keys[j]) {
                (Some(ki), Some(kj)) => {
                    r_eq.push(json!(ki == kj));
                    r_cmp.push(json!(ord_code(ki.partial_cmp(kj))));
                    // one-entry map {ki: 7}
                    let mut m1 = ValueMap::default();
                    m1.insert(ki.clone(), KValue::Number(7.into()));
                    r_g1.push(json!(m1.get_index_of(kj).map(|x| x as i64).unwrap_or(-1)));
                    // map {ki: 7, fill..: 8}  (fill keys equal to ki simply update it)
                    let mut mn = ValueMap::default();
                    mn.insert(ki.clone(), KValue::Number(7.into()));
                    for f in &fill_keys {
                        mn.insert(f.clone(), KValue::Number(8.into()));
                    }
                    r_gn.push(json!(mn.get_index_of(kj).map(|x| x as i64).unwrap_or(-1)));
                    // insert kj: index it lands on, resulting length
                    let mut a = m1.clone();
                    let (idx, old) = a.insert_full(kj.clone(), KValue::Number(9.into()));
                    r_i1.push(json!([idx, old.is_some(), a.len()]));
                    let mut b = mn.clone();
                    let (idx, old) = b.insert_full(kj.clone(), KValue::Number(9.into()));
                    r_in.push(json!([idx, old.is_some(), b.len()]));
                    let mut a = m1.clone();
                    let removed = a.shift_remove(kj).is_some();
                    r_r1.push(json!([removed, a.len()]));
                    let mut b = mn.clone();
                    let removed = b.shift_remove(kj).is_some();
                    r_rn.push(json!([removed, b.len()]));
                }
                _ => {
                    r_eq.push(Value::Null);
                    r_cmp.push(Value::Null);
                    r_g1.push(Value::Null);
                    r_gn.push(Value::Null);
                    r_i1.push(Value::Null);
                    r_in.push(Value::Null);
                    r_r1.push(Value::Null);
                    r_rn.push(Value::Null);
                }
            }
        }
        keq.push(Value::Array(r_eq));
        kcmp.push(Value::Array(r_cmp));
        get1.push(Value::Array(r_g1));
        getn.push(Value::Array(r_gn));
        ins1.push(Value::Array(r_i1));
        insn.push(Value::Array(r_in));
        rem1.push(Value::Array(r_r1));
        remn.push(Value::Array(r_rn));
    }
    out.insert("keq".into(), Value::Array(keq));
    out.insert("kcmp".into(), Value::Array(kcmp));
    out.insert("get1".into(), Value::Array(get1));
    out.insert("getn".into(), Value::Array(getn));
    out.insert("ins1".into(), Value::Array(ins1));
    out.insert("insn".into(), Value::Array(insn));
    out.insert("rem1".into(), Value::Array(rem1));
    out.insert("remn".into(), Value::Array(remn));
    // sorting: each entry of "sorts" is a list of pool indices; `list.sort()` (sort_values) run by a script
    // that reads the pool from the prelude
    let mut sorts = Vec::new();
    svm.vm.prelude().insert("pool", KValue::Tuple(vals.clone().into()));
    for s in case["sorts"].as_array().cloned().unwrap_or_default() {
        let idxs: Vec<usize> = s.as_array().unwrap().iter().map(|x| x.as_u64().unwrap() as usize).collect();
        let items: Vec<String> = idxs.iter().map(|i| format!("pool[{i}]")).collect();
        let src = format!("x = [{}]\nx.sort()\nx\n", items.join(", "));
        // the standard library's sort panics when it notices that the comparison is not a total order
        let r = std::panic::catch_unwind(std::panic::AssertUnwindSafe(|| svm.run(&src)));
        match r {
            Ok(o) => sorts.push(json!({"ok": o.ok, "result": o.result})),
            Err(_) => {
                sorts.push(json!({"panic": true, "at": last_panic_location()}));
                svm = ScriptVm::new();
                svm.vm.prelude().insert("pool", KValue::Tuple(vals.clone().into()));
            }
        }
    }
    out.insert("sorts".into(), Value::Array(sorts));
    // map.sort() on keys (ValueKey::partial_cmp through IndexMap::sort_by)
    let mut ksorts = Vec::new();
    for s in case["ksorts"].as_array().cloned().unwrap_or_default() {
        let idxs: Vec<usize> = s.as_array().unwrap().iter().map(|x| x.as_u64().unwrap() as usize).collect();
        let mut m = ValueMap::default();
        let mut okk = true;
        for (n, &i) in idxs.iter().enumerate() {
            match &keys[i] {
                Some(k) => {
                    m.insert(k.clone(), KValue::Number((n as i64).into()));
                }
                None => okk = false,
            }
        }
        if !okk {
            ksorts.push(Value::Null);
            continue;
        }
        let before = canon(&KValue::Map(KMap::with_data(m.clone())));
        m.sort_by(|ka, _, kb, _| ka.partial_cmp(kb).unwrap_or(std::cmp::Ordering::Equal));
        ksorts.push(json!({"before": before, "after": canon(&KValue::Map(KMap::with_data(m)))}));
    }
    out.insert("ksorts".into(), Value::Array(ksorts));
    out.insert("canon".into(), json!(vals.iter().map(canon).collect::<Vec<_>>()));
    Value::Object(out)
}

fn script_case(case: &Value) -> Value {
    let src = case["src"].as_str().unwrap_or("").to_string();
    let log: PtrMut<Vec<Vec<String>>> = PtrMut::from(Vec::new());
    let mut svm = ScriptVm::with_limit(Some(std::time::Duration::from_millis(
        case.get("limit_ms").and_then(|c| c.as_u64()).unwrap_or(5000),
    )));
    {
        let log = log.clone();
        svm.vm.prelude().add_fn("obs", move |ctx| {
            let row: Vec<String> = ctx.args().iter().map(canon).collect();
            log.borrow_mut().push(row);
            Ok(KValue::Null)
        });
    }
    let o = svm.run(&src);
    let obs = log.borrow().clone();
    json!({"obs": obs, "result": o.result, "msg": o.message})
}

fn main() {
    quiet_panics();
    let cases = read_cases();
    let mut w = out();
    for case in &cases {
        let c = case.clone();
        let r = guarded(move || if c.get("pool").is_some() { pool_case(&c) } else { script_case(&c) });
        match r {
            Ok(v) => emit_line(&mut w, &v),
            Err(msg) => emit_line(&mut w, &json!({"panic": msg, "at": last_panic_location()})),
        }
    }
}
