//! Generic script runner: each case is {"src": "..."} (optionally "checks": bool, "limit_ms": n);
//! prints {"result": canonical value or error class, "out": captured stdout, "msg": error text}.
use kh::script::ScriptVm;
use kh::*;
use koto_bytecode::CompilerSettings;
use serde_json::json;

fn main() {
    quiet_panics();
    let cases = read_cases();
    let mut w = out();
    for case in &cases {
        let src = case["src"].as_str().unwrap_or("").to_string();
        let checks = case.get("checks").and_then(|c| c.as_bool()).unwrap_or(true);
        let limit = case.get("limit_ms").and_then(|c| c.as_u64());
        let r = guarded(move || {
            let mut vm = ScriptVm::with_limit(limit.map(std::time::Duration::from_millis));
            let settings = CompilerSettings { enable_type_checks: checks, ..Default::default() };
            let o = vm.run_with(&src, settings);
            json!({"result": o.result, "out": o.out, "msg": o.message})
        });
        match r {
            Ok(v) => emit_line(&mut w, &v),
            Err(msg) => emit_line(&mut w, &json!({"panic": msg, "at": last_panic_location()})),
        }
        // one line per case reaches the pipe before the next case starts: if the process dies
        // (abort, stack overflow) the driver knows which case killed it
        let _ = std::io::Write::flush(&mut w);
    }
}
