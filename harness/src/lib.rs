//! Shared helpers for the kh_* correspondence binaries.
use std::io::{self, BufRead, Write};

/// Reads the case file given as the first CLI argument (or stdin when absent / "-"),
/// one JSON value per line.
pub fn read_cases() -> Vec<serde_json::Value> {
    let arg = std::env::args().nth(1);
    let reader: Box<dyn BufRead> = match arg.as_deref() {
        None | Some("-") => Box::new(io::BufReader::new(io::stdin())),
        Some(path) => Box::new(io::BufReader::new(
            std::fs::File::open(path).expect("cannot open case file"),
        )),
    };
    reader
        .lines()
        .map(|l| l.expect("read error"))
        .filter(|l| !l.trim().is_empty())
        .map(|l| serde_json::from_str(&l).expect("case line is not JSON"))
        .collect()
}

/// Runs `f` catching panics; the panic message is returned as Err.
pub fn guarded<T>(f: impl FnOnce() -> T + std::panic::UnwindSafe) -> Result<T, String> {
    match std::panic::catch_unwind(f) {
        Ok(v) => Ok(v),
        Err(e) => Err(if let Some(s) = e.downcast_ref::<&str>() {
            s.to_string()
        } else if let Some(s) = e.downcast_ref::<String>() {
            s.clone()
        } else {
            "panic".to_string()
        }),
    }
}

/// Silences the default panic hook (the message is captured by `guarded`); the location of the
/// last panic is kept so that it can be reported.
pub fn quiet_panics() {
    std::panic::set_hook(Box::new(|info| {
        if let Some(loc) = info.location() {
            LAST_PANIC_LOCATION.with(|l| *l.borrow_mut() = format!("{}:{}", loc.file(), loc.line()));
        }
    }));
}

thread_local! {
    pub static LAST_PANIC_LOCATION: std::cell::RefCell<String> = std::cell::RefCell::new(String::new());
}

pub fn last_panic_location() -> String {
    LAST_PANIC_LOCATION.with(|l| l.borrow().clone())
}

pub fn out() -> io::BufWriter<io::Stdout> {
    io::BufWriter::new(io::stdout())
}

pub fn emit_line(w: &mut impl Write, v: &serde_json::Value) {
    writeln!(w, "{}", serde_json::to_string(v).unwrap()).unwrap();
}

pub fn cps_to_string(v: &serde_json::Value) -> Option<String> {
    v.as_array()?
        .iter()
        .map(|c| c.as_u64().and_then(|c| char::from_u32(c as u32)))
        .collect()
}
pub mod script;
