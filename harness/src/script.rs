//! Running koto scripts with captured output and canonical (message-free) results.
use koto_bytecode::CompilerSettings;
use koto_runtime::{ErrorKind, KotoVm, KotoVmSettings, Ptr, PtrMut, prelude::*};
use std::fmt::Write;

/// stdout / stderr capture
#[derive(Clone, Default)]
pub struct Capture {
    output: PtrMut<String>,
}

impl Capture {
    pub fn new() -> Self {
        Self { output: PtrMut::from(String::new()) }
    }
    pub fn take(&self) -> String {
        std::mem::take(&mut *self.output.borrow_mut())
    }
}

impl KotoFile for Capture {
    fn id(&self) -> KString {
        "_capture_".into()
    }
}
impl KotoRead for Capture {}
impl KotoWrite for Capture {
    fn write(&self, bytes: &[u8]) -> koto_runtime::Result<()> {
        self.output.borrow_mut().push_str(&String::from_utf8_lossy(bytes));
        Ok(())
    }
    fn write_line(&self, output: &str) -> koto_runtime::Result<()> {
        let mut o = self.output.borrow_mut();
        o.push_str(output);
        o.push('\n');
        Ok(())
    }
    fn flush(&self) -> koto_runtime::Result<()> {
        Ok(())
    }
}

/// Canonical rendering of a value: never goes through koto's own display code.
/// n | t | f | i<dec> | d<16 hex of f64 bits> (dNaN) | s"<bytes, \xHH escaped>" | L[..] | T(..) |
/// M{k=v,..} in stored order | R<lo>..<hi> / ..= / open ends as _ | F | I | O
pub fn canon(v: &KValue) -> String {
    let mut s = String::new();
    canon_into(v, &mut s, 0);
    s
}

fn canon_str(x: &str, out: &mut String) {
    out.push_str("s\"");
    for b in x.bytes() {
        if (32..127).contains(&b) && b != b'"' && b != b'\\' {
            out.push(b as char);
        } else {
            write!(out, "\\x{b:02x}").unwrap();
        }
    }
    out.push('"');
}

fn canon_into(v: &KValue, out: &mut String, depth: usize) {
    if depth > 40 {
        out.push_str("...");
        return;
    }
    match v {
        KValue::Null => out.push('n'),
        KValue::Bool(true) => out.push('t'),
        KValue::Bool(false) => out.push('f'),
        KValue::Number(KNumber::I64(i)) => write!(out, "i{i}").unwrap(),
        KValue::Number(KNumber::F64(x)) => {
            if x.is_nan() {
                out.push_str("dNaN")
            } else {
                write!(out, "d{:016x}", x.to_bits()).unwrap()
            }
        }
        KValue::Str(s) => canon_str(s.as_str(), out),
        KValue::List(l) => {
            out.push_str("L[");
            for (i, e) in l.data().iter().enumerate() {
                if i > 0 {
                    out.push(',');
                }
                canon_into(e, out, depth + 1);
            }
            out.push(']');
        }
        KValue::Tuple(t) => {
            out.push_str("T(");
            for (i, e) in t.iter().enumerate() {
                if i > 0 {
                    out.push(',');
                }
                canon_into(e, out, depth + 1);
            }
            out.push(')');
        }
        KValue::Map(m) => {
            out.push_str("M{");
            for (i, (k, e)) in m.data().iter().enumerate() {
                if i > 0 {
                    out.push(',');
                }
                canon_into(k.value(), out, depth + 1);
                out.push('=');
                canon_into(e, out, depth + 1);
            }
            out.push('}');
        }
        KValue::Range(r) => {
            out.push('R');
            match r.start() {
                Some(s) => write!(out, "{s}").unwrap(),
                None => out.push('_'),
            }
            match r.end() {
                Some((e, true)) => write!(out, "..={e}").unwrap(),
                Some((e, false)) => write!(out, "..{e}").unwrap(),
                None => out.push_str(".._"),
            }
        }
        KValue::Function(_) | KValue::NativeFunction(_) => out.push('F'),
        KValue::Iterator(_) => out.push('I'),
        KValue::Object(_) => out.push('O'),
        KValue::TemporaryTuple(_) => out.push_str("TT"),
    }
}

/// Error classes (messages are never compared)
pub fn error_class(e: &koto_runtime::Error) -> String {
    match &e.error {
        ErrorKind::KotoError { thrown_value, .. } => format!("EThrown({})", canon(thrown_value)),
        ErrorKind::StringError(s) => {
            // native errors are plain strings; keep a coarse class only
            let s = s.to_lowercase();
            if s.contains("assert") {
                "EAssert".into()
            } else if s.contains("out of bounds") || s.contains("index") {
                "EIndex".into()
            } else if s.contains("not found") {
                "ENotFound".into()
            } else {
                "EString".into()
            }
        }
        ErrorKind::Timeout(_) => "ETimeout".into(),
        ErrorKind::UnableToBorrowObject => "EBorrow".into(),
        ErrorKind::UnexpectedArguments { .. } => "EArgs".into(),
        ErrorKind::InsufficientArguments { .. } => "EArgs".into(),
        ErrorKind::TooManyArguments { .. } => "EArgs".into(),
        ErrorKind::UnexpectedType { .. } => "EType".into(),
        ErrorKind::UnexpectedObjectType { .. } => "EType".into(),
        ErrorKind::Unimplemented { .. } => "EUnimpl".into(),
        ErrorKind::InvalidBinaryOp { .. } => "EBinaryOp".into(),
        ErrorKind::EmptyCallStack => "EInternal(EmptyCallStack)".into(),
        ErrorKind::MissingSequenceBuilder => "EInternal(MissingSequenceBuilder)".into(),
        ErrorKind::MissingStringBuilder => "EInternal(MissingStringBuilder)".into(),
        ErrorKind::UnsupportedPlatform => "EPlatform".into(),
        ErrorKind::UnexpectedError => "EInternal(UnexpectedError)".into(),
        ErrorKind::CompileError(_) => "ECompile".into(),
        #[allow(unreachable_patterns)]
        _ => "EOther".into(),
    }
}

pub struct ScriptVm {
    pub vm: KotoVm,
    pub capture: Capture,
}

pub struct Outcome {
    /// canonical value or error class
    pub result: String,
    pub ok: bool,
    pub out: String,
    /// the error's Display text (diagnostics only, never compared)
    pub message: String,
}

impl ScriptVm {
    pub fn new() -> Self {
        Self::with_limit(None)
    }

    pub fn with_limit(limit: Option<std::time::Duration>) -> Self {
        let capture = Capture::new();
        let stdout: Ptr<dyn KotoFile> = Ptr::from(Box::new(capture.clone()) as Box<dyn KotoFile>);
        let stderr: Ptr<dyn KotoFile> = Ptr::from(Box::new(capture.clone()) as Box<dyn KotoFile>);
        let vm = KotoVm::with_settings(KotoVmSettings {
            stdout,
            stderr,
            execution_limit: limit,
            ..Default::default()
        });
        Self { vm, capture }
    }

    pub fn compile(
        &mut self,
        src: &str,
        settings: CompilerSettings,
    ) -> Result<Ptr<koto_bytecode::Chunk>, String> {
        self.vm
            .loader()
            .borrow_mut()
            .compile_script(src, None, settings)
            .map_err(|e| e.to_string())
    }

    pub fn run(&mut self, src: &str) -> Outcome {
        self.run_with(src, CompilerSettings::default())
    }

    pub fn run_with(&mut self, src: &str, settings: CompilerSettings) -> Outcome {
        let chunk = match self.compile(src, settings) {
            Ok(c) => c,
            Err(msg) => {
                return Outcome { result: "ECompile".into(), ok: false, out: self.capture.take(), message: msg };
            }
        };
        match self.vm.run(chunk) {
            Ok(v) => Outcome { result: canon(&v), ok: true, out: self.capture.take(), message: String::new() },
            Err(e) => Outcome {
                result: error_class(&e),
                ok: false,
                out: self.capture.take(),
                message: e.to_string(),
            },
        }
    }
}

impl Default for ScriptVm {
    fn default() -> Self {
        Self::new()
    }
}
