"""C16  Type hints check exactly as documented; disabling them changes nothing else.

T  coq/types/C16Props.v: compare_value_type == the documented relation for every value / hint /
   @base chain of any length; AssertType raises where CheckType jumps; code compiled without the
   asserts (offsets re-computed) simulates every assert-clean run of the code compiled with them.
R  (i) the Coq compare_value_type vs koto on (value, hint, ?) triples through `let` (AssertType) and
   `match` (CheckType); (ii) the Coq `erase` applied to the decoded bytecode compiled with
   enable_type_checks=true vs the decoded bytecode compiled with enable_type_checks=false.
D  generated programs (hint position x hint name x value), run with checks ON and OFF; expected
   outcomes computed here from the language guide's relation; ON/OFF bytecode compared.
"""
import json
import os
import subprocess
import time
import concurrent.futures

from vlib import common as C
from tools import k2v_types
from tools.k2v import GenError

PID = "C16"
UNIT = "types"

PINNED = [
    "type_match_spec", "assert_vs_check", "assert_position_ok", "check_position_ok", "deep_base_found",
    "erase_asserts_sim", "erase_asserts_sim_entry", "clean_run_run", "erase_is_filter", "erase_no_asserts",
    "assert_sites_complete", "ignored_rebind_asserted", "check_sites_kept",
]

SITES_PINNED = ["output_paths_checked", "output_paths_enumerated"]

ERR_TYPE_STR = "Error: expected string as result of @type"
SPECIAL = ("Any", "Callable", "Indexable", "Iterable")

# ---------------------------------------------------------------------------
# values: descriptor (what the documented relation looks at), koto expression, Coq term


def d_map(meta=False, ty=None, call=False, it=False, nxt=False, base=None, data=False):
    return {"k": "map", "meta": meta, "ty": ty, "call": call, "iter": it, "next": nxt, "base": base, "data": data}


def d_basic(k):
    return {"k": k}


def d_obj(ty, call, sized, it, expr):
    return {"k": "obj", "ty": ty, "call": call, "sized": sized, "iter": it, "expr": expr}


BASIC_EXPR = {
    "null": ["null"], "bool": ["true", "false"], "number": ["1", "2.5", "-3"], "string": ["'abc'", "''"],
    "list": ["[1, 2]", "[]"], "tuple": ["(1, 2)"], "range": ["1..3", "1..=3", "(1..)", "(..)"],
    "fn": ["(|q| q)"], "gen": ["(|| yield 1)"], "native": ["koto.type", "string.to_uppercase"],
    "iter": ["(1..3).iter()", "'ab'.chars()", "(|| yield 1)()", "[1].each(|q| q)"],
}
BASIC_TYPE = {"null": "Null", "bool": "Bool", "number": "Number", "string": "String", "list": "List",
              "tuple": "Tuple", "range": "Range", "fn": "Function", "gen": "Generator", "native": "Function",
              "iter": "Iterator"}
BASIC_COQ = {"null": "VNull", "bool": "VBool", "number": "VNumber", "string": "VStr", "list": "VList",
             "tuple": "VTuple", "range": "VRange", "fn": "(VFunction false)", "gen": "(VFunction true)",
             "native": "VNativeFunction", "iter": "VIterator"}


def koto_expr(d, variant=0, display=False):
    k = d["k"]
    if k in BASIC_EXPR:
        xs = BASIC_EXPR[k]
        return xs[variant % len(xs)]
    if k == "obj":
        return d["expr"]
    # map
    ents = []
    if d["data"]:
        ents.append("a: 1")
    if d["meta"]:
        n0 = len(ents)
        if d["ty"] == "#other":
            ents.append("@type: 42")
        elif d["ty"] is not None:
            ents.append(f"@type: '{d['ty']}'")
        if d["call"]:
            ents.append("@call: || 1")
        if d["iter"]:
            ents.append("@iterator: || (1..3).iter()")
        if d["next"]:
            ents.append("@next: || null")
        if d["base"] is not None:
            ents.append("@base: " + koto_expr(d["base"], variant))
        if display:
            ents.append("@display: || 'thrown'")
        if len(ents) == n0:
            ents.append("@meta q: 1")
    return "{" + ", ".join(ents) + "}"


def coq_term(d):
    k = d["k"]
    if k in BASIC_COQ:
        return BASIC_COQ[k]
    b = lambda x: "true" if x else "false"
    if k == "obj":
        return f'(VObject "{d["ty"]}" {b(d["call"])} {b(d["sized"])} {b(d["iter"])})'
    if not d["meta"]:
        return "plain_map"
    ty = "MTNone" if d["ty"] is None else ("MTOther" if d["ty"] == "#other" else f'(MTStr "{d["ty"]}")')
    base = "None" if d["base"] is None else f"(Some {coq_term(d['base'])})"
    return f"(VMap true {ty} {b(d['call'])} {b(d['iter'])} {b(d['next'])} {base})"


# ---- the documented relation, written from docs/language_guide.md (not from the Coq model)
def is_obj_map(d):
    return d["k"] == "map" and d["meta"]


def py_chain(d):
    out = [d]
    while is_obj_map(d) and d["base"] is not None:
        d = d["base"]
        out.append(d)
    return out


def py_type_name(d):
    k = d["k"]
    if k in BASIC_TYPE:
        return BASIC_TYPE[k]
    if k == "obj":
        return d["ty"]
    if not d["meta"]:
        return "Map"
    for u in py_chain(d):          # nearest @type entry along the chain of objects
        if not is_obj_map(u):
            break
        if u["ty"] == "#other":
            return ERR_TYPE_STR
        if u["ty"] is not None:
            return u["ty"]
    return "Object"


def py_callable(d):
    k = d["k"]
    return k in ("fn", "native") or (k == "obj" and d["call"]) or (is_obj_map(d) and d["call"])


def py_indexable(d):
    k = d["k"]
    return k in ("list", "tuple", "string", "map") or (k == "obj" and d["sized"])


def py_iterable(d):
    k = d["k"]
    if k in ("range", "list", "tuple", "string", "iter"):
        return True
    if k == "map":
        return (d["iter"] or d["next"]) if d["meta"] else True
    return k == "obj" and d["iter"]


def py_matches(d, h, opt):
    if opt and d["k"] == "null":
        return True
    if h == "Any":
        return True
    if h == "Callable":
        return py_callable(d)
    if h == "Indexable":
        return py_indexable(d)
    if h == "Iterable":
        return py_iterable(d)
    return any(py_type_name(u) == h for u in py_chain(d))


def fixed_values():
    vs = []
    for k in BASIC_EXPR:
        vs.append(d_basic(k))
    vs.append(d_obj("Peekable", False, False, True, "(1..3).peekable()"))
    for fl in range(8):
        vs.append(d_obj("TObj", bool(fl & 1), bool(fl & 2), bool(fl & 4), f"(mk_obj {fl})"))
    M = d_map
    animal = M(True, "Animal", data=True)
    dog = M(True, "Dog", base=animal)
    vs += [
        M(False), M(False, data=True),
        M(True), M(True, "Foo"), M(True, "Foo", data=True), M(True, "#other"),
        M(True, "Foo", call=True), M(True, None, call=True), M(True, "Foo", it=True), M(True, None, nxt=True),
        M(True, "Foo", it=True, nxt=True, call=True),
        animal, dog, M(True, "Puppy", base=dog),
        M(True, "A3", base=M(True, "A2", base=M(True, "A1", base=M(True, "A0")))),
        M(True, None, base=animal),                    # no own @type: koto.type reports the base's
        M(True, None, base=M(True, None, base=M(True, "Deep"))),
        M(True, None, base=M(False, data=True)),       # base is a plain map
        M(True, "X", base=d_basic("list")), M(True, "X", base=d_basic("string")), M(True, "X", base=d_basic("null")),
        M(True, "X", base=d_basic("fn")), M(True, "X", base=d_basic("number")), M(True, None, base=d_basic("tuple")),
        M(True, "X", base=M(True)),                     # base is an object without @type
        M(True, "X", base=M(True, "Y", call=True, it=True)),   # @call / @iterator only in the base
        M(True, "X", base=M(True, "#other")),
        M(True, "X", base=M(False, base=None)),
        M(True, "Dog", base=M(True, "Dog", base=animal)),
        M(True, "Callable"), M(True, "Any", base=animal), M(True, "X", base=M(True, "Iterable")),
        M(True, "X", base=d_obj("TObj", True, True, True, "(mk_obj 7)")),
    ]
    return vs


def random_value(rng, max_depth):
    """a random object with a random @base chain"""
    names = ["Foo", "Animal", "Dog", "Puppy", "A0", "A1", "X", "Y", None, None, "#other"]
    depth = rng.below(max_depth + 1)
    tail_kinds = [None, "list", "string", "null", "fn", "number", "plainmap", "tuple", "iter"]
    t = rng.choice(tail_kinds)
    if t is None:
        cur = None
    elif t == "plainmap":
        cur = d_map(False, data=rng.chance(1, 2))
    else:
        cur = d_basic(t)
    for _ in range(depth + 1):
        cur = d_map(True, rng.choice(names), call=rng.chance(1, 5), it=rng.chance(1, 5), nxt=rng.chance(1, 6),
                    base=cur, data=rng.chance(1, 3))
    return cur


HINT_NAMES = ["Any", "Bool", "Number", "String", "List", "Tuple", "Map", "Range", "Function", "Generator", "Iterator",
              "Null", "Object", "Callable", "Indexable", "Iterable", "TObj", "Peekable", "Foo", "Animal", "Dog",
              "Puppy", "A0", "A1", "A2", "A3", "X", "Y", "Deep", "Nope"]
HINTS = [(h, o) for h in HINT_NAMES for o in (False, True)]
QUICK_OPT_HINTS = ("Any", "Null", "Number", "Foo", "Animal", "Callable")


def hint_src(h, opt):
    return h + ("?" if opt else "")


# ---------------------------------------------------------------------------
# hint positions.  A template gives the statements of one snippet; `{H}` is the hint, `v` holds the
# value.  kind "assert": a mismatch must raise (ON), nothing happens (OFF).  kind "check": the snippet
# assigns 'hit' / 'miss' to r under both settings.  asserts / checks: instructions of each sort that the
# compiler emits for the snippet (dup = emitted twice by compile_assign_to_map_finish).

class T:
    def __init__(self, name, kind, lines, asserts=0, checks=0, value=None, throw=False, known=None, group="",
                 out=None, expect=None):
        self.name, self.kind, self.lines = name, kind, lines
        self.out = out or []      # lines printed by the snippet once its hint has passed (or checks are off);
        #                           a list or a function of the checked value's descriptor
        self.expect = expect      # check kind: label printed for (descriptor, hint, opt); default hit / miss
        self.asserts, self.checks = asserts, checks
        self.value = value        # the checked value is not `v` but this descriptor
        self.throw = throw        # `v` is thrown: needs a string or an object with @display
        self.known = known
        self.group = group


NULLV = d_basic("null")
STRV = d_basic("string")
A, K = "assert", "check"
TEMPLATES = [
    T("let", A, ["let x: {H} = v"], 1, group="let"),
    T("let_ignored", A, ["let _: {H} = v"], 1, group="let"),
    T("let_export", A, ["export let x: {H} = v"], 1, group="let"),
    T("multi_temp", A, ["let a: Any, x: {H} = 1, v"], 2, group="multi-assign"),
    T("multi_temp_first", A, ["let x: {H}, b = v, 1", "print b"], 1, group="multi-assign", out=["1"]),
    T("multi_temp_ignored", A, ["let a, _y: {H}, c = 1, v, 3", "print a", "print c"], 1, group="multi-assign",
      out=["1", "3"]),
    T("multi_iter", A, ["rhs = (1, v, 3)", "let a, x: {H}, c = rhs", "print a", "print c"], 1, group="multi-assign",
      out=["1", "3"]),
    T("multi_iter_ignored", A, ["rhs = (v, 1, 2)", "let _y: {H}, b, c = rhs", "print b", "print c"], 1,
      group="multi-assign", out=["1", "2"]),
    T("let_map", A, ["let {x: {H}} = {x: v}"], 2, group="map pattern"),
    T("let_map_rebind", A, ["let {x as y: {H}} = {x: v}"], 2, group="map pattern"),
    T("let_map_second", A, ["let {w, x: {H}} = {w: 0, x: v}"], 2, group="map pattern"),
    T("let_map_rebind_ignored", A, ["let {x as _: {H}} = {x: v}"], 1, group="map pattern"),
    T("multi_map", A, ["let a, {x: {H}} = 1, {x: v}"], 2, group="map pattern"),
    T("multi_map_rebind_ignored", A, ["let a, {x as _: {H}} = 1, {x: v}"], 1, group="map pattern"),
    T("for_map_rebind_ignored", A, ["for {x as _: {H}} in [{x: v}]", "  z = 1"], 1, group="map pattern"),
    T("for_single", A, ["for x: {H} in [v]", "  z = 1"], 1, group="for arg"),
    T("for_ignored", A, ["for _: {H} in [v]", "  z = 1"], 1, group="for arg"),
    T("for_multi", A, ["for i, x: {H}, j in [(0, v, 5)]", "  print i", "  print j"], 1, group="for arg", out=["0", "5"]),
    T("for_multi_ignored", A, ["for i, _x: {H}, j in [(0, v, 5)]", "  print i", "  print j"], 1, group="for arg",
      out=["0", "5"]),
    T("for_second_iteration", A, ["for x: {H} in [v, v]", "  print 'it'"], 1, group="for arg", out=["it", "it"]),
    T("for_map", A, ["for {x: {H}} in [{x: v}]", "  z = 1"], 2, group="map pattern"),
    T("arg", A, ["f = |x: {H}| 1", "f v"], 1, group="function arg"),
    T("arg_ignored", A, ["f = |a, _: {H}, b|", "  print a", "  print b", "f 0, v, 5"], 1, group="function arg",
      out=["0", "5"]),
    T("arg_second", A, ["f = |a, x: {H}, b|", "  print a", "  print b", "f 0, v, 5"], 1, group="function arg",
      out=["0", "5"]),
    T("arg_default", A, ["f = |a, x: {H} = 'd'| 1", "f 0, v"], 1, group="function arg"),
    T("arg_default_used", A, ["f = |a, x: {H} = v| 1", "f 0"], 1, group="function arg"),
    T("arg_before_variadic", A, ["f = |x: {H}, rest...| 1", "f v, 1, 2"], 1, group="function arg"),
    T("arg_method", A, ["m = {f: |x: {H}| 1}", "m.f v"], 1, group="function arg"),
    T("arg_nested", A, ["f = |(a, x: {H}, b)|", "  print a", "  print b", "f (0, v, 5)"], 1, group="nested arg",
      out=["0", "5"]),
    T("arg_nested_ignored", A, ["f = |(a, _: {H}, b)|", "  print a", "  print b", "f (0, v, 5)"], 1, group="nested arg",
      out=["0", "5"]),
    T("arg_nested_deep", A, ["f = |(a, (b, x: {H}))| 1", "f (0, (1, v))"], 1, group="nested arg"),
    T("arg_nested_from_end", A, ["f = |(first..., x: {H})| 1", "f (0, 1, v)"], 1, group="nested arg"),
    T("arg_nested_before_rest", A, ["f = |(x: {H}, rest...)| 1", "f (v, 1, 2)"], 1, group="nested arg"),
    T("arg_map", A, ["f = |{x: {H}}| 1", "f {x: v}"], 1, group="map pattern"),
    T("arg_map_rebind_ignored", A, ["f = |{x as _: {H}}| 1", "f {x: v}"], 1, group="map pattern"),
    T("arg_map_in_tuple", A, ["f = |(a, {x: {H}})| 1", "f (0, {x: v})"], 1, group="map pattern"),
    T("ret_implicit", A, ["f = |q| -> {H}", "  q", "f v"], 1, group="return"),
    # 1 since /repo fix 086fc95 (the frame's last expression is recognised as a `return`, so compile_frame
    # no longer repeats assert + Return after it as dead code; before the fix this was 2)
    T("ret_explicit", A, ["f = |q| -> {H}", "  return q", "f v"], 1, group="return"),
    T("ret_early", A, ["f = |q| -> {H}", "  if true", "    return q", "  q", "f v"], 2, group="return"),
    T("ret_inline", A, ["f = |q| -> {H} q", "f v"], 1, group="return"),
    T("ret_empty", A, ["f = || -> {H}", "  return", "f()"], 1, value=NULLV, group="return"),
    T("ret_no_value", A, ["f = || -> {H}", "  for i in 0..0", "    z = 1", "f()"], 1, value=NULLV, group="return"),
    T("yield", A, ["g = |q| -> {H}", "  yield q", "g(v).to_tuple()"], 1, group="yield"),
    T("yield_second", A, ["g = |q| -> {H}", "  yield q", "  yield q", "g(v).to_tuple()"], 2, group="yield"),
    T("match", K, ["r = match v", "  x: {H} then 'hit'", "  else 'miss'"], 0, 1, group="match arm"),
    T("match_ignored", K, ["r = match v", "  _: {H} then 'hit'", "  else 'miss'"], 0, 1, group="match arm"),
    T("match_second_arm", K, ["r = match v", "  x: Zzz then 'zzz'", "  x: {H} then 'hit'", "  else 'miss'"], 0, 2,
      group="match arm"),
    T("match_or_first", K, ["r = match v", "  x: {H} or x: Zzz then 'hit'", "  else 'miss'"], 0, 2, group="match arm"),
    T("match_or_second", K, ["r = match v", "  x: Zzz or x: {H} then 'hit'", "  else 'miss'"], 0, 2, group="match arm"),
    T("match_nested", K, ["r = match (0, v)", "  (a, x: {H}) then 'hit'", "  else 'miss'"], 0, 1, group="match arm"),
    T("match_multi", K, ["r = match 0, v", "  a, x: {H} then 'hit'", "  else 'miss'"], 0, 1, group="match arm"),
    T("match_guard", K, ["r = match v", "  x: {H} if true then 'hit'", "  else 'miss'"], 0, 1, group="match arm"),
    T("match_no_else", K, ["r = match v", "  x: {H} then 'hit'", "r = r or 'miss'"], 0, 1, group="match arm"),
    T("match_map", K, ["r = match {x: v}", "  {x: {H}} then 'hit'", "  else 'miss'"], 0, 1, group="map pattern"),
    T("catch", K, ["r = try", "  throw v", "catch e: {H}", "  'hit'", "catch e", "  'miss'"], 0, 1, throw=True,
      group="typed catch"),
    T("catch_ignored", K, ["r = try", "  throw v", "catch _: {H}", "  'hit'", "catch e", "  'miss'"], 0, 1, throw=True,
      group="typed catch"),
    T("catch_second", K, ["r = try", "  throw v", "catch e: Zzz", "  'zzz'", "catch e: {H}", "  'hit'", "catch e",
                          "  'miss'"], 0, 2, throw=True, group="typed catch"),
    T("catch_finally", K, ["r = 'none'", "try", "  throw v", "catch e: {H}", "  r = 'hit'", "catch e", "  r = 'miss'",
                           "finally", "  z = 1"], 0, 1, throw=True, group="typed catch"),
    T("catch_runtime_error", K, ["r = try", "  [][1]", "catch e: {H}", "  'hit'", "catch e", "  'miss'"], 0, 1,
      value=STRV, group="typed catch"),
]
TBYNAME = {t.name: t for t in TEMPLATES}


# ---------------------------------------------------------------------------
# structured templates: match arms with `or` alternatives, series of typed catch blocks,
# multi-assignments with typed ids / typed wildcards in every position and every kind of right-hand side.
# The focus slot carries `{H}`; every other hint is fixed in the template.  Expected behaviour is computed
# from the documented relation: an arm is selected iff SOME alternative matches (and its guard holds), the first
# selected arm wins, a failed type check never raises.

OTHER_HINTS = [("Zzz", False), ("Zzz", True), ("Any", False), ("String", False), ("Number", False), ("Map", False),
               ("Object", False), ("Foo", False), ("Animal", False), ("Dog", True), ("Indexable", False),
               ("Iterable", False), ("Callable", False), ("Null", False), ("List", True), ("X", False)]

# name: (subject, pattern); {S} = the typed slot, {L} = a literal that equals the subject's (0) or not (9)
MATCH_CONTEXTS = {
    "single": ("v", "{S}"),
    "multi_last": ("0, v", "{L}, {S}"),
    "multi_first": ("v, 0", "{S}, {L}"),
    "multi_mid": ("0, v, 1", "{L}, {S}, 1"),
    "tuple_last": ("(0, v)", "({L}, {S})"),
    "tuple_first": ("(v, 0)", "({S}, {L})"),
    "tuple_ellipsis_after": ("(0, v, 1, 2)", "({L}, {S}, ...)"),
    "tuple_ellipsis_before": ("(1, 2, v, 0)", "(..., {S}, {L})"),
    "tuple_ellipsis_before_last": ("(0, 1, v)", "(..., {S})"),
    "tuple_ellipsis_after_first": ("(v, 1, 2)", "({S}, ...)"),
    "multi_nested": ("0, (1, v)", "{L}, (1, {S})"),
}


def dyn_template(t):
    TBYNAME.setdefault(t.name, t)
    return TBYNAME[t.name]


def gen_match_template(rng):
    ctx = rng.choice(sorted(MATCH_CONTEXTS))
    subject, pat = MATCH_CONTEXTS[ctx]
    wild = rng.chance(1, 2)
    n_alts = 1 + rng.below(3)
    focus = rng.below(n_alts)
    hints = [None if i == focus else rng.choice(OTHER_HINTS) for i in range(n_alts)]
    broken = rng.below(n_alts) if ("{L}" in pat and rng.chance(1, 5)) else None      # literal of this alternative differs
    guard = rng.choice([None, None, None, True, False])
    arm1 = rng.choice(OTHER_HINTS) if rng.chance(1, 2) else None
    has_else = rng.chance(3, 4)

    def slot(hs):
        return ("_: " if wild else "x: ") + hs

    alts = []
    for i in range(n_alts):
        hs = "{H}" if i == focus else hint_src(*hints[i])
        alts.append(pat.replace("{S}", slot(hs)).replace("{L}", "9" if broken == i else "0"))
    lines = ["r = match " + subject,
             "  " + " or ".join(alts) + ("" if guard is None else (" if true" if guard else " if false")) + " then 'arm0'"]
    if arm1:
        lines.append("  " + pat.replace("{S}", slot(hint_src(*arm1))).replace("{L}", "0") + " then 'arm1'")
    if has_else:
        lines.append("  else 'else'")
    else:
        lines.append("r = r or 'none'")
    name = "gm:%s:%s:%d:%d:%s:%s:%s:%s:%s" % (ctx, "w" if wild else "i", n_alts, focus,
                                               ",".join("-" if x is None else hint_src(*x) for x in hints), broken, guard,
                                               hint_src(*arm1) if arm1 else "-", has_else)

    def expect(d, h, opt):
        some = any(broken != i and py_matches(d, *((h, opt) if i == focus else hints[i])) for i in range(n_alts))
        if some and guard is not False:
            return "arm0"
        if arm1 and py_matches(d, *arm1):
            return "arm1"
        return "else" if has_else else "none"

    return dyn_template(T(name, K, lines, 0, n_alts + (1 if arm1 else 0), group="match arm (structured)", expect=expect))


def gen_catch_template(rng):
    n = 1 + rng.below(3)
    focus = rng.below(n)
    hints = [None if i == focus else rng.choice(OTHER_HINTS) for i in range(n)]
    wilds = [rng.chance(1, 2) for _ in range(n)]
    lines = ["r = try", "  throw v"]
    for i in range(n):
        hs = "{H}" if i == focus else hint_src(*hints[i])
        lines += [f"catch {'_' if wilds[i] else 'e'}: {hs}", f"  'c{i}'"]
    lines += ["catch _" if rng.chance(1, 3) else "catch e", "  'last'"]
    name = "gc:%d:%d:%s:%s:%s" % (n, focus, ",".join("-" if x is None else hint_src(*x) for x in hints),
                                  "".join("w" if w else "i" for w in wilds), lines[-2])

    def expect(d, h, opt):
        for i in range(n):
            if py_matches(d, *((h, opt) if i == focus else hints[i])):
                return f"c{i}"
        return "last"

    return dyn_template(T(name, K, lines, 0, n, throw=True, group="typed catch (structured)", expect=expect))


# every way a function can produce its value x a return hint: `return e` / bare `return` in statement position
# (inside if / else / nested if / for / while / loop / match arm, followed by more code) or as the last expression,
# the implicit value of the last expression, falling off an un-taken `if` or a finished loop (null)
RETURN_WRAPPERS = {
    # name: (lines with {S}, the statement runs iff c == <bool> (None: always), usable as last expression when skipped)
    "if": (["if c", "  {S}"], True, True),
    "else": (["if c", "  z = 1", "else", "  {S}"], False, False),
    "nested_if": (["if c", "  if c", "    {S}"], True, True),
    "for_if": (["for i in 0..3", "  if i == 1 and c", "    {S}"], True, True),
    "for": (["for i in 0..3", "  {S}"], None, False),
    "while_if": (["n = 0", "while n < 2", "  n += 1", "  if c", "    {S}"], True, True),
    "loop": (["loop", "  {S}"], None, False),
    "match_arm": (["match c", "  true then", "    {S}", "  else", "    z = 1"], True, False),
    "if_in_else_of_match": (["match c", "  false then", "    z = 1", "  else", "    if c", "      {S}"], True, False),
    "plain": (["{S}"], None, False),
}


def gen_return_template(rng):
    wname = rng.choice(sorted(RETURN_WRAPPERS))
    wlines, runs_iff, last_ok = RETURN_WRAPPERS[wname]
    bare = rng.chance(3, 5)
    stmt = "return" if bare else "return q"
    position = rng.choice(["statement", "statement", "last"])
    if runs_iff is None:
        c, runs = rng.chance(1, 2), True
    else:
        # a bare `return` inside an un-taken `if` that is the function's last expression used to make koto fall out
        # of the function body (repaired in /repo by 086fc95): the shape is generated here since the repair
        runs = rng.chance(3, 4) or (position == "last" and not last_ok)
        c = runs_iff if runs else (not runs_iff)
    body = [l.replace("{S}", stmt) for l in wlines]
    if position == "statement" and wname != "plain":
        body.append("q")                  # the implicit return reached when the statement did not run
    returns_null = (runs and bare) or (not runs and position == "last")
    lines = ["f = |q, c| -> {H}"] + ["  " + l for l in body] + [f"f v, {'true' if c else 'false'}"]
    name = "gr:%s:%s:%s:%s" % (wname, "bare" if bare else "expr", position, c)
    return dyn_template(T(name, A, lines, None, 0, value=NULLV if returns_null else None, group="return (structured)"))


RHS_FORMS = ["temp", "tuple_var", "list_var", "call", "iter", "generator", "range", "string"]


def gen_multi_assign_template(rng):
    n = 2 + rng.below(3)
    focus = rng.below(n)
    form = rng.choice(RHS_FORMS)
    fkind = rng.choice(["id", "wild", "wild", "named_wild"])
    uniform = form in ("range", "string")       # every element is a Number / a String
    value = d_basic("number") if form == "range" else (STRV if form == "string" else None)
    targets, prints, outs, n_typed = [], [], [], 1
    for i in range(n):
        elem = str(5 + i) if form == "range" else ("xyzw"[i] if form == "string" else str(10 + i))
        if i == focus:
            targets.append({"id": "x: {H}", "wild": "_: {H}", "named_wild": "_q: {H}"}[fkind])
            if fkind == "id":
                prints.append("print koto.type x")
                outs.append(None)
            continue
        k = rng.choice(["id", "id", "typed_id", "wild", "typed_wild"])
        th = "Any" if uniform else rng.choice(["Any", "Number", "Number?"])
        if k == "id":
            targets.append(f"t{i}")
        elif k == "typed_id":
            targets.append(f"t{i}: {th}")
            n_typed += 1
        elif k == "wild":
            targets.append("_")
        else:
            targets.append(f"_: {th}")
            n_typed += 1
        if k in ("id", "typed_id"):
            prints.append(f"print t{i}")
            outs.append(elem)
    elems = [("v" if i == focus else str(10 + i)) for i in range(n)]
    lhs = "let " + ", ".join(targets) + " = "
    if form == "temp":
        lines = [lhs + ", ".join(elems)]
    elif form == "tuple_var":
        lines = ["rhs = (" + ", ".join(elems) + ")", lhs + "rhs"]
    elif form == "list_var":
        lines = ["rhs = [" + ", ".join(elems) + "]", lhs + "rhs"]
    elif form == "call":
        lines = ["pair = || (" + ", ".join(elems) + ")", lhs + "pair()"]
    elif form == "iter":
        lines = [lhs + "(" + ", ".join(elems) + ").iter()"]
    elif form == "generator":
        lines = ["gen = ||"] + ["  yield " + e for e in elems] + [lhs + "gen()"]
    elif form == "range":
        lines = [lhs + f"5..{5 + n}"]
    else:
        lines = [lhs + "'" + "xyzw"[:n] + "'"]
    lines += prints
    name = "ga:%s:%s" % (form, ", ".join(targets))

    def out(d):
        return [py_type_name(d) if o is None else o for o in outs]

    return dyn_template(T(name, A, lines, n_typed, 0, value=value, group="multi-assign (structured)", out=out))


def throwable(d):
    return d["k"] == "string" or is_obj_map(d)


def snippet_src(i, t, d, variant, h, opt):
    lines = [f"print 'A{i}'"]
    lines.append("v = " + koto_expr(d, variant, display=t.throw))
    for l in t.lines:
        lines.append(l.replace("{H}", hint_src(h, opt)))
    if t.kind == K:
        lines.append("print r")
    lines.append(f"print 'B{i}'")
    return lines


def make_case(origin, snippets):
    """snippets: list of (template name, value descriptor, expr variant, hint, opt)"""
    lines = []
    exp_on_out, exp_off_out = [], []
    on_fails = False
    known = None
    n_asserts = n_checks = 0
    for i, (tn, d, variant, h, opt) in enumerate(snippets):
        t = TBYNAME[tn]
        lines += snippet_src(i, t, d, variant, h, opt)
        cv = t.value if t.value is not None else d
        m = py_matches(cv, h, opt)
        n_asserts = None if (n_asserts is None or t.asserts is None) else n_asserts + t.asserts
        n_checks += t.checks
        for out, is_on in ((exp_on_out, True), (exp_off_out, False)):
            if is_on and on_fails:
                continue
            out.append(f"A{i}")
            if t.kind == K:
                out += [t.expect(cv, h, opt) if t.expect else ("hit" if m else "miss"), f"B{i}"]
            elif is_on and not m:
                on_fails = True
                if t.known:
                    known = t.known
            else:
                out += (t.out(cv) if callable(t.out) else t.out) + [f"B{i}"]
    lines.append("7")
    return {
        "origin": origin, "src": "\n".join(lines) + "\n", "snippets": snippets,
        "exp_on": ("EType" if on_fails else "i7", "".join(x + "\n" for x in exp_on_out)),
        "exp_off": ("i7", "".join(x + "\n" for x in exp_off_out)),
        "known": known, "n_asserts": n_asserts, "n_checks": n_checks,
    }


def gen_cases(tier, seed):
    rng = C.Rng(seed)
    cases = []
    vals = [(d, 0) for d in fixed_values()]
    # other surface syntax for the same kinds
    for k, xs in BASIC_EXPR.items():
        for j in range(1, len(xs)):
            vals.append((d_basic(k), j))
    n_fixed = len(vals)
    n_rand = 20 if tier == "quick" else 150
    for _ in range(n_rand):
        vals.append((random_value(rng, 3 if tier == "quick" else 7), 0))

    # 1. the relation itself, exhaustively: every value x every hint through AssertType and CheckType
    #    (quick: CheckType over the fixed values only)
    for vi, (d, var) in enumerate(vals):
        for hi, (h, opt) in enumerate(HINTS):
            # `?` only matters for null: in the quick tier the T? column is complete for null and for a few
            # hint names, and sampled (1 in 4) elsewhere
            if tier == "quick" and opt and d["k"] != "null" and h not in QUICK_OPT_HINTS and (vi + hi // 2) % 4 != 0:
                continue
            cases.append(make_case("matrix:let", [("let", d, var, h, opt)]))
            if tier != "quick" or (var == 0 and vi < n_fixed):
                cases.append(make_case("matrix:match", [("match", d, var, h, opt)]))

    # 2. every other position: per hint a matching, a mismatching and a random value;
    #    per value a matching and a mismatching hint (thorough: more of each)
    for t in TEMPLATES:
        if t.name in ("let", "match"):
            continue
        pool = [(d, var) for d, var in vals if not t.throw or throwable(d)]
        chosen = set()

        def add(di, h, opt):
            key = (di, h, opt)
            if key not in chosen:
                chosen.add(key)
                d, var = pool[di]
                cases.append(make_case("pos:" + t.name, [(t.name, d, var, h, opt)]))

        reps = 1 if tier == "quick" else 6
        for h, opt in HINTS * reps:
            cv = lambda d: t.value if t.value is not None else d
            yes = [i for i, (d, _) in enumerate(pool) if py_matches(cv(d), h, opt)]
            no = [i for i, (d, _) in enumerate(pool) if not py_matches(cv(d), h, opt)]
            if yes:
                add(rng.choice(yes), h, opt)
            if no and (not opt or not yes or reps > 1):
                add(rng.choice(no), h, opt)
        for di, (d, _) in enumerate(pool):
            cvd = t.value if t.value is not None else d
            yes = [(h, o) for h, o in HINTS if h != "Any" and py_matches(cvd, h, o)]
            no = [(h, o) for h, o in HINTS if not py_matches(cvd, h, o)]
            if yes and (di % 2 == 0 or not no or reps > 1):
                add(di, *rng.choice(yes))
            if no and (di % 2 == 1 or not yes or reps > 1):
                add(di, *rng.choice(no))

    # 2b. structured match arms / catch series / multi-assignments
    def pick_pair(t):
        pool = [(d, var) for d, var in vals if not t.throw or throwable(d)]
        d, var = rng.choice(pool)
        cvd = t.value if t.value is not None else d
        yes = [(h, o) for h, o in HINTS if h != "Any" and py_matches(cvd, h, o)]
        no = [(h, o) for h, o in HINTS if not py_matches(cvd, h, o)]
        h, opt = rng.choice(yes) if (yes and rng.chance(2, 5)) or not no else rng.choice(no)
        return d, var, h, opt

    scale = 1 if tier == "quick" else 8
    for maker, origin, count in ((gen_match_template, "structured:match", 1800 * scale),
                                 (gen_catch_template, "structured:catch", 500 * scale),
                                 (gen_multi_assign_template, "structured:multi-assign", 900 * scale),
                                 (gen_return_template, "structured:return", 900 * scale)):
        for _ in range(count):
            t = maker(rng)
            d, var, h, opt = pick_pair(t)
            cases.append(make_case(origin, [(t.name, d, var, h, opt)]))
    if tier != "quick":
        # every (value, hint) pair of the fixed matrix through two structured arms and one catch series
        for d, var in vals[:n_fixed]:
            for h, opt in HINTS:
                for maker, origin in ((gen_match_template, "structured:match"), (gen_match_template, "structured:match"),
                                      (gen_catch_template, "structured:catch")):
                    t = maker(rng)
                    if t.throw and not throwable(d):
                        continue
                    cases.append(make_case(origin, [(t.name, d, var, h, opt)]))

    # 3. several hinted positions in one program (offsets across many asserts; ON stops at the first
    #    mismatching assert, OFF runs through)
    n_multi = 400 if tier == "quick" else 6000
    for _ in range(n_multi):
        k = 2 + rng.below(5)
        sn = []
        want_fail = rng.chance(1, 3)
        for j in range(k):
            r4 = rng.below(9)
            t = (gen_match_template(rng) if r4 == 0 else gen_catch_template(rng) if r4 == 1
                 else gen_multi_assign_template(rng) if r4 == 2 else gen_return_template(rng) if r4 == 3
                 else rng.choice(TEMPLATES))
            pool = [(d, var) for d, var in vals if not t.throw or throwable(d)]
            d, var = rng.choice(pool)
            cvd = t.value if t.value is not None else d
            if t.kind == A and not (want_fail and j == k - 1):
                ok = [(h, o) for h, o in HINTS if py_matches(cvd, h, o)]
                h, opt = rng.choice(ok)
            else:
                h, opt = rng.choice(HINTS)
            sn.append((t.name, d, var, h, opt))
        cases.append(make_case("multi", sn))
    return cases


def load_corpus():
    out = []
    cdir = os.path.join(C.VERIF, "corpus", PID)
    if os.path.isdir(cdir):
        for f in sorted(os.listdir(cdir)):
            for line in open(os.path.join(cdir, f), encoding="utf-8"):
                line = line.strip()
                if line and not line.startswith("#"):
                    c = json.loads(line)
                    out.append({"origin": "corpus", "src": c["src"], "snippets": [],
                                "exp_on": tuple(c["on"]), "exp_off": tuple(c["off"]), "known": c.get("known"),
                                "n_asserts": c.get("asserts"), "n_checks": c.get("checks")})
    return out


# ---------------------------------------------------------------------------
# bytecode listings

def is_assert_row(r):
    return r[2].startswith("AssertType")


def is_check_row(r):
    return r[2].startswith("CheckType")


def resolve(rows):
    """index of the instruction each row jumps to (len(rows) = end of the chunk); None if no offset,
    -1 when the target is not an instruction boundary"""
    idx = {r[0]: i for i, r in enumerate(rows)}
    if rows:
        idx[rows[-1][0] + rows[-1][1]] = len(rows)
    out = []
    for r in rows:
        if r[3] == 0:
            out.append(None)
        else:
            out.append(idx.get(r[0] + r[1] + r[3] * r[4], -1))
    return out


def erase_relation(on, off):
    """OFF == ON minus the asserts, with every jump landing on the corresponding instruction"""
    fails = []
    if any(is_assert_row(r) for r in off):
        fails.append("B1 the code compiled with enable_type_checks=false contains an AssertType instruction")
    keep = [i for i, r in enumerate(on) if not is_assert_row(r)]
    if len(keep) != len(off):
        fails.append(f"B2 ON has {len(keep)} non-assert instructions, OFF has {len(off)}")
        return fails
    newidx = {}
    j = 0
    for i in range(len(on) + 1):
        newidx[i] = j          # an assert maps to the next kept instruction
        if i < len(on) and not is_assert_row(on[i]):
            j += 1
    t_on, t_off = resolve(on), resolve(off)
    for j, i in enumerate(keep):
        a, b = on[i], off[j]
        if a[2] != b[2] or a[1] != b[1] or a[3] != b[3]:
            fails.append(f"B2 instruction {j} differs: ON `{' '.join(a[2].split())}` OFF `{' '.join(b[2].split())}`")
            break
        if a[3] != 0:
            if t_on[i] == -1 or t_off[j] == -1:
                fails.append(f"B3 jump of instruction {j} ({a[2].split()[0]}) does not land on an instruction boundary")
                break
            if newidx[t_on[i]] != t_off[j]:
                fails.append(f"B3 jump of instruction {j} ({a[2].split()[0]}) lands on instruction {t_off[j]} in OFF, "
                             f"expected {newidx[t_on[i]]}")
                break
    return fails


def coq_rows(rows, opids):
    out = []
    for r in rows:
        kind = 0 if is_assert_row(r) else (1 if is_check_row(r) else 2)
        op = opids.setdefault(r[2], len(opids))
        offs = [] if r[3] == 0 else [(r[3] < 0, r[4])]
        out.append((kind, r[1], op, offs))
    return out


def flat_rows(rows):
    out = []
    for k, l, op, offs in rows:
        out += [k, l, op] + ([0, 0] if not offs else [2 if offs[0][0] else 1, offs[0][1]])
    return out


def coq_rows_term(rows):
    return "[" + "; ".join(str(x) for x in flat_rows(rows)) + "]"


# ---------------------------------------------------------------------------

def run_harness(binp, cases, tag, digest=None):
    os.makedirs(os.path.join(C.BUILD, "cases"), exist_ok=True)
    nshard = max(1, min(C.NPROC, len(cases) // 200 + 1))
    size = (len(cases) + nshard - 1) // nshard
    files = []
    part_of = {}
    for s in range(nshard):
        part = cases[s * size:(s + 1) * size]
        if not part:
            continue
        cf = os.path.join(C.BUILD, "cases", f"c16-{tag}-{os.getpid()}-{s}.jsonl")
        with open(cf, "w") as f:
            for c in part:
                f.write(json.dumps({"src": c["src"], "bc": True, "limit_ms": 5000}) + "\n")
        files.append((cf, len(part)))
        part_of[cf] = part

    def one(a):
        cf, n = a
        rc, out = C.sh([binp, cf], timeout=3000)
        os.remove(cf)
        lines = [json.loads(l) for l in out.splitlines() if l.startswith("{")]
        if rc != 0 or len(lines) != n:
            return None, f"rc={rc} lines={len(lines)}/{n}: {out[-800:]}"
        if digest:
            for c, r in zip(part_of[cf], lines):
                digest(c, r)
        return lines, ""

    res = []
    with concurrent.futures.ThreadPoolExecutor(max_workers=C.NPROC) as ex:
        for lines, err in ex.map(one, files):
            if lines is None:
                return None, err
            res += lines
    return res, ""


def batched_eval(chk, header, terms, tag, batch):
    """coq_eval with `batch` terms per vm_compute (one list-valued term each)"""
    groups = [terms[i:i + batch] for i in range(0, len(terms), batch)]
    try:
        vals = C.coq_eval(UNIT, header, ["[" + "; ".join(g) + "]" for g in groups], tag=tag, per_shard=2)
    except RuntimeError as e:
        chk.log(str(e)[-3000:])
        return None
    out = []
    for g, v in zip(groups, vals):
        if len(v) != len(g):
            chk.log(f"{tag}: batch of {len(g)} terms gave {len(v)} values")
            return None
        out += v
    return out


def judge(case, r):
    """the clauses of C16 on the implementation's own behaviour.  returns (failures, known_hit)"""
    fails = []
    known = None
    for side in ("on", "off"):
        if "panic" in r[side]:
            fails.append(f"P {side.upper()} run panicked: {r[side]['panic']} at {r[side].get('at')}")
    if fails:
        return fails, known
    on = (r["on"]["result"], r["on"]["out"])
    off = (r["off"]["result"], r["off"]["out"])
    if case["exp_on"][0] == "E*" and on[0].startswith("E"):      # corpus: any error class
        on = ("E*", on[1])
    if on != tuple(case["exp_on"]):
        if case.get("known") and on == tuple(case["exp_off"]):
            known = case["known"]
        else:
            fails.append(f"D1 checks ON: expected {tuple(case['exp_on'])}, koto gives {on}")
    if off != tuple(case["exp_off"]):
        fails.append(f"D2 checks OFF: expected {tuple(case['exp_off'])}, koto gives {off}")
    if tuple(case["exp_on"]) == tuple(case["exp_off"]) and on != off and not fails:
        fails.append(f"D3 the ON run passed all checks but the OFF run differs: ON {on} OFF {off}")
    bc = r.get("bc") or {}
    if "on" not in bc:
        fails.append(f"B0 no bytecode listing: {json.dumps(bc)[:300]}")
        return fails, known
    if not bc.get("consts_eq"):
        fails.append("B4 the constant pools of the ON and OFF compilations differ")
    fails += erase_relation(bc["on"], bc["off"])
    na = sum(1 for x in bc["on"] if is_assert_row(x))
    nc_on = sum(1 for x in bc["on"] if is_check_row(x))
    nc_off = sum(1 for x in bc["off"] if is_check_row(x))
    if nc_on != nc_off:
        fails.append(f"B5 CheckType instructions: {nc_on} with checks ON, {nc_off} with checks OFF")
    if case.get("n_checks") is not None and nc_on != case["n_checks"]:
        fails.append(f"B5 expected {case['n_checks']} CheckType instructions, found {nc_on}")
    has_known = bool(case.get("known")) or any(TBYNAME[s[0]].known for s in case["snippets"])
    if case.get("n_asserts") is not None and na != case["n_asserts"] and not has_known:
        fails.append(f"B6 expected {case['n_asserts']} AssertType instructions, found {na}")
    return fails, known


KNOWN_TEXT = {}     # C16a (ignored typed rebind in map-destructuring assignments never checked) was fixed in /repo


def run(tier, seed):
    chk = C.Check(PID, tier, seed, "proof")
    # ---- tie: the exit paths of functions with an output type, regenerated from compiler.rs
    try:
        info, _ = k2v_types.gen_output_sites(os.path.join(C.COQ, UNIT, "GenOutputSites.v"),
                                             os.path.join(C.BUILD, "gen", f"output_sites-{C.repo_tag()}.json"))
        unchecked = [f"{p['fn']} exit #{p['ordinal']} (line {p['line_in_fn']} of the fn)" for p in info["paths"]
                     if not p["checked"]]
        chk.oblige("gen:every Return/Yield pushed by compile_return / compile_frame / compile_yield is dominated by "
                   "compile_check_output_type", not unchecked, "; ".join(unchecked))
        if unchecked:
            chk.log("exit paths without an output type check: " + "; ".join(unchecked))
        gen_ok = True
    except GenError as e:
        gen_ok = False
        chk.oblige("gen:output-sites (k2v_types)", False, str(e))
        chk.log(f"translator failed: {e}")
    # ---- T
    main_targets = [f[:-2] + ".vo" for f in sorted(os.listdir(os.path.join(C.COQ, UNIT)))
                    if f.endswith(".v") and not f.startswith(("Gen", "C16SitesProps", "cases_"))]
    ok, log = C.coq_build(UNIT, main_targets)
    if not ok:
        chk.log("coq/types does not build:\n" + log[-2500:])
    if gen_ok:
        sp = C.check_props_file(UNIT, "C16SitesProps", SITES_PINNED)
        for name in SITES_PINNED:
            chk.oblige("thm:" + name, sp["ok"] and name not in sp["missing"] and not sp["bad_axioms"])
        if not sp["ok"]:
            chk.log("C16SitesProps does not check:\n" + sp["log"][-800:])
    else:
        for name in SITES_PINNED:
            chk.oblige("thm:" + name, False, "GenOutputSites.v could not be regenerated")
    pr = C.check_props_file(UNIT, "C16Props", PINNED)
    hits = C.forbidden_scan(UNIT)
    if not pr["ok"]:
        chk.log("C16Props does not check:\n" + pr["log"][-2500:])
    for name in PINNED:
        good = ok and pr["ok"] and name not in pr["missing"] and ("Print Assumptions " + name) not in pr["missing"] \
            and not pr["bad_axioms"] and not hits
        chk.oblige("thm:" + name, good)
    if hits:
        chk.log("forbidden constructs: " + "; ".join(hits))
    if pr.get("bad_axioms"):
        chk.log("axioms outside the allowlist: " + ", ".join(pr["bad_axioms"]))
    axioms = pr.get("axioms", [])
    model_ok = ok and pr["ok"]

    # ---- implementation
    binp, blog = C.build_harness("kh_types")
    if not binp:
        chk.log("harness build failed:\n" + blog[-3000:])
        chk.violation("build", {"kind": "obligation", "correspondence": "kh_types does not build against the koto checkout",
                                "log": blog[-3000:]}, no_input=True)
        return chk.finish("n/a")
    chk.log(f"theorems checked at {time.time() - chk.t0:.0f}s")
    cases = load_corpus() + gen_cases(tier, seed)
    shapes = set()
    opids = {}

    def digest(c, r):
        """judge at once and keep the listings of new shapes only (memory)"""
        if r["on"].get("result") == "ECompile" and c["origin"] != "corpus":
            r["_fails"], r["_known"] = [], None
        else:
            r["_fails"], r["_known"] = judge(c, r)
        bc = r.get("bc") or {}
        if "on" in bc and not any(x[2].startswith("Error") for x in bc["on"] + bc["off"]):
            on_rows = coq_rows(bc["on"], opids)
            shape = tuple((k, l, tuple(o)) for k, l, _, o in on_rows)
            if shape not in shapes:
                shapes.add(shape)
                r["_rows"] = (on_rows, coq_rows(bc["off"], opids))
        r.pop("bc", None)

    impl, err = run_harness(binp, cases, tier, digest)
    chk.log(f"{len(cases)} programs run (ON, OFF, both listings) at {time.time() - chk.t0:.0f}s")
    if impl is None:
        chk.log("harness run failed: " + err)
        chk.violation("harness", {"kind": "obligation", "correspondence": "kh_types crashed", "log": err}, no_input=True)
        return chk.finish("n/a")

    # ---- D
    dist = {}
    groups = {}
    d_fail = []
    compile_errors = []
    dup_sites = set()
    for i, (c, r) in enumerate(zip(cases, impl)):
        dist[c["origin"]] = dist.get(c["origin"], 0) + 1
        for s in c["snippets"]:
            g = TBYNAME[s[0]].group
            groups[g] = groups.get(g, 0) + 1
        if r["on"].get("result") == "ECompile" and c["origin"] != "corpus":
            compile_errors.append((i, r["on"].get("msg", "")[:200]))
            continue
        fails, known = r["_fails"], r["_known"]
        if known:
            chk.known(KNOWN_TEXT.get(known, known))
        if fails:
            d_fail.append((i, fails))
        nontrivial = bool(c["snippets"]) and any(
            not py_matches(TBYNAME[s[0]].value or s[1], s[3], s[4]) for s in c["snippets"])
        chk.count_case(c["src"], nontrivial)
        for s in c["snippets"]:
            t = TBYNAME[s[0]]
            if len(c["snippets"]) == 1 and t.asserts == 2 and t.name not in ("multi_temp", "ret_early", "ret_explicit", "yield_second"):
                dup_sites.add(t.name)
    chk.oblige("gen:all generated programs compile", not compile_errors,
               "; ".join(f"{cases[i]['src']!r}: {m}" for i, m in compile_errors[:3]))
    if dup_sites:
        chk.notes.append("compile_assign_to_map_finish emits the AssertType of a hinted map-pattern entry twice "
                         "(harmless duplicate; seen for: " + ", ".join(sorted(dup_sites)) + ")")

    # ---- R (i): the Coq compare_value_type vs koto through `let` and `match`
    disagreements = []
    spec_model = []
    if model_ok:
        triples = {}
        for i, (c, r) in enumerate(zip(cases, impl)):
            if len(c["snippets"]) != 1 or c["snippets"][0][0] not in ("let", "match"):
                continue
            tn, d, var, h, opt = c["snippets"][0]
            key = (coq_term(d), h, opt)
            ent = triples.setdefault(key, {"d": d, "let": None, "match": None, "case": i})
            if "panic" in r["on"]:
                continue
            if tn == "let":
                ent["let"] = r["on"]["result"] != "EType"
            else:
                ent["match"] = r["on"]["out"].split("\n")[1] == "hit" if r["on"]["out"].count("\n") >= 2 else None
        keys = sorted(triples)
        vterms = sorted({k[0] for k in keys})
        header = "From Coq Require Import String List NArith.\nImport ListNotations.\n" \
                 "From KV.types Require Import TypesModel TypesRun.\nOpen Scope string_scope.\n"
        hs = "[" + "; ".join('"%s"' % h for h in HINT_NAMES) + "]"
        vgroups = [vterms[i:i + 25] for i in range(0, len(vterms), 25)]
        try:
            mats = C.coq_eval(UNIT, header, [f"tm_matrix [{'; '.join(g)}] {hs}" for g in vgroups], tag="c16tm",
                              per_shard=1)
            table = {}
            for g, mat in zip(vgroups, mats):
                for vt, rowv in zip(g, mat):
                    for hi, h in enumerate(HINT_NAMES):
                        table[(vt, h, False)] = rowv[2 * hi]
                        table[(vt, h, True)] = rowv[2 * hi + 1]
            vals = [table[k] for k in keys]
        except (RuntimeError, KeyError, IndexError) as e:
            chk.log(str(e)[-3000:])
            vals = None
        if vals is None:
            chk.oblige("corr:model-evaluates", False)
        else:
            for key, v in zip(keys, vals):
                ent = triples[key]
                mb, (ea, ec) = bool(v[0]), v[1]
                if ea != (0 if mb else 2) or ec != (0 if mb else 1):
                    disagreements.append((ent["case"], f"model effects inconsistent {v}"))
                if ent["let"] is not None and ent["let"] != mb:
                    disagreements.append((ent["case"], f"compare_value_type: model {mb}, koto `let` {'passes' if ent['let'] else 'raises'}"))
                if ent["match"] is not None and ent["match"] != mb:
                    disagreements.append((ent["case"], f"compare_value_type: model {mb}, koto `match` {'hit' if ent['match'] else 'miss'}"))
                if py_matches(ent["d"], key[1], key[2]) != mb:
                    spec_model.append((ent["case"], f"documented relation (python) {not mb}, Coq model {mb}"))
            chk.oblige(f"corr:compare_value_type model-vs-koto on {len(keys)} (value, hint, ?) triples via let and match",
                       not disagreements, f"{len(disagreements)} disagreements")
            chk.oblige("corr:python relation == Coq model on the same triples", not spec_model,
                       f"{len(spec_model)} disagreements")
        # ---- R (iii): the emission-site table of SitesModel == the template table used here (whose counts are
        #      compared with the real bytecode of every program: B5 / B6)
        try:
            st = C.coq_eval(UNIT, "From Coq Require Import NArith List.\nImport ListNotations.\nFrom KV.types Require Import SitesModel.\n",
                            ["site_table"], tag="c16st")[0]
            mine = [[0 if t.kind == A else 1, [t.asserts, t.checks]] for t in TEMPLATES]
            chk.oblige("corr:SitesModel table == template table (== AssertType/CheckType counts in real bytecode)",
                       st == mine, "" if st == mine else f"coq {st} python {mine}")
        except RuntimeError as e:
            chk.log(str(e)[-2000:])
            chk.oblige("corr:SitesModel evaluates", False)
        chk.log(f"relation correspondence done at {time.time() - chk.t0:.0f}s")
        # ---- R (ii): the Coq erase on real ON listings vs real OFF listings
        seen = {}
        for i, r in enumerate(impl):
            if "_rows" in r:
                on_rows, off_rows = r["_rows"]
                seen[coq_rows_term(on_rows)] = (i, off_rows)
        keys = sorted(seen, key=lambda k: seen[k][0])
        n_shapes = len(keys)
        cap = 400 if tier == "quick" else 3000
        if len(keys) > cap:
            rng = C.Rng(seed + 17)
            keys = sorted(keys, key=lambda k: (seen[k][0] * 2654435761 + rng.s) % 1000003)[:cap]
        header = "From Coq Require Import List NArith.\nImport ListNotations.\n" \
                 "From KV.types Require Import TypesRun.\nOpen Scope N_scope.\n"
        vals = batched_eval(chk, header, [f"erase_flat {k}" for k in keys], "c16er", 50)
        er_dis = []
        if vals is None:
            chk.oblige("corr:erase-evaluates", False)
        else:
            for k, v in zip(keys, vals):
                i, off_rows = seen[k]
                if v != flat_rows(off_rows):
                    er_dis.append((i, "erase(ON listing) != OFF listing"))
            chk.oblige(f"corr:Coq erase(ON bytecode) == OFF bytecode on {len(keys)} of {n_shapes} distinct listing shapes", not er_dis,
                       f"{len(er_dis)} disagreements")
            disagreements += er_dis
    else:
        chk.oblige("corr:model available", False, "coq/types does not build")

    # ---- verdict
    def size_key(x):
        return (len(cases[x[0]]["snippets"]), len(cases[x[0]]["src"]))

    if d_fail:
        d_fail.sort(key=size_key)
        i, fails = d_fail[0]
        chk.violation("input", {
            "kind": "input", "src": cases[i]["src"], "origin": cases[i]["origin"],
            "expected_on": cases[i]["exp_on"], "expected_off": cases[i]["exp_off"],
            "n_asserts": cases[i]["n_asserts"], "n_checks": cases[i]["n_checks"], "known": cases[i].get("known"),
            "impl_on": impl[i]["on"], "impl_off": impl[i]["off"], "predicate_failed": fails,
            "others": len(d_fail) - 1, "how_to_rerun": "./check C16 --replay <this file>"})
        chk.log(f"{len(d_fail)} programs violate C16 on the implementation; smallest:\n{cases[i]['src']}{fails[:3]}")
    broken = [o for o in chk.obligations if not o[1]]
    if broken and not d_fail:
        payload = {"kind": "obligation", "broken": [o[0] + (": " + o[2] if o[2] else "") for o in broken]}
        alldis = disagreements + spec_model
        if alldis:
            alldis.sort(key=size_key)
            i, what = alldis[0]
            payload.update({"smallest_disagreement": {"src": cases[i]["src"], "what": what, "impl_on": impl[i]["on"]},
                            "note": "koto's own behaviour satisfies every clause of C16 on every explored program, but "
                                    "it no longer matches the model the theorems are about"})
            chk.log(f"{len(alldis)} model/impl disagreements; smallest: {what}\n{cases[i]['src']}")
        chk.violation("obligation", payload, no_input=True)

    tb = ["Coq 8.16.1 kernel (coqc); vm_compute for evaluating the model in the correspondence check",
          "axioms reported by Print Assumptions: " + (", ".join(axioms) if axioms else "none (closed under the global context)"),
          "erase_asserts_sim is stated for an abstract VM state and instruction semantics under two explicit "
          "hypotheses: type checks do not look at code addresses (view_mapS) and every instruction other than "
          "AssertType/CheckType treats code addresses opaquely (sem_natural); the compiler itself is not modelled: "
          "OFF = erase(ON) is checked on the real bytecode of every generated program",
          "value abstraction (kind, metamap flags, @type entry, @base chain) written by hand from value.rs / map.rs; "
          "@base chains are finite (metamaps are only filled while a map literal is being built)",
          "kh_types (Rust harness: ON/OFF runs, InstructionReader listings) and checks/c16.py (expected outcomes "
          "from the language guide's relation, listing comparison)"]
    return chk.finish(
        rule="programs = hint position (template) x hint name (+/- ?) x value; committed corpus, then the full "
             "value x hint matrix through `let` and `match`, then per position a matching / mismatching / random value per "
             "hint and a matching / mismatching hint per value (thorough: six of each and more random @base chains), then seeded multi-snippet "
             "programs; non-trivial = at least one hint in the program does not match; distinct by source text",
        explanation="theorems over the compare_value_type / erase models; model-vs-koto on the relation and on real "
                    "bytecode; C16's clauses evaluated on koto's ON and OFF runs of every program",
        trusted_base=tb,
        extra={"distribution": dist, "hint_positions": groups, "templates": len(TEMPLATES), "values": None,
               "exhaustive": False, "model_impl_disagreements": len(disagreements)})


def replay(path, args):
    data = json.load(open(path))
    src = data.get("src") or data.get("smallest_disagreement", {}).get("src")
    if src is None:
        print("replay file names an obligation, not an input:", json.dumps(data.get("broken")))
        return run("quick", data.get("seed", 1))
    binp, blog = C.build_harness("kh_types")
    if not binp:
        print(blog[-2000:])
        return 3
    case = {"origin": "replay", "src": src, "snippets": [],
            "exp_on": tuple(data.get("expected_on") or ()), "exp_off": tuple(data.get("expected_off") or ()),
            "known": data.get("known"), "n_asserts": data.get("n_asserts"), "n_checks": data.get("n_checks")}
    impl, err = run_harness(binp, [case], "replay")
    if impl is None:
        print(err)
        return 3
    r = impl[0]
    print(src)
    print("ON :", json.dumps(r["on"]))
    print("OFF:", json.dumps(r["off"]))
    if not case["exp_on"]:
        print("no expectation recorded in the replay file (model/implementation disagreement): re-running the check")
        return run("quick", data.get("seed", 1))
    fails, known = judge(case, r)
    for f in fails:
        print("  " + f)
    if fails:
        print(f"VIOLATION property={PID} replay={path}")
        return 1
    print("no clause of C16 fails on this input" + (f" (known finding {known})" if known else ""))
    return 0
