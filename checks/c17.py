"""C17  Objects: operators and protocols dispatch to metamap entries as documented.

T  theorems in coq/obj/C17Props.v about the dispatch model (arm lists transcribed from vm.rs)
   and the guide's rules (ObjSpec.v), over the whole finite domain / all @base chains
R  correspondence: generated object definitions x operations x operand kinds run on the real VM
   (kh_obj), event trace + result class compared with the model's action
D  the guide's rules (lhs first, rhs fallback, derived comparisons, unimplemented => error)
   computed here in Python, independently of the Coq model, on the implementation's own output
"""
import itertools
import json
import os

from vlib import common as C
from tools import k2v, k2v_obj

PID = "C17"
UNIT = "obj"

PINNED = [
    "dispatch_refines_spec", "c17a_refuted", "rhs_fallback_iff", "only_arithmetic_asks_rhs",
    "errors_propagate_unchanged", "no_frame_left_behind", "derived_comparisons",
    "access_chain_order", "access_first_hit_is_first", "access_found_wins", "access_override_precedes_iterator_fallback", "shared_meta_equiv",
    "object_unimplemented_is_error", "dispatch_keys_complete",
]

ARITH = [("Add", "+"), ("Sub", "-"), ("Mul", "*"), ("Div", "/"), ("Rem", "%"), ("Pow", "^")]
CMP = [("Lt", "<"), ("Le", "<="), ("Gt", ">"), ("Ge", ">="), ("Eq", "=="), ("Ne", "!=")]
DERIVED4 = ["@<=", "@>", "@>=", "@!="]
UOPS = ["UNeg", "USizeOf", "UDisp", "UDbg", "UCallOp", "UFor", "UToTuple", "UReversed"]

PLAIN = ["null", "bool", "number", "str", "list", "tuple", "range", "fn", "iter"]
PLAIN_COQ = {"null": "VNull", "bool": "VBool", "number": "VNumber", "str": "VStr", "list": "VList",
             "tuple": "VTuple", "range": "VRange", "fn": "VFunction", "iter": "VIterator"}
LIT = {
    "L": {"null": "null", "bool": "true", "number": "7", "str": "'lmno'", "list": "[7, 8, 9, 10]",
          "tuple": "(7, 8, 9, 10)", "range": "7..17", "fn": "|x| 'called'", "iter": "(7, 8).iter()"},
    "R": {"null": "null", "bool": "false", "number": "3", "str": "'r'", "list": "[3]",
          "tuple": "(3, 4)", "range": "1..3", "fn": "|x| x", "iter": "(3, 4).iter()"},
}
DESC = {
    "L": {"null": "null", "bool": "btrue", "number": "n7", "str": "s:lmno", "list": "list[n7]",
          "tuple": "tuple[n7]", "range": "range7", "fn": "fn", "iter": "iter"},
    "R": {"null": "null", "bool": "bfalse", "number": "n3", "str": "s:r", "list": "list[n3]",
          "tuple": "tuple[n3]", "range": "range1", "fn": "fn", "iter": "iter"},
}
RT_BODY = {"rt_type": "1 + true", "rt_access": "{}.missing", "rt_assert": "assert false", "rt_deep": "boom2()",
           "rt_arity": "(|q| q)(1, 2)"}
RT_CLASS = {"rt_type": {"EBinaryOp"}, "rt_access": {"ENotFound", "EString"}, "rt_assert": {"EAssert", "EString"},
            "rt_deep": {"EBinaryOp"}, "rt_arity": {"EArgs"}}
RT_KINDS = sorted(RT_BODY)
ERR_BEH = {"err", "unimpl"} | set(RT_KINDS)
FRES_COQ = {"rt_type": "FErr Runtime", "rt_access": "FErr Runtime", "rt_assert": "FErr Runtime", "rt_deep": "FErr Runtime",
            "rt_arity": "FErr Runtime",
            "val": "FVal", "true": "FBool true", "false": "FBool false", "null": "FNull", "seq": "FSeq",
            "unimpl": "FUnimpl", "err": "FErr Thrown"}

ARGC = {"@index": 1, "@index_assign": 2, "@access": 1, "@access_assign": 2, "@call": 1}
UNARY_KEYS = {"@negate", "@size", "@display", "@debug", "@iterator", "@next", "@next_back"}


class Tables:
    def __init__(self, info):
        self.info = info
        self.spell2term = {}
        for _, row in info["ids"].items():
            if row["key"] in info["op_metakeys"]:
                self.spell2term[row["spelling"]] = row["key"]
        self.index = {t: i for i, t in enumerate(info["op_metakeys"])}
        self.idx2spell = {self.index[t]: s for s, t in self.spell2term.items()}


# ---------------------------------------------------------------------------
# kinds:  ("plain", name) | ("map", frozenset(spellings), variant) | ("obj", frozenset(spellings))
# map variants: "own" | "shared" (map.with_meta) | "decoy" (the keys sit in the metamap of @base:
# operators are NOT inherited, so the model kind is VMap [])

def kind_coq(T, k):
    if k[0] == "plain":
        return PLAIN_COQ[k[1]]
    keys = sorted(k[1])
    if k[0] == "map" and k[2] == "decoy":
        keys = []
    body = "[" + "; ".join(T.spell2term[s] for s in keys) + "]"
    return ("VMap " if k[0] == "map" else "VObject ") + body


def kind_desc(side, k):
    return DESC[side][k[1]] if k[0] == "plain" else side


def fn_body(side, key, beh):
    tag = f"'{side}{key}'"
    if key in ("@next", "@next_back"):
        if beh == "val":
            return [f"cnt{side}[0] = cnt{side}[0] + 1", f"if cnt{side}[0] <= 2 then {tag} else null"]
    if key == "@iterator":
        if beh == "val":
            return [f"({tag}, {tag}).iter()"]
        if beh == "seq":
            return [f"[{tag}, {tag}]"]
    if beh in RT_BODY:
        return [RT_BODY[beh]]
    return {"val": [tag], "true": ["true"], "false": ["false"], "null": ["null"], "seq": [f"[{tag}]"],
            "unimpl": ["throw koto.unimplemented"], "err": ["throw 'boom'"]}[beh]


def fn_def(side, key, beh, indent):
    n = 0 if key in UNARY_KEYS else ARGC.get(key, 1)
    params = ", ".join(f"a{i}" for i in range(n))
    pad = " " * indent
    lines = [f"{pad}{key}: |{params}|", f"{pad}  ev '{side}{key}', self" + "".join(f", a{i}" for i in range(n))]
    lines += [f"{pad}  {l}" for l in fn_body(side, key, beh)]
    return lines


def define(side, k, oracle):
    """koto source lines defining the variable `side`"""
    if k[0] == "plain":
        return [f"{side} = {LIT[side][k[1]]}"]
    beh = {key: oracle.get((side, key), "val") for key in k[1]}
    if k[0] == "obj":
        keys = sorted(k[1])
        if not keys:
            return [f"{side} = bare '{side}'"]
        ctor = "host4" if set(keys) & set(DERIVED4) else "host"
        kl = ", ".join(f"'{x}'" for x in keys)
        bl = ", ".join(f"'{x}': '{'rt' if beh[x] in RT_BODY else beh[x]}'" for x in keys)
        return [f"{side} = {ctor} '{side}', [{kl}], {{{bl}}}"]
    keys = sorted(k[1])
    variant = k[2]
    lines = [f"cnt{side} = [0]"]
    extra = ", a: 1, b: 2, c: 3" if side == "L" else ""
    if not keys:
        return lines + [f"{side} = {{id: '{side}'{extra}}}"]
    if variant == "own":
        lines.append(f"{side} =")
        lines.append(f"  id: '{side}'")
        if side == "L":
            lines += ["  a: 1", "  b: 2", "  c: 3"]
        for key in keys:
            lines += fn_def(side, key, beh[key], 2)
    elif variant == "shared":
        lines.append(f"{side}meta =")
        for key in keys:
            lines += fn_def(side, key, beh[key], 2)
        lines.append(f"{side} = {{id: '{side}'{extra}}}.with_meta {side}meta")
    else:  # decoy: operator keys only in the base's metamap
        lines.append(f"{side}base =")
        lines.append(f"  idb: 'base'")
        for key in keys:
            lines += fn_def(side, key, beh[key], 2)
        lines.append(f"{side} =")
        lines.append(f"  id: '{side}'")
        if side == "L":
            lines += ["  a: 1", "  b: 2", "  c: 3"]
        lines.append(f"  @base: {side}base")
    return lines


def op_coq(op):
    kind, name = op
    return {"arith": f"OpArith {name}", "assign": f"OpAssign {name}", "cmp": f"OpCmp {name}",
            "unary": f"OpUnary {name}", "index": "OpIndex", "index_assign": "OpIndexAssign",
            "access_assign": "OpAccessAssign"}[kind]


def op_stmt(op):
    kind, name = op
    if kind == "arith":
        return [f"L {dict(ARITH)[name]} R"]
    if kind == "assign":
        return ["X = L", f"X {dict(ARITH)[name]}= R", "X"]
    if kind == "cmp":
        return [f"L {dict(CMP)[name]} R"]
    if kind == "index":
        return ["L[R]"]
    if kind == "index_assign":
        return ["L[R] = 5", "L"]
    if kind == "access_assign":
        return ["L.foo = 5", "L"]
    if kind == "access":
        return ["L.foo"]
    return {"UNeg": ["-L"], "USizeOf": ["size L"], "UDisp": ["\"{L}\""], "UDbg": ["\"{L:?}\""],
            "UCallOp": ["L(R)"], "UFor": ["out = []", "for v in L", "  out.push v", "out"],
            "UToTuple": ["L.to_tuple()"], "UReversed": ["L.reversed().to_tuple()"]}[name]


PRELUDE = ["boom1 = || 1 + true", "boom2 = || boom1()"]
FOLLOW_UP = ["ev 'after'", "FU =", "  id: 'FU'", "  @+: |o| 'fu'", "fu1 = FU + 1", "fu2 = (|| 7)()", "[res, fu1, fu2]"]


def make_script(case):
    """ctx None: the operation at top level.  ctx d in 0..2: the operation runs d ordinary function
    calls below a try / catch / finally, itself inside an outer try; afterwards the same VM does a
    follow-up operator dispatch and an ordinary call"""
    defs = PRELUDE + define("L", case["l"], case["oracle"]) + define("R", case["r"], case["oracle"])
    d = case.get("ctx")
    if d is None:
        return "\n".join(defs + op_stmt(case["op"])) + "\n"
    lines = defs + ["res = []", "f0 = ||"] + ["  " + l for l in op_stmt(case["op"])]
    lines += ["f1 = || f0()", "f2 = || f1()",
              "inner = ||", "  try", f"    res.push (f{d}())", "  catch e", "    ev 'catch-inner'", "    res.push 'caught'",
              "  finally", "    ev 'finally'",
              "outer = ||", "  try", "    inner()", "  catch e2", "    ev 'catch-outer'",
              "outer()"] + FOLLOW_UP
    return "\n".join(lines) + "\n"


WRAP_PREFIX, WRAP_SUFFIX = "L[L[", '],s"fu",i7]'


def unwrap_result(result):
    """the operation's own result inside the wrapped script's [res, fu1, fu2]"""
    if result.startswith(WRAP_PREFIX) and result.endswith(WRAP_SUFFIX):
        return result[len(WRAP_PREFIX):-len(WRAP_SUFFIX)]
    return None


def case_term(T, case):
    orc = "; ".join(f"({s}, {T.spell2term[k]}, {FRES_COQ[b]})" for (s, k), b in sorted(case["oracle"].items()))
    return f"run_case ({op_coq(case['op'])}) ({kind_coq(T, case['l'])}) ({kind_coq(T, case['r'])}) [{orc}]"


# ---------------------------------------------------------------------------
# expected observables from the model's encoded action

ERR_CLASSES = {0: {"EBinaryOp"}, 1: {"EUnimpl"}, 2: {"EThrown(O)"}, 3: {"EThrown(s\"boom\")", "EArgs"},
               4: {"EType"}, 5: {"EString", "ENotFound", "EIndex", "EAssert"}}   # 5: any ErrorKind::StringError


def expected_trace(T, case, events):
    out = []
    dotkey = {"UToTuple": "s:to_tuple", "UReversed": "s:reversed"}.get(case["op"][1], "s:foo")
    role = {0: kind_desc("L", case["l"]), 1: kind_desc("R", case["r"]), 2: dotkey, 3: "n5"}
    for e in events:
        side = "LR"[e[0]]
        out.append([side + T.idx2spell[e[1]]] + [role[w] for w in e[2:]])
    return out


def expected_full_trace(T, case, events, outcome):
    et = expected_trace(T, case, events)
    if case.get("ctx") is not None:
        et = et + ([["catch-inner"]] if outcome[0] == 6 else []) + [["finally"], ["after"]]
    return et


def full_result_matches(T, case, events, outcome, result):
    if case.get("ctx") is None:
        return result_matches(T, case, outcome, result, events)
    inner = unwrap_result(result)
    if inner is None:
        return False
    if outcome[0] == 6:
        return inner == 's"caught"'
    return result_matches(T, case, outcome, inner, events)


def result_matches(T, case, outcome, result, events=()):
    """does the implementation's canonical result fit the model's outcome?"""
    tag = outcome[0]
    lk = case["l"]
    if tag == 0:
        side = "LR"[outcome[1]]
        sp = T.idx2spell[outcome[2]]
        k = case["l"] if side == "L" else case["r"]
        if k[0] == "obj" and sp == "@size":
            return result == "i2"
        beh = case["oracle"].get((side, sp), "val")
        if beh in ("null", "true", "false"):     # the function's own return value
            return result == {"null": "n", "true": "t", "false": "f"}[beh]
        return result == f's"{side}{sp}"'
    if tag in (1, 5):
        return result == ("t" if outcome[1] else "f")
    if tag == 2:
        return result == "O" if lk[0] == "obj" else result.startswith('M{s"id"=s"L"')
    if tag == 3:
        n = outcome[1]
        side = "LR"[outcome[2]]
        sp = T.idx2spell[outcome[3]]
        items = ",".join([f's"{side}{sp}"'] * n)
        return result == (f"L[{items}]" if case["op"][1] == "UFor" else f"T({items})")
    if tag == 4:
        return not result.startswith("E")
    if tag == 6 and outcome[1] == 6:
        # the runtime error raised inside the last function that ran
        if not events:
            return False
        e = events[-1]
        side = "LR"[e[0]]
        k = case["l"] if side == "L" else case["r"]
        beh = case["oracle"].get((side, T.idx2spell[e[1]]), "val")
        return result in ({"EType"} if k[0] == "obj" else RT_CLASS.get(beh, set()))
    if tag == 6:
        return result in ERR_CLASSES[outcome[1]]
    return False


# ---------------------------------------------------------------------------
# case generation

def subsets(xs):
    xs = list(xs)
    for n in range(len(xs) + 1):
        for c in itertools.combinations(xs, n):
            yield frozenset(c)


def inspected(op):
    kind, name = op
    if kind == "arith":
        s = dict(ARITH)[name]
        return ["@" + s, "@r" + s]
    if kind == "assign":
        return ["@" + dict(ARITH)[name] + "="]
    if kind == "cmp":
        own = "@" + dict(CMP)[name]
        return {"Lt": [own], "Eq": [own], "Ne": [own, "@=="], "Ge": [own, "@<"]}.get(name, [own, "@<", "@=="])
    if kind == "index":
        return ["@index"]
    if kind == "index_assign":
        return ["@index_assign"]
    if kind == "access_assign":
        return ["@access_assign"]
    if kind == "access":
        return ["@access"]
    return {"UNeg": ["@negate"], "USizeOf": ["@size"], "UDisp": ["@display"], "UDbg": ["@debug", "@display"],
            "UCallOp": ["@call"], "UFor": ["@next", "@iterator"], "UToTuple": ["@next", "@iterator", "@access"],
            "UReversed": ["@next", "@next_back", "@iterator", "@access"]}[name]


_rt_rot = [0]


def behaviours(op, side, key, is_obj):
    """oracle values worth exploring for the function under `key`; one (rotating) kind of runtime
    error stands for all of them here -- gen_error_family covers every kind on every call path"""
    base = behaviours0(op, side, key, is_obj)
    if "err" in base:
        _rt_rot[0] += 1
        base = base + [RT_KINDS[_rt_rot[0] % len(RT_KINDS)]]
    return base


def behaviours0(op, side, key, is_obj):
    kind, name = op
    if kind == "arith":
        return ["val", "unimpl", "err"] + ([] if is_obj else ["null"])
    if kind == "cmp":
        return ["true", "false", "unimpl", "err"] + ([] if is_obj else ["val"])
    if key == "@iterator":
        return ["val", "unimpl", "err"] + ([] if is_obj else ["seq", "null"])
    if key in ("@next", "@next_back"):
        return ["val", "null"] + ([] if is_obj else ["unimpl", "err"])
    if key in ("@display", "@debug"):
        return ["val", "unimpl", "err"] + ([] if is_obj else ["null"])
    if key == "@size" and is_obj:
        return ["val"]
    return ["val", "unimpl", "err"]


def obj_keysets(op, keys):
    """host objects exist for method sets that either avoid the four derived comparison methods
    or override all four of them (HostFull / Host4 in kh_obj.rs)"""
    out = []
    for ks in subsets(keys):
        d = set(ks) & set(DERIVED4)
        if not d:
            out.append(ks)
        else:
            out.append(frozenset(set(ks) | set(DERIVED4)))
    return sorted(set(out), key=sorted)


def gen_cases(tier, seed, T):
    rng = C.Rng(seed)
    cases = []

    def add(origin, op, l, r, oracle, ctx=None, nomodel=False):
        cases.append({"origin": origin, "op": op, "l": l, "r": r, "oracle": dict(oracle), "ctx": ctx, "nomodel": nomodel})

    def oracle_product(op, l, r, cap):
        sites = []
        for side, k in (("L", l), ("R", r)):
            if k[0] == "plain":
                continue
            if side == "R" and op[0] != "arith":
                continue    # the rhs is never asked outside arithmetic; keep its functions at `val`
            for key in sorted(k[1]):
                if key in inspected(op):
                    if side == "R" and not key.startswith("@r"):
                        continue
                    if side == "L" and op[0] == "arith" and key.startswith("@r"):
                        continue
                    sites.append(((side, key), behaviours(op, side, key, k[0] == "obj")))
        combos = [dict(zip([s for s, _ in sites], vals)) for vals in itertools.product(*[b for _, b in sites])]
        if len(combos) > cap:
            picked = [combos[0]] + [combos[rng.below(len(combos))] for _ in range(cap - 1)]
            return picked
        return combos

    ops = [("arith", a) for a, _ in ARITH] + [("assign", a) for a, _ in ARITH] + [("cmp", c) for c, _ in CMP] \
        + [("unary", u) for u in UOPS] + [("index", ""), ("index_assign", ""), ("access_assign", "")]

    # committed corpus
    cdir = os.path.join(C.VERIF, "corpus", PID)
    if os.path.isdir(cdir):
        for f in sorted(os.listdir(cdir)):
            if not f.endswith(".jsonl"):
                continue
            for line in open(os.path.join(cdir, f), encoding="utf-8"):
                line = line.strip()
                if line and not line.startswith("#"):
                    c = json.loads(line)
                    if "access" in c:
                        continue
                    fix = lambda k: (k[0], k[1]) if k[0] == "plain" else \
                        ((k[0], frozenset(k[1]), k[2]) if k[0] == "map" else (k[0], frozenset(k[1])))
                    add("corpus", tuple(c["op"]), fix(c["l"]), fix(c["r"]),
                        {(s, k): b for s, k, b in c["oracle"]}, ctx=c.get("ctx"))

    quick = tier == "quick"
    for op in ops:
        keys = inspected(op)
        binary = op[0] in ("arith", "assign", "cmp", "index", "index_assign") or op == ("unary", "UCallOp")
        lkinds = [("plain", p) for p in PLAIN]
        lkinds += [("map", ks, "own") for ks in subsets(keys)]
        lkinds += [("obj", ks) for ks in obj_keysets(op, keys)]
        if op[0] in ("arith", "assign", "cmp"):
            rkeys = keys if op[0] == "arith" else [keys[0]]
            rk_all = [("plain", p) for p in PLAIN] + [("map", ks, "own") for ks in subsets(rkeys)] \
                + [("obj", ks) for ks in obj_keysets(op, rkeys)]
        elif binary:
            rk_all = [("plain", p) for p in ("number", "range", "str", "null")] + [("map", frozenset(), "own"),
                                                                                  ("obj", frozenset())]
        else:
            rk_all = [("plain", "number")]
        for l in lkinds:
            for r in rk_all:
                if l[0] == "plain" and r[0] == "plain" and op[0] in ("arith", "assign", "cmp") and quick:
                    # plain x plain: no function can run; keep the diagonal and the number row in quick
                    if not (l[1] == r[1] or l[1] == "number" or r[1] == "number" or l[1] == "null" or r[1] == "null"):
                        continue
                cap = (4 if quick else 200) if op[0] == "cmp" else (6 if quick else 200)
                if op[0] == "cmp" and l[0] != "plain" and ("@" + dict(CMP)[op[1]]) not in l[1] and r[0] == "plain" \
                        and r[1] in ("number", "str"):
                    cap = 25    # the derived comparisons proper: every (@<, @==) behaviour pair
                for orc in oracle_product(op, l, r, cap):
                    add("exhaustive", op, l, r, orc)
        # shared metamaps and decoy bases: same operations, objects built differently
        for variant in ("shared", "decoy"):
            if variant == "decoy" and op in (("unary", "UToTuple"), ("unary", "UReversed")):
                continue    # `.` access does follow @base (see the access-chain cases)
            for ks in subsets(keys):
                if not ks:
                    continue
                l = ("map", ks, variant)
                rs = [("plain", "number"), ("map", ks, variant)] if binary else [("plain", "number")]
                for r in rs:
                    for orc in oracle_product(op, l, r, 3 if quick else 40):
                        add(variant, op, l, r, orc)
                if op[0] == "arith":
                    for lp in ("number", "str"):
                        for orc in oracle_product(op, ("plain", lp), l, 3):
                            add(variant, op, ("plain", lp), l, orc)

    # seeded random: arbitrary key subsets (beyond the keys the operator inspects) on both sides
    allkeys = sorted(T.spell2term)
    n_rand = 700 if quick else 30000
    for _ in range(n_rand):
        op = rng.choice(ops)

        def rkind(side):
            c = rng.below(10)
            if c < 2:
                return ("plain", rng.choice(PLAIN))
            pool = inspected(op) * 3 + allkeys
            ks = frozenset(rng.choice(pool) for _ in range(rng.below(5)))
            if c < 8:
                return ("map", ks, rng.choice(["own", "own", "shared"]))
            d = set(ks) & set(DERIVED4)
            if d:
                ks = frozenset(set(ks) | set(DERIVED4))
            return ("obj", ks)
        l, r = rkind("L"), rkind("R")
        combos = oracle_product(op, l, r, 2)
        add("random", op, l, r, combos[-1])

    # every case generated so far whose oracle makes some function fail is ALSO run inside
    # try / catch / finally (same model term, so no extra Coq work); depth rotates over 0..2
    n = 0
    for c in list(cases):
        if c["origin"] != "corpus" and any(b in ERR_BEH for b in c["oracle"].values()):
            n += 1
            if quick and c["origin"] == "exhaustive" and n % 2:
                continue
            add("wrapped", c["op"], c["l"], c["r"], c["oracle"], ctx=n % 3)
    gen_error_family(add, ops, quick)
    return cases


def gen_error_family(add, ops, quick):
    """every call path of the dispatch x every way a user function can fail x {bare, try at call
    depth 0, 1, 2}.  A call path = (operation, which operand's function, under which key, reached
    how): lhs own function; rhs @r.. after the lhs lacked the operator / declined; the derived
    comparison calls; @next / @next_back / @iterator; @display standing in for @debug; @access."""
    fails = ["err", "unimpl"] + RT_KINDS
    ctxs = [None, 0, 1, 2]
    paths = []     # (op, l keys, r kind, failing site, fixed oracle)
    for op in ops + [("access", "")]:
        kind, name = op
        keys = inspected(op)
        num = ("plain", "number")
        if kind == "arith":
            kop, krop = keys
            paths.append((op, [kop], num, ("L", kop), {}))
            paths.append((op, [], ("map", frozenset([krop]), "own"), ("R", krop), {}))
            paths.append((op, [kop], ("map", frozenset([krop]), "own"), ("R", krop), {("L", kop): "unimpl"}))
            paths.append((op, [kop], ("obj", frozenset([krop])), ("R", krop), {("L", kop): "unimpl"}))
        elif kind == "cmp":
            own = keys[0]
            paths.append((op, [own], num, ("L", own), {}))
            if name in ("Le", "Gt"):
                paths.append((op, ["@<", "@=="], num, ("L", "@<"), {}))
                paths.append((op, ["@<", "@=="], num, ("L", "@=="), {("L", "@<"): "false"}))
            if name == "Ge":
                paths.append((op, ["@<"], num, ("L", "@<"), {}))
            if name == "Ne":
                paths.append((op, ["@=="], num, ("L", "@=="), {}))
        elif kind == "unary" and name in ("UFor", "UToTuple", "UReversed"):
            paths.append((op, ["@iterator"], num, ("L", "@iterator"), {}))
            if name == "UReversed":
                paths.append((op, ["@next", "@next_back"], num, ("L", "@next_back"), {}))
            else:
                paths.append((op, ["@next"], num, ("L", "@next"), {}))
        elif kind == "unary" and name == "UDbg":
            paths.append((op, ["@debug"], num, ("L", "@debug"), {}))
            paths.append((op, ["@display"], num, ("L", "@display"), {}))
        else:
            paths.append((op, [keys[0]], num, ("L", keys[0]), {}))
    k = 0
    for op, lkeys, r, site, fixed in paths:
        for variant in (("map", "own"), ("map", "shared"), ("obj", None)):
            if variant[0] == "obj":
                if op[0] == "access" or site[1] in ("@next", "@next_back", "@size", "@debug"):
                    continue       # host methods returning Option / not existing cannot fail
                if set(lkeys) & set(DERIVED4):
                    lk = ("obj", frozenset(set(lkeys) | set(DERIVED4)))
                else:
                    lk = ("obj", frozenset(lkeys))
                if not lkeys:
                    continue
            else:
                lk = ("map", frozenset(lkeys), variant[1])
                if not lkeys and variant[1] == "shared":
                    continue
            for f in fails:
                if variant[0] == "obj" and f in RT_KINDS[1:]:
                    continue       # a host method has one kind of runtime error
                for ctx in ctxs:
                    k += 1
                    if quick and variant[1] == "shared" and k % 2:
                        continue
                    orc = dict(fixed)
                    orc[site] = f
                    add("errors", op, lk, r, orc, ctx=ctx, nomodel=(op[0] == "access"))


# ---------------------------------------------------------------------------
# `.` access chains

ACC_KEYS = {"kx": (False, False), "insert": (True, False), "to_tuple": (False, True)}


def gen_access_cases(tier, seed):
    """a chain = list of levels (top first); level = (in_data, meta) with meta None or
    (in_named, base_kind) ; base_kind: 'map' (next level) | 'other' | None.  top flags: access, iter"""
    rng = C.Rng(seed + 77)
    cases = []
    level_opts = [(d, None) for d in (False, True)] + [(d, (n,)) for d in (False, True) for n in (False, True)]

    def build(levels, end, access, iterable, key):
        cases.append({"levels": levels, "end": end, "access": access, "iter": iterable, "key": key})

    maxd = 2 if tier == "quick" else 3
    for depth in range(0, maxd + 1):
        # levels 0..depth-1 must have a metamap with a map base; the last level is free
        for inner in itertools.product([(d, (n,)) for d in (False, True) for n in (False, True)], repeat=depth):
            for last in level_opts:
                ends = [None] if last[1] is None else [None, "other"]
                for end in ends:
                    for key in ACC_KEYS:
                        for access, iterable in ((False, False), (False, True), (True, False)):
                            if (access or iterable) and (depth > 0 and inner[0][1] is None):
                                continue
                            if (access or iterable) and depth == 0 and last[1] is None:
                                continue
                            if tier == "quick" and depth == 2 and (access or key == "insert") and rng.below(3):
                                continue
                            build(list(inner) + [last], end, access, iterable, key)
    if tier != "quick":
        pass
    # corpus
    cdir = os.path.join(C.VERIF, "corpus", PID)
    if os.path.isdir(cdir):
        for f in sorted(os.listdir(cdir)):
            if f.endswith(".jsonl"):
                for line in open(os.path.join(cdir, f), encoding="utf-8"):
                    line = line.strip()
                    if line and not line.startswith("#"):
                        c = json.loads(line)
                        if "access" in c:
                            a = c["access"]
                            a["levels"] = [(d, None if m is None else tuple(m)) for d, m in a["levels"]]
                            cases.insert(0, a)
    return cases


def access_script(c):
    key = c["key"]
    lines = []
    n = len(c["levels"])
    # build from the deepest level up
    for d in range(n - 1, -1, -1):
        in_data, meta = c["levels"][d]
        name = "L" if d == 0 else f"B{d}"
        has_base = d < n - 1
        entries = [f"lvl: {d}"] + (["id: 'L'"] if d == 0 else [])
        if in_data:
            entries.append(f"{key}: 'd{d}'")
        block = [f"{name} ="] + [f"  {e}" for e in entries]
        if meta is not None:
            if meta[0]:
                block.append(f"  @meta {key}: 'm{d}'")
            if has_base:
                block.append(f"  @base: B{d + 1}")
            elif c["end"] == "other":
                block.append("  @base: 5")
            if d == 0 and c["access"]:
                block += ["  @access: |k|", "    ev 'L@access', self, k", "    'L@access'"]
            if d == 0 and c["iter"]:
                block += ["  @next: || null"]
            if len(block) == 1 + len(entries):
                block.append("  @type: 'T'")     # a metamap with no relevant entry
        lines += block
    lines.append(f"x = L.{key}")
    lines.append("if koto.type(x) == 'String' then x else 'F'")
    return "\n".join(lines) + "\n"


def access_term(c):
    def lvl(d):
        in_data, meta = c["levels"][d]
        data = f'["lvl"; "{c["key"]}"]' if in_data else '["lvl"]'
        if meta is None:
            return f"(MPlain {data})"
        named = f'["{c["key"]}"]' if meta[0] else "[]"
        acc = "true" if (d == 0 and c["access"]) else "false"
        it = "true" if (d == 0 and c["iter"]) else "false"
        if d < len(c["levels"]) - 1:
            return f"(MBase {data} {acc} {named} {it} {lvl(d + 1)})"
        if c["end"] == "other":
            return f"(MBadBase {data} {acc} {named} {it})"
        return f"(MEnd {data} {acc} {named} {it})"
    im, ii = ACC_KEYS[c["key"]]
    return f'run_access_case {str(im).lower()} {str(ii).lower()} "{c["key"]}" {lvl(0)}'


def access_matches(c, enc, res):
    result, trace = res.get("result", ""), res.get("trace", [])
    if enc[0] == 0:
        return trace == [["L@access", "L", "s:" + c["key"]]] and result == 's"L@access"'
    if trace:
        return False
    if enc[0] == 1:
        return result == f's"{"dm"[enc[2]]}{enc[1]}"'
    if enc[0] in (2, 3):
        return result == 's"F"'
    if enc[0] == 4:
        return result in ("ENotFound", "EString")
    if enc[0] == 5:
        return result == "EType"
    return False


def access_spec(c):
    """D: the guide's rule, in Python: @access wins; else the first level (top first) holding the
    key, data before @meta entries"""
    if c["access"]:
        return "access"
    for d, (in_data, meta) in enumerate(c["levels"]):
        if in_data:
            return f's"d{d}"'
        if meta is not None and meta[0]:
            return f's"m{d}"'
    return None


# ---------------------------------------------------------------------------
# D-predicates: the guide's rules computed here, independent of the Coq model

CORE_ARITH = {("number", "number")}
CORE_ADD = {("str", "str"), ("list", "list"), ("tuple", "tuple")}


def implements(k, key):
    return k[0] in ("map", "obj") and key in k[1] and not (k[0] == "map" and k[2] == "decoy")


MARKERS = ("catch-inner", "catch-outer", "finally", "after")


def d7_error_delivery(case, trace, result):
    """the operation ran below try / catch / finally: whatever the operation does, `finally` runs
    exactly once, the outer handler never sees anything, the follow-up operations work; and when the
    last user function that ran was made to fail (a throw or a runtime error; `unimplemented` where
    nothing takes over), the error reaches the innermost catch right away"""
    fails = []
    names = [t[0] for t in trace]
    if names.count("finally") != 1:
        fails.append(f"D7 finally ran {names.count('finally')} times")
    if "catch-outer" in names:
        fails.append("D7 the error skipped the innermost catch and reached the outer handler")
    if names.count("catch-inner") > 1:
        fails.append("D7 catch ran more than once")
    if names.count("after") != 1 or names[-1:] != ["after"]:
        fails.append(f"D7 execution did not continue normally after the try expression: {names[-3:]}")
    inner = unwrap_result(result)
    if inner is None:
        fails.append(f"D7 the script did not finish with [res, 'fu', 7] on the same VM: {result}")
    user = [t for t in trace if t[0] not in MARKERS]
    if user:
        last = user[-1][0]
        side, key = last[0], last[1:]
        k = case["l"] if side == "L" else case["r"]
        beh = case["oracle"].get((side, key), "val")
        hard = beh == "err" or beh in RT_BODY
        infallible = k[0] == "obj" and key in ("@next", "@next_back", "@size")
        if hard and not infallible:
            i = len(user)
            if names[i:i + 2] != ["catch-inner", "finally"]:
                fails.append(f"D7 {last} failed ({beh}) but the error was not delivered to the innermost catch "
                             f"(then finally): after it came {names[i:i + 3]}")
            if inner is not None and inner != 's"caught"':
                fails.append(f"D7 {last} failed ({beh}) but the try expression produced {inner}")
    if "catch-inner" in names and inner is not None and inner != 's"caught"':
        fails.append(f"D7 catch ran but the result is {inner}")
    return fails


def d_predicates(case, res):
    """returns a list of failed clause descriptions"""
    fails = []
    kind, name = case["op"]
    l, r, orc = case["l"], case["r"], case["oracle"]
    trace, result = res.get("trace", []), res.get("result", "")
    dl, dr = kind_desc("L", l), kind_desc("R", r)
    if case.get("ctx") is not None:
        fails += d7_error_delivery(case, trace, result)
        trace = [t for t in trace if t[0] not in MARKERS]
        inner = unwrap_result(result)
        if inner is not None:
            result = "E(caught)" if inner == 's"caught"' else inner
    if kind == "access":
        if orc.get(("L", "@access"), "val") == "val" and (trace[:1] != [["L@access", "L", "s:foo"]] or result != 's"L@access"'):
            fails.append(f"D6 @access should be called with (self, key) and its value used: {trace[:2]} {result}")
        return fails
    if kind == "arith":
        sym = dict(ARITH)[name]
        kop, krop = "@" + sym, "@r" + sym
        core = l[0] == "plain" and r[0] == "plain" and ((l[1], r[1]) in CORE_ARITH or (name == "Add" and (l[1], r[1]) in CORE_ADD))
        if core:
            return fails
        lhs_impl = implements(l, kop)
        lb = orc.get(("L", kop), "val") if lhs_impl else None
        rhs_impl = implements(r, krop)
        rb = orc.get(("R", krop), "val") if rhs_impl else None
        if lhs_impl:
            # D1 the lhs is asked first, with (self := lhs, arg := rhs)
            if not trace or trace[0] != ["L" + kop, dl, dr]:
                fails.append(f"D1 lhs implements {kop} but the first function run is {trace[:1]}")
            if lb in ("val", "null") and (len(trace) != 1 or (lb == "val" and result != f's"L{kop}"')):
                fails.append(f"D1 lhs {kop} returned a value; trace {trace} result {result}")
        if (not lhs_impl or lb == "unimpl") and rhs_impl:
            # D2 rhs fallback with (self := rhs, arg := lhs)
            want = ([["L" + kop, dl, dr]] if lhs_impl else []) + [["R" + krop, dr, dl]]
            if trace != want:
                fails.append(f"D2 rhs fallback expected {want}, trace {trace}")
            elif rb == "val" and result != f's"R{krop}"':
                fails.append(f"D2 rhs {krop} returned its value but the result is {result}")
        if lhs_impl and (lb in ("val", "err", "null") or lb in RT_BODY) and any(t[0].startswith("R") for t in trace):
            fails.append(f"D2 rhs function ran although the lhs {kop} did not report unimplemented")
        if (not lhs_impl or lb == "unimpl") and not rhs_impl:
            both_maps = l[0] == "map" and r[0] == "map"
            if not (name == "Add" and both_maps) and not result.startswith("E"):
                fails.append(f"D4 nobody implements {sym} but the result is {result}")
    if kind == "cmp" and l[0] in ("map", "obj") and not (l[0] == "map" and l[2] == "decoy") and r != ("plain", "null"):
        own = "@" + dict(CMP)[name]
        if own not in l[1] and name in ("Le", "Gt", "Ge", "Ne"):
            has_lt, has_eq = "@<" in l[1], "@==" in l[1]
            lt = orc.get(("L", "@<"), "val") if has_lt else None
            eq = orc.get(("L", "@=="), "val") if has_eq else None
            if l[0] == "obj":
                lt = "true" if lt == "val" else lt
                eq = "true" if eq == "val" else eq
            b = {"true": True, "false": False}
            want = None
            if name == "Ne" and eq in b:
                want = not b[eq]
            if name == "Ge" and lt in b:
                want = not b[lt]
            if name == "Le" and has_lt and has_eq and lt in b and (b[lt] or eq in b):
                want = b[lt] or b[eq]
            if name == "Gt" and has_lt and has_eq and lt in b and (b[lt] or eq in b):
                want = not (b[lt] or b[eq])
            if want is not None:
                if result != ("t" if want else "f"):
                    fails.append(f"D3 derived {name} with @<={lt} @=={eq}: expected {want}, got {result}")
                for t in trace:
                    if t[1:] != [dl, dr] or t[0] not in ("L@<", "L@=="):
                        fails.append(f"D3 derived {name}: unexpected call {t}")
    # D6 "invokes the corresponding metakey function with the documented operands": the simple protocols
    if l[0] in ("map", "obj") and not (l[0] == "map" and l[2] == "decoy"):
        simple = {("unary", "UNeg"): ("@negate", []), ("unary", "USizeOf"): ("@size", []),
                  ("unary", "UCallOp"): ("@call", [dr]), ("index", ""): ("@index", [dr]),
                  ("index_assign", ""): ("@index_assign", [dr, "n5"]),
                  ("access_assign", ""): ("@access_assign", ["s:foo", "n5"]),
                  ("unary", "UDisp"): ("@display", [])}
        if kind == "assign":
            simple[(kind, name)] = ("@" + dict(ARITH)[name] + "=", [dr])
        if kind == "cmp":
            simple[(kind, name)] = ("@" + dict(CMP)[name], [dr])
        if (kind, name) in simple:
            key, args = simple[(kind, name)]
            core = kind in ("assign", "cmp") and r == ("plain", "null") and name in ("Eq", "Ne")
            if key in l[1] and not core and trace[:1] != [["L" + key, "L"] + args]:
                fails.append(f"D6 lhs implements {key} but the first function run is {trace[:1]}")
            if key in l[1] and not core and orc.get(("L", key), "val") == "val" and kind not in ("assign", "index_assign", "access_assign") \
                    and not (l[0] == "obj" and (key == "@size" or kind == "cmp")) and result != f's"L{key}"':
                fails.append(f"D6 {key} returned its value but the result is {result}")
        overridden = name == "UToTuple" and l[0] == "map" and "@access" in l[1]
        if overridden and trace[:1] != [["L@access", "L", "s:to_tuple"]]:
            # "@access ... override how `.` access operations behave": x.to_tuple is a `.` access
            fails.append(f"D6 @access is implemented but L.to_tuple ran {trace[:2]}")
        if kind == "unary" and name in ("UFor", "UToTuple") and not overridden:
            # "it will first check the metamap for an implementation of @next, before looking for @iterator"
            if "@next" in l[1] and any(t[0] != "L@next" for t in trace) or ("@next" in l[1] and not trace):
                fails.append(f"D6 @next is implemented but the functions run are {trace[:3]}")
            if "@next" not in l[1] and "@iterator" in l[1] and trace[:1] != [["L@iterator", "L"]]:
                fails.append(f"D6 @iterator is implemented (no @next) but the functions run are {trace[:3]}")
        if kind == "unary" and name == "UDbg" and l[0] == "map":
            want = "@debug" if "@debug" in l[1] else ("@display" if "@display" in l[1] else None)
            if want and trace[:1] != [["L" + want, "L"]]:
                fails.append(f"D6 debug representation should come from {want}; functions run: {trace[:2]}")
    if l == ("obj", frozenset()) and kind in ("arith", "assign", "index", "index_assign", "access_assign") \
            and not implements(r, "@r" + dict(ARITH).get(name, "?")):
        if not result.startswith("E") or trace:
            fails.append(f"D4 bare host object: {kind} {name} gave {result} {trace}")
    if l == ("obj", frozenset()) and (kind == "cmp" and r != ("plain", "null")
                                        or (kind == "unary" and name in ("UNeg", "USizeOf", "UCallOp"))):
        if not result.startswith("E") or trace:
            fails.append(f"D4 bare host object: {kind} {name} gave {result} {trace}")
    return fails


# ---------------------------------------------------------------------------

# fixed probes outside the model's vocabulary: (name, script, expected result, expected trace, known id)
#  - the derive path (#[koto_impl] methods through `.` access)
#  - metakey entries that are NATIVE functions (MetaMap::add_fn style)
PROBES = [
    ("derived-methods", "L = derived 'L'\n[L.tag(), L.same(5), L.echo(6), L + 2]\n",
     'L[s"L.tag",i5,i6,s"L@+"]', [["L.tag", "L"], ["L.echo", "L", "n5"], ["L.echo", "L", "n6"], ["L@+", "L", "n2"]], None),
    ("derived-missing-method", "L = derived 'L'\nL.nope\n", {"ENotFound", "EString"}, [], None),
    ("derived-unimplemented-arith", "L = derived 'L'\nL - 1\n", {"EBinaryOp"}, [], None),
    ("derived-unimplemented-cmp", "L = derived 'L'\nL < 1\n", {"EUnimpl"}, [], None),
    ("derived-rhs-fallback", "L = derived 'L'\nR =\n  id: 'R'\n  @r-: |a|\n    ev 'R@r-', self, a\n    'R@r-'\nL - R\n",
     's"R@r-"', [["R@r-", "R", "L"]], None),
    ("native-call", "L =\n  id: 'L'\n  @call: nat_val\nf = || L(3)\nf()\n", 's"nat"', [["nat_val", "L", "n3"]], None),
    ("native-index", "L =\n  id: 'L'\n  @index: nat_val\nf = || L[3]\nf()\n", 's"nat"', [["nat_val", "L", "n3"]], None),
    ("native-negate", "L =\n  id: 'L'\n  @negate: nat_val\nf = || -L\nf()\n", 's"nat"', [["nat_val", "L"]], None),
    ("native-own-less", "L =\n  id: 'L'\n  @<: nat_true\nf = || L < 3\nf()\n", "t", [["nat_true", "L", "n3"]], None),
    ("native-arith", "L =\n  id: 'L'\n  @+: nat_val\nf = ||\n  y = L + 3\n  y\n[f(), 'end']\n",
     'L[s"nat",s"end"]', [["nat_val", "L", "n3"]], "C17b"),
    ("native-derived-ge", "L =\n  id: 'L'\n  @<: nat_false\nf = ||\n  y = L >= 3\n  y\n[f(), 'end']\n",
     'L[t,s"end"]', [["nat_false", "L", "n3"]], "C17b"),
    ("native-derived-ne", "L =\n  id: 'L'\n  @==: nat_false\nf = ||\n  y = L != 3\n  y\n[f(), 'end']\n",
     'L[t,s"end"]', [["nat_false", "L", "n3"]], "C17b"),
    ("native-next", "L =\n  id: 'L'\n  @next: |x| null\nM =\n  id: 'M'\n  @next: nat_val\nout = []\nfor v in M\n  out.push v\n  break\n[out, 'end']\n",
     'L[L[s"nat"],s"end"]', [["nat_val", "M"]], "C17b"),
]
C17B_TEXT = ("C17b a metakey entry that is a native function breaks arithmetic and derived comparisons: "
             "call_metamap_arithmetic_op! / run_overridden_comparison_op put the execution barrier on the CALLER's frame "
             "and re-run its remaining instructions (e.g. `x = {@<: native_fn}; f = || x >= 1` yields null / "
             "'empty call stack', `{@+: native_fn} + 1` inside a function returns a wrong value, and a for loop over "
             "`{@next: native_fn}` PANICS with 'Empty call stack' at vm.rs frame())")


def known_class(case, enc):
    """inputs where the faithful model (and the code) deviates from the guide; see ObjSpec.v"""
    kind, name = case["op"]
    l = case["l"]
    if kind == "unary" and name == "UFor" and l[0] == "map" and l[2] != "decoy" and "@iterator" in l[1] \
            and "@next" not in l[1] and case["oracle"].get(("L", "@iterator"), "val") == "seq":
        return "C17a"
    return None


def case_repr(case):
    return json.dumps({"op": case["op"], "l": [case["l"][0], sorted(case["l"][1]) if case["l"][0] != "plain" else case["l"][1]] + list(case["l"][2:]),
                       "r": [case["r"][0], sorted(case["r"][1]) if case["r"][0] != "plain" else case["r"][1]] + list(case["r"][2:]),
                       "oracle": sorted([s, k, b] for (s, k), b in case["oracle"].items()), "ctx": case.get("ctx")})


def run_impl(binp, scripts, tag):
    os.makedirs(os.path.join(C.BUILD, "cases"), exist_ok=True)
    cf = os.path.join(C.BUILD, "cases", f"c17-{tag}-{os.getpid()}.jsonl")
    with open(cf, "w") as f:
        for s in scripts:
            f.write(json.dumps({"src": s}) + "\n")
    rc, out = C.sh([binp, cf], timeout=3000)
    os.remove(cf)
    lines = [json.loads(l) for l in out.splitlines() if l.startswith("{")]
    if rc != 0 or len(lines) != len(scripts):
        return None, out
    return lines, out


def run(tier, seed):
    chk = C.Check(PID, tier, seed, "proof")
    # ---- tables regenerated from the Rust source
    T = None
    try:
        info, _ = k2v_obj.gen_meta(os.path.join(C.COQ, UNIT, "GenMeta.v"), os.path.join(C.BUILD, "gen", "meta.json"))
        T = Tables(info)
        chk.oblige("gen:metakey tables (k2v_obj: BinaryOp/UnaryOp/ReadOp/WriteOp/MetaKey, MetaKeyId spellings, parse_meta_key)", True)
    except k2v.GenError as e:
        chk.oblige("gen:metakey tables", False, str(e))
        chk.log(f"translator failed: {e}")

    # ---- T
    model_ok = False
    axioms = []
    if T:
        ok, log = C.coq_build(UNIT, ["ObjRun.vo"])
        model_ok = ok
        if not ok:
            chk.log("model does not compile against the regenerated tables:\n" + log[-2500:])
        pr = C.check_props_file(UNIT, "C17Props", PINNED)
        hits = C.forbidden_scan(UNIT)
        if not pr["ok"]:
            chk.log("C17Props does not check:\n" + pr["log"][-3000:])
        for name in PINNED:
            good = pr["ok"] and name not in pr["missing"] and ("Print Assumptions " + name) not in pr["missing"] \
                and not pr["bad_axioms"] and not hits
            chk.oblige("thm:" + name, good)
        if hits:
            chk.log("forbidden constructs: " + "; ".join(hits))
        if pr["bad_axioms"]:
            chk.log("axioms outside the allowlist: " + ", ".join(pr["bad_axioms"]))
        axioms = pr["axioms"]
    else:
        for name in PINNED:
            chk.oblige("thm:" + name, False, "tables could not be regenerated")

    # ---- R + D
    binp, blog = C.build_harness("kh_obj")
    if not binp:
        chk.log("harness build failed:\n" + blog[-3000:])
        chk.violation("build", {"kind": "obligation", "correspondence": "kh_obj does not build against the koto checkout",
                                "log": blog[-3000:]}, no_input=True)
        return chk.finish("n/a")
    if not T:
        chk.violation("obligation", {"kind": "obligation", "broken": [o[0] + ": " + o[2] for o in chk.obligations if not o[1]]},
                      no_input=True)
        return chk.finish("n/a")

    cases = gen_cases(tier, seed, T)
    acases = gen_access_cases(tier, seed)
    scripts = [make_script(c) for c in cases] + [access_script(c) for c in acases] + [p[1] for p in PROBES]
    impl, out = run_impl(binp, scripts, "run")
    if impl is None:
        chk.log(f"harness run failed: {out[-1500:]}")
        chk.violation("harness", {"kind": "obligation", "correspondence": "kh_obj crashed", "log": out[-2000:]}, no_input=True)
        return chk.finish("n/a")
    impl_ops, impl_acc = impl[:len(cases)], impl[len(cases):len(cases) + len(acases)]
    impl_probe = impl[len(cases) + len(acases):]

    dist = {}
    d_fail = []
    for i, (c, r) in enumerate(zip(cases, impl_ops)):
        key = c["origin"] + ":" + c["op"][0]
        dist[key] = dist.get(key, 0) + 1
        if "panic" in r:
            d_fail.append((i, [f"VM panicked: {r['panic']} at {r.get('at')}"]))
            continue
        if r.get("result") == "ECompile":
            d_fail.append((i, ["generated object definition does not compile: " + r.get("msg", "")[:200]]))
            continue
        fails = d_predicates(c, r)
        if fails:
            d_fail.append((i, fails))
        chk.count_case(case_repr(c), bool(r.get("trace")))
    acc_fail = []
    for j, (c, r) in enumerate(zip(acases, impl_acc)):
        dist["access"] = dist.get("access", 0) + 1
        if "panic" in r:
            acc_fail.append((j, [f"VM panicked: {r['panic']}"]))
            continue
        want = access_spec(c)
        if want == "access":
            if r.get("trace") != [["L@access", "L", "s:" + c["key"]]]:
                acc_fail.append((j, [f"D5 @access defined but trace is {r.get('trace')}"]))
        elif want is not None and c["end"] != "other" or (want is not None and r.get("result") == want):
            if r.get("result") != want:
                acc_fail.append((j, [f"D5 lookup order: expected {want}, got {r.get('result')}"]))
        chk.count_case(json.dumps(c), True)

    probe_fail = []
    for (name, script, want, wtrace, known_id), r in zip(PROBES, impl_probe):
        dist["probe"] = dist.get("probe", 0) + 1
        chk.count_case(name, True)
        res = r.get("result", "panic: " + str(r.get("panic")))
        good = (res in want if isinstance(want, set) else res == want) and r.get("trace") == wtrace
        if good:
            continue
        if known_id == "C17b":
            chk.known(C17B_TEXT)
        else:
            probe_fail.append((name, script, want, wtrace, r))
    if probe_fail:
        name, script, want, wtrace, r = probe_fail[0]
        chk.violation("input", {"kind": "input", "probe": name, "script": script, "impl_says": r,
                                "predicate_failed": [f"probe {name}: expected result {sorted(want) if isinstance(want, set) else want} "
                                                     f"with trace {wtrace}"],
                                "expected_result": sorted(want) if isinstance(want, set) else want, "expected_trace": wtrace,
                                "how_to_rerun": "./check C17 --replay <this file>"})
        chk.log(f"{len(probe_fail)} fixed probes fail; first: {name}: {r}")

    disagreements = []
    acc_disagreements = []
    if model_ok:
        header = "From Coq Require Import List String NArith.\nImport ListNotations.\n" \
                 "From KV.obj Require Import GenMeta ObjModel ObjRun.\nOpen Scope string_scope.\nOpen Scope N_scope.\n"
        try:
            terms, slot = [], {}
            case_slot = []
            for c in cases:
                if c.get("nomodel"):
                    case_slot.append(None)
                    continue
                t = case_term(T, c)
                if t not in slot:
                    slot[t] = len(terms)
                    terms.append(t)
                case_slot.append(slot[t])
            n_terms = len(terms)
            allterms = terms + [access_term(c) for c in acases]
            raw = C.coq_eval(UNIT, header, allterms, tag="c17", per_shard=max(300, -(-len(allterms) // C.NPROC)))
            vals = [None if k is None else raw[k] for k in case_slot] + raw[n_terms:]
            chk.coverage["distinct_model_terms"] = n_terms
        except RuntimeError as e:
            chk.log(str(e)[-3000:])
            vals = None
        if vals is None:
            chk.oblige("corr:model-evaluates", False)
        else:
            for i, (c, r, v) in enumerate(zip(cases, impl_ops, vals[:len(cases)])):
                if "panic" in r or v is None:
                    continue
                events, outcome, leftover = v      # Coq prints ((a, b), c) as (a, b, c)
                et = expected_full_trace(T, c, events, outcome)
                if leftover != 0 or r.get("trace") != et or not full_result_matches(T, c, events, outcome, r.get("result", "")):
                    disagreements.append((i, et, outcome))
                kc = known_class(c, v)
                if kc == "C17a" and (r.get("result") == "EType" or c.get("ctx") is not None):
                    chk.known("C17a `for x in obj` fails (expected Iterator) when @iterator returns an iterable that is "
                              "not already an iterator (e.g. a List), although obj.to_tuple() iterates it and the guide "
                              "says the returned iterable is used")
            for j, (c, r, v) in enumerate(zip(acases, impl_acc, vals[len(cases):])):
                if "panic" in r:
                    continue
                if not access_matches(c, v, r):
                    acc_disagreements.append((j, v))
            chk.oblige("corr:model-vs-VM trace and result class (operators, protocols)", not disagreements,
                       f"{len(disagreements)} disagreements")
            chk.oblige("corr:model-vs-VM `.` access chains", not acc_disagreements,
                       f"{len(acc_disagreements)} disagreements")
    else:
        chk.oblige("corr:model-vs-VM trace and result class (operators, protocols)", False, "model unavailable")

    # ---- verdict
    def size(i):
        c = cases[i]
        return len(make_script(c))

    if (d_fail or acc_fail) and not probe_fail:
        if d_fail:
            d_fail.sort(key=lambda x: size(x[0]))
            i, fails = d_fail[0]
            payload = {"kind": "input", "case": json.loads(case_repr(cases[i])), "script": make_script(cases[i]),
                       "impl_says": impl_ops[i], "predicate_failed": fails, "others": len(d_fail) + len(acc_fail) - 1}
        else:
            j, fails = acc_fail[0]
            payload = {"kind": "input", "access_case": acases[j], "script": access_script(acases[j]),
                       "impl_says": impl_acc[j], "predicate_failed": fails, "others": len(acc_fail) - 1}
        payload["how_to_rerun"] = "./check C17 --replay <this file>"
        chk.violation("input", payload)
        chk.log(f"{len(d_fail) + len(acc_fail)} inputs violate C17 on the implementation; first: {fails[:2]}")
    broken = [o for o in chk.obligations if not o[1]]
    if broken and not (d_fail or acc_fail or probe_fail):
        payload = {"kind": "obligation", "broken": [o[0] + (": " + o[2] if o[2] else "") for o in broken]}
        if disagreements:
            disagreements.sort(key=lambda x: size(x[0]))
            i, et, outcome = disagreements[0]
            payload["smallest_disagreement"] = {"case": json.loads(case_repr(cases[i])), "script": make_script(cases[i]),
                                                "model_trace": et, "model_outcome": outcome, "impl_says": impl_ops[i]}
            chk.log(f"{len(disagreements)} model/VM disagreements; smallest:\n{make_script(cases[i])}"
                    f"model: {et} {outcome}\nimpl: {impl_ops[i]}")
        if acc_disagreements:
            j, v = acc_disagreements[0]
            payload["access_disagreement"] = {"access_case": acases[j], "script": access_script(acases[j]),
                                              "model_says": v, "impl_says": impl_acc[j]}
            chk.log(f"{len(acc_disagreements)} access disagreements; first:\n{access_script(acases[j])}model: {v}\nimpl: {impl_acc[j]}")
        payload["note"] = "no clause of C17 fails on the implementation's own output for any explored input, but the " \
                          "implementation no longer matches the model the theorems are about (or a theorem / table broke)"
        chk.violation("obligation", payload, no_input=True)

    tb = ["Coq 8.16.1 kernel (coqc); vm_compute for the finite-domain sweeps and for evaluating the model",
          "axioms reported by Print Assumptions: " + (", ".join(axioms) if axioms else "none (closed under the global context)"),
          "tools/k2v_obj.py transcription of the operator enums and metakey spellings",
          "hand transcription of vm.rs arm order into coq/obj/ObjModel.v (tied by the correspondence run)",
          "kh_obj (Rust harness: trace recorder, host objects) and checks/c17.py (script generator, comparison, D-predicates)"]
    return chk.finish(
        rule="cases: committed corpus + for every operation all operand-kind pairs with all subsets of the metakeys the "
             "operation inspects (own / with_meta-shared / @base-decoy metamaps, host objects) x oracle values of the "
             "functions involved (capped per pair in the quick tier) + seeded random key subsets + all @base chains up to "
             "depth 2 (quick) / 3; non-trivial = at least one user function ran; distinct by case description",
        explanation="theorems over the dispatch model; event trace + result class of the real VM compared with the model; "
                    "the guide's rules evaluated directly on the VM's output",
        trusted_base=tb,
        extra={"distribution": dist, "exhaustive": False, "model_impl_disagreements": len(disagreements) + len(acc_disagreements)})


def replay(path, args):
    data = json.load(open(path))
    script = data.get("script") or data.get("smallest_disagreement", {}).get("script") \
        or data.get("access_disagreement", {}).get("script")
    if script is None:
        print("replay file names an obligation, not an input:", json.dumps(data.get("broken")))
        return run("quick", data.get("seed", 1))
    binp, blog = C.build_harness("kh_obj")
    impl, out = run_impl(binp, [script], "replay")
    print(script)
    print(json.dumps(impl[0] if impl else out))
    if data.get("kind") == "input" and impl:
        r = impl[0]
        if "probe" in data:
            want = data["expected_result"]
            ok = (r.get("result") in want if isinstance(want, list) else r.get("result") == want) \
                and r.get("trace") == data["expected_trace"]
            fails = [] if ok else data["predicate_failed"]
        elif "case" in data:
            c = data["case"]
            fix = lambda k: (k[0], k[1]) if k[0] == "plain" else \
                ((k[0], frozenset(k[1]), k[2]) if k[0] == "map" else (k[0], frozenset(k[1])))
            case = {"op": tuple(c["op"]), "l": fix(c["l"]), "r": fix(c["r"]), "ctx": c.get("ctx"),
                    "oracle": {(s, k): b for s, k, b in c["oracle"]}}
            fails = ["VM panicked"] if "panic" in r else d_predicates(case, r)
        else:
            fails = data.get("predicate_failed", []) if r == data.get("impl_says") else []
        for f in fails:
            print("  " + f)
        if fails:
            print(f"VIOLATION property={PID} replay={path}")
            return 1
        print("no clause of C17 fails on this input")
        return 0
    same = impl and impl[0] == (data.get("smallest_disagreement") or data.get("access_disagreement") or {}).get("impl_says")
    print("implementation output " + ("unchanged: the disagreement with the model persists" if same else "differs from the recorded one"))
    if same:
        print(f"VIOLATION property={PID} replay={path} no-failing-input-found")
        return 1
    return 0
