"""C09  Lexing is lossless and positions are exact.

T  theorems in coq/lex/C09Props.v about the impl-shaped lexer model (all strings)
R  correspondence: model (vm_compute) vs koto_lexer on the same strings, exact token streams
D  the property's clauses evaluated directly on koto_lexer's own output
"""
import itertools
import json
import os
import sys

from vlib import common as C
from tools import k2v

PID = "C09"
UNIT = "lex"

PINNED = [
    "lex_tiles", "lex_boundaries", "lex_lines", "lex_col_reset", "lex_indent", "lex_total",
    "symbols_no_linebreak", "keywords_no_linebreak", "whitespace_no_linebreak",
]

# alphabet chosen to hit each lexer mode
ALPHABET = [ord(c) for c in "'\"{}\\#-rux01.e_a:< \t\r\n"] + [0xE9, 0xD55C, 0x1F600, 0x301]

FRAGMENTS = [
    "'", '"', "{", "}", "\\", "#", "-", "#-", "-#", "r", "r#", 'r"', "r#'", "u", "\\u{", "x", "0", "1", "0x1f",
    "0b1_0", "0o7", "1.", "1.e", "1.0e-3", "1e+", ".", "..", "...", "..=", "e", "_", "_a", "a", "abc", ":", "<", "^",
    ">", " ", "  ", "\t", "\r\n", "\n", "\n  ", "\r", "é", "한", "😀", "́", "else", "else if", "else  if",
    "if", "let", ".if", "and", "or", "not", "=", "==", "+=", "->", "|", "(", ")", "[", "]", ",", ";", "@", "?",
    "$", "\x00", "\x7f", "x:", "{x:", "*<5", "}<3", "\n<3", '"{1:', "'{a:", '"{x:\n', "'{a:é<", "}'", '}"',
]


def repo_segments(limit_files, seg_bytes=1200):
    segs = []
    files = []
    for root, dirs, fs in os.walk(C.REPO):
        dirs[:] = [d for d in dirs if d not in ("target", ".git")]
        for f in fs:
            if f.endswith(".koto") or f.endswith(".md"):
                files.append(os.path.join(root, f))
    files.sort()
    for p in files[:limit_files]:
        try:
            text = open(p, encoding="utf-8").read()
        except Exception:
            continue
        cur = ""
        for line in text.splitlines(keepends=True):
            if len(cur) + len(line) > seg_bytes and cur:
                segs.append(cur)
                cur = ""
            cur += line
        if cur:
            segs.append(cur)
    return segs


def gen_cases(tier, seed):
    cases = []   # (origin, [cps])
    cdir = os.path.join(C.VERIF, "corpus", PID)
    if os.path.isdir(cdir):
        for f in sorted(os.listdir(cdir)):
            for line in open(os.path.join(cdir, f), encoding="utf-8"):
                line = line.strip()
                if line:
                    cases.append(("corpus", json.loads(line)))
    kmax = 3 if tier == "quick" else 4
    for k in range(0, kmax + 1):
        for t in itertools.product(ALPHABET, repeat=k):
            cases.append(("exhaustive", list(t)))
    rng = C.Rng(seed)
    n_soup = 3000 if tier == "quick" else 40000
    for _ in range(n_soup):
        n = 1 + rng.below(14)
        s = "".join(rng.choice(FRAGMENTS) for _ in range(n))
        cases.append(("soup", [ord(c) for c in s]))
    n_alpha = 2000 if tier == "quick" else 60000
    for _ in range(n_alpha):
        n = 4 + rng.below(9)
        cases.append(("alphabet-random", [rng.choice(ALPHABET) for _ in range(n)]))
    # multi-line tokens: each container with 1..3 line breaks of every kind inside, then more tokens
    containers = [("#-", "-#"), ("'", "'"), ('"', '"'), ("r'", "'"), ('r#"', '"#'), ("'a{", "}b'"), ("#- #- ", " -# -#"),
                  ("# ", ""), ("x = (", ")"), ("'\\", "'")]
    seps = ["\n", "\r\n", "\r"]
    bodies = ["", "a", " b ", "  ", "é"]
    for op, cl in containers:
        for k in (1, 2, 3):
            for combo in itertools.product(seps, repeat=k):
                if k == 3 and tier == "quick" and rng.below(3):
                    continue
                txt = op
                for sep in combo:
                    txt += rng.choice(bodies) + sep + rng.choice(bodies)
                txt += cl
                for tail in (" y", "\n  z = 1", "\r\n\tw"):
                    cases.append(("multiline-token", [ord(c) for c in "  " * rng.below(2) + txt + tail]))
    segs = repo_segments(40 if tier == "quick" else 100000)
    if tier == "quick":
        # a seeded sample of the repository's own files
        pick = [segs[rng.below(len(segs))] for _ in range(min(150, len(segs)))] if segs else []
    else:
        pick = segs
    for i, s in enumerate(pick):
        cases.append(("repo", [ord(c) for c in s]))
        if i % 5 == 0:
            cases.append(("repo-crlf", [ord(c) for c in s.replace("\n", "\r\n")]))
    return cases


def d_predicates(cps, toks):
    """the clauses of C09 on the implementation's own token stream.
    toks: rust tokens [name, st, hashes, sb, eb, sl, sc, el, ec, indent];
    returns (failures, known_classes_hit)"""
    s = "".join(chr(c) for c in cps).encode("utf-8")
    text = "".join(chr(c) for c in cps)
    boundaries = set()
    off = 0
    boundaries.add(0)
    for ch in text:
        off += len(ch.encode("utf-8"))
        boundaries.add(off)
    ts = []
    for t in toks:
        if t[0] == "Error":
            break
        ts.append(t)
    fails = []
    known = []
    prev_end = 0
    last_nl_inside_multiline = False   # the most recent line break lies inside a non-NewLine token
    for i, t in enumerate(ts):
        name, _, _, sb, eb, sl, sc, el, ec, indent = t
        if sb != prev_end:
            fails.append(f"T1 token {i} ({name}) starts at {sb}, previous ended at {prev_end}")
        if eb < sb or eb > len(s):
            fails.append(f"T1 token {i} ({name}) byte range {sb}..{eb} invalid (len {len(s)})")
            break
        if sb not in boundaries or eb not in boundaries:
            fails.append(f"T2 token {i} ({name}) range {sb}..{eb} not on character boundaries")
        if sl != s[:sb].count(b"\n"):
            fails.append(f"T3 token {i} ({name}) start line {sl}, line breaks before = {s[:sb].count(10)}")
        if el != s[:eb].count(b"\n"):
            fails.append(f"T3 token {i} ({name}) end line {el}, line breaks before = {s[:eb].count(10)}")
        if sb > 0 and s[sb - 1] == 10 and sc != 0:
            fails.append(f"T4 token {i} ({name}) start column {sc} directly after a line break")
        if eb > 0 and s[eb - 1] == 10 and ec != 0:
            fails.append(f"T4 token {i} ({name}) end column {ec} directly after a line break")
        # T5
        ls = s.rfind(b"\n", 0, sb) + 1
        lead = 0
        while ls + lead < len(s) and s[ls + lead] in (32, 9):
            lead += 1
        if indent != lead:
            if last_nl_inside_multiline:
                known.append("C09b")
            else:
                fails.append(f"T5 token {i} ({name}) indent {indent}, leading whitespace of its line = {lead}")
        if b"\n" in s[sb:eb]:
            last_nl_inside_multiline = (name != "NewLine")
        prev_end = eb
    return fails, known


def run(tier, seed):
    chk = C.Check(PID, tier, seed, "proof")
    # ---- tie no. 1: regenerate the tables from /repo
    gen_ok = True
    try:
        info, _ = k2v.gen_lex(os.path.join(C.COQ, UNIT, "GenLexTables.v"), os.path.join(C.BUILD, "gen", "lex.json"))
        chk.oblige("gen:lex-tables (k2v: Token enum, keyword list, symbol list, whitespace set)", True)
    except k2v.GenError as e:
        gen_ok = False
        info = None
        chk.oblige("gen:lex-tables", False, str(e))
        chk.log(f"translator failed: {e}")

    # ---- T: theorems
    model_ok = False
    if gen_ok:
        ok, log = C.coq_build(UNIT, ["LexRun.vo"])
        model_ok = ok
        if not ok:
            chk.log("model does not compile against the regenerated tables:\n" + log[-1500:])
        pr = C.check_props_file(UNIT, "C09Props", PINNED)
        hits = C.forbidden_scan(UNIT)
        if not pr["ok"]:
            chk.log("C09Props does not check:\n" + pr["log"][-2500:])
        for name in PINNED:
            good = pr["ok"] and name not in pr["missing"] and ("Print Assumptions " + name) not in pr["missing"] \
                and not pr["bad_axioms"] and not hits
            chk.oblige("thm:" + name, good)
        if hits:
            chk.log("forbidden constructs: " + "; ".join(hits))
        if pr["bad_axioms"]:
            chk.log("axioms outside the allowlist: " + ", ".join(pr["bad_axioms"]))
        axioms = pr["axioms"]
    else:
        for name in PINNED:
            chk.oblige("thm:" + name, False, "tables could not be regenerated")
        axioms = []

    # ---- R + D
    binp, blog = C.build_harness("kh_lex")
    if not binp:
        chk.log("harness build failed:\n" + blog[-3000:])
        p = chk.violation("build", {"kind": "obligation", "correspondence": "kh_lex does not build against /repo",
                                    "log": blog[-3000:]}, no_input=True)
        return chk.finish("n/a")
    cases = gen_cases(tier, seed)
    os.makedirs(os.path.join(C.BUILD, "cases"), exist_ok=True)
    cf = os.path.join(C.BUILD, "cases", f"c09-{os.getpid()}.jsonl")
    with open(cf, "w") as f:
        for _, cps in cases:
            f.write(json.dumps(cps) + "\n")
    rc, out = C.sh([binp, cf], timeout=3600)
    os.remove(cf)
    lines = [json.loads(l) for l in out.splitlines() if l.startswith("{")]
    if rc != 0 or len(lines) != len(cases) + 1:
        chk.log(f"harness run failed rc={rc}: {out[-1000:]}")
        chk.violation("harness", {"kind": "obligation", "correspondence": "kh_lex crashed", "log": out[-2000:]}, no_input=True)
        return chk.finish("n/a")
    utab = lines[-1]["utab"]
    impl = lines[:-1]

    dist = {}
    d_fail = []       # (case index, failures)
    skipped = 0
    todo = []         # indices to run through the model
    for i, ((origin, cps), r) in enumerate(zip(cases, impl)):
        dist[origin] = dist.get(origin, 0) + 1
        if "skip" in r:
            skipped += 1
            continue
        if "panic" in r:
            d_fail.append((i, [f"T6 lexer panicked: {r['panic']} at {r.get('at')}"]))
            continue
        if r.get("overrun"):
            d_fail.append((i, ["T6 more than 2|s|+3 tokens without reaching the end or an error"]))
            continue
        fails, known = d_predicates(cps, r["toks"])
        for k in known:
            if k == "C09b":
                chk.known("C09b token after a multi-line comment/string reports the indentation of the line where that "
                          "token began (e.g. '  #- a\\n-# x')")
        if fails:
            d_fail.append((i, fails))
        kinds = {t[0] for t in r["toks"]}
        chk.count_case(json.dumps(cps), len(kinds) >= 2)
        todo.append(i)

    disagreements = []
    if model_ok and info:
        names = info["variants"]
        ut = "[" + "; ".join(f"({c}, ({w}, ({str(a).lower()}, ({str(b).lower()}, {str(e).lower()}))))" for c, w, a, b, e in utab) + "]"
        header = "From KV.lex Require Import LexBase LexModel LexRun.\nOpen Scope N_scope.\n" \
                 f"Definition U : utab := {ut}.\n"
        terms = [f"lex_out U {C.coq_list(cases[i][1])}" for i in todo]
        try:
            vals = C.coq_eval(UNIT, header, terms, tag="c09", per_shard=600)
        except RuntimeError as e:
            chk.log(str(e)[-3000:])
            vals = None
        if vals is None:
            chk.oblige("corr:model-evaluates", False)
        else:
            for i, v in zip(todo, vals):
                fault, mtoks = v
                itoks = impl[i]["toks"]
                m = [[names[t[0]]] + t[1:] for t in mtoks]
                if fault != 0 or m != itoks:
                    disagreements.append((i, m, fault))
            chk.oblige("corr:model-vs-koto_lexer exact token streams", not disagreements,
                       f"{len(disagreements)} disagreements")
    else:
        chk.oblige("corr:model-vs-koto_lexer exact token streams", False, "model unavailable")

    # ---- verdict
    def shrink_key(x):
        return len(cases[x[0]][1])

    if d_fail:
        d_fail.sort(key=shrink_key)
        i, fails = d_fail[0]
        chk.violation("input", {
            "kind": "input", "case_codepoints": cases[i][1], "case_text": "".join(chr(c) for c in cases[i][1]),
            "impl_says": impl[i], "predicate_failed": fails,
            "others": len(d_fail) - 1,
            "how_to_rerun": f"./check C09 --replay <this file>"})
        chk.log(f"{len(d_fail)} inputs violate C09 on the implementation; smallest: {cases[i][1]} {fails[:2]}")
    broken = [o for o in chk.obligations if not o[1]]
    if broken and not d_fail:
        payload = {"kind": "obligation", "broken": [o[0] + (": " + o[2] if o[2] else "") for o in broken]}
        if disagreements:
            disagreements.sort(key=shrink_key)
            i, m, fault = disagreements[0]
            payload.update({"smallest_disagreement": {"case_codepoints": cases[i][1],
                                                      "case_text": "".join(chr(c) for c in cases[i][1]),
                                                      "model_says": m, "impl_says": impl[i]["toks"],
                                                      "model_fault": fault},
                            "note": "the implementation's own token stream satisfies every clause of C09 on every "
                                    "explored input, but it no longer matches the model the theorems are about"})
            chk.log(f"{len(disagreements)} model/impl disagreements; smallest: {cases[i][1]}")
        chk.violation("obligation", payload, no_input=True)

    tb = ["Coq 8.16.1 kernel (coqc); vm_compute used for table sweeps and for evaluating the model",
          "axioms reported by Print Assumptions: " + (", ".join(axioms) if axioms else "none (closed under the global context)"),
          "tools/k2v.py transcription of Token enum / keyword / symbol / whitespace tables",
          "Unicode oracles (width, XID_Start/Continue, first grapheme cluster) are Section variables; instantiated from "
          "tables dumped from the crates koto links; inputs on which the grapheme rule disagrees with the crate are dropped",
          "kh_lex (Rust harness) and checks/c09.py (comparison, D-predicates)"]
    return chk.finish(
        rule="strings: committed corpus + exhaustive up to length k over a 25-symbol mode alphabet + seeded token soup + multi-line tokens with LF/CRLF/CR inside + "
             "seeded samples of /repo's .koto/.md text; non-trivial = token stream has >= 2 distinct token kinds; "
             "distinct by code-point list",
        explanation="theorems over the lexer model for all strings; exact model-vs-implementation token-stream equality; "
                    "C09's clauses evaluated directly on the implementation's tokens",
        trusted_base=tb,
        extra={"distribution": dist, "dropped_by_oracle_check": skipped, "exhaustive": False,
               "model_impl_disagreements": len(disagreements)})


def replay(path, args):
    data = json.load(open(path))
    cps = data.get("case_codepoints") or data.get("smallest_disagreement", {}).get("case_codepoints")
    if cps is None:
        print("replay file names an obligation, not an input:", json.dumps(data.get("broken")))
        return run("quick", data.get("seed", 1))
    binp, blog = C.build_harness("kh_lex")
    cf = os.path.join(C.BUILD, "cases", "c09-replay.jsonl")
    os.makedirs(os.path.dirname(cf), exist_ok=True)
    with open(cf, "w") as f:
        f.write(json.dumps(cps) + "\n")
    rc, out = C.sh([binp, cf])
    r = json.loads(out.splitlines()[0])
    print(json.dumps(r))
    if "panic" in r:
        print(f"VIOLATION property={PID} replay={path}")
        return 1
    fails, known = d_predicates(cps, r.get("toks", []))
    for f in fails:
        print("  " + f)
    if fails:
        print(f"VIOLATION property={PID} replay={path}")
        return 1
    print("no clause of C09 fails on this input")
    return 0
