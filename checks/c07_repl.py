"""C07, REPL component: crates/cli/src/repl.rs keeps ONE runtime for a whole interactive session.

The built `koto` binary is driven through a pseudo terminal (rustyline needs a tty).  A session is a list of
ENTRIES (what a user means to evaluate); every entry is typed line by line; after every line the prompt that
comes back tells whether the REPL is collecting (`… `) or idle (`» `).

Expected behaviour is computed by a small reference (`simulate`): every completed entry is evaluated exactly once,
on the one runtime, in order; an entry that fails keeps the effects made before the failure; an entry dropped
with Ctrl-C or rejected by the compiler has no effect; after any of them the prompt is the idle one.
The Coq model of Repl::on_line (coq/rt/ReplModel.v) is run on the same typed lines with the compiler / runtime
answers known by construction, and its "buffer empty?" after every line is compared with the observed prompt.
"""
import concurrent.futures
import os
import pty
import re
import select
import shutil
import signal
import struct
import fcntl
import tempfile
import termios
import time

from vlib import common as C

PROMPT = "» "
CONT = "… "
ANSI = re.compile(r"\x1b\[[0-9;?]*[ -/]*[@-~]|\x1b\][^\x07\x1b]*(?:\x07|\x1b\\)|\x1b[=>()][0-9A-Za-z]?|\r")
TAIL = re.compile(r"(?:» |… *)$")


def build_cli():
    """cargo build -p koto_cli for the current checkout into its own target dir; returns (path|None, log)"""
    tag = C.repo_tag()
    target = os.path.join(C.BUILD, "cargo-cli-" + tag)
    with C.Lock("cargo-cli-" + tag):
        rc, out = C.sh(["cargo", "build", "--offline", "-p", "koto_cli", "--target-dir", target], cwd=C.REPO, timeout=3000)
    exe = os.path.join(target, "debug", "koto")
    if rc != 0 or not os.path.exists(exe):
        return None, out
    return exe, out


# ---------------------------------------------------------------------------------------------------
# entries

def marker(n):
    """(statement printing the marker, the marker as it appears in the OUTPUT — the echo of the typed text differs)"""
    return f"print('M{{{n} * 1}}x')", f"M{n}x"


HEADERS = ["if true", "for q in 0..1", "if 1 < 2", "for q in (7,)"]      # each runs its body exactly once
# (name, statement for a line of a block, expression usable inside a one-line tuple or None)
FAILS = [("throw", "throw 'boom'", "throw 'boom'"), ("runtime-error", "zz = 1 + 'a'", "(1 + 'a')"),
         ("type-check", "let tt: String = 1", None), ("native", "string.to_number(5, 6, 7)", "string.to_number(5, 6, 7)")]


def gen_entry(rng, n, kinds):
    """returns dict(kind, lines=[(text, role)], effects=[values pushed, in order, if the entry runs], marks=[..],
    completes: the entry is handed to the runtime; fails: it ends in a runtime error;
    oracle per line for the Coq model)"""
    kind = rng.choice(kinds)
    mk_src, mk = marker(n)
    if kind == "single-ok":
        return {"kind": kind, "lines": [f"(cnt.push({n}), {mk_src})"], "pushes": [n], "marks": {mk: 1}, "runs": True}
    if kind == "single-fail":
        fk, _, fe = rng.choice([f for f in FAILS if f[2]])
        return {"kind": kind + ":" + fk, "lines": [f"(cnt.push({n}), {mk_src}, {fe}, cnt.push({n + 1000}))"],
                "pushes": [n], "marks": {mk: 1}, "runs": True}
    if kind == "single-compile-error":
        return {"kind": kind, "lines": [f"(cnt.push({n}), {mk_src}))"], "pushes": [], "marks": {mk: 0}, "runs": False}
    if kind == "help":
        return {"kind": kind, "lines": [rng.choice(["help", "help io", "help string.to_number"])], "pushes": [], "marks": {},
                "runs": False, "help": True}
    if kind == "blank":
        return {"kind": kind, "lines": [""], "pushes": [], "marks": {}, "runs": True}
    depth = 1 + rng.below(3)
    headers = [rng.choice(HEADERS) for _ in range(depth)]
    if kind == "multi-ok":
        body = [f"cnt.push {n}", mk_src, f"cnt.push {n + 1}"]
        return {"kind": f"{kind}/d{depth}", "lines": headers + body + [""], "pushes": [n, n + 1], "marks": {mk: 1}, "runs": True,
                "multi": True}
    if kind == "multi-fail":
        fk, fs, _ = rng.choice(FAILS)
        body = [f"cnt.push {n}", mk_src, fs, f"cnt.push {n + 1000}"]
        return {"kind": f"{kind}:{fk}/d{depth}", "lines": headers + body + [""], "pushes": [n], "marks": {mk: 1}, "runs": True,
                "multi": True, "fails": True}
    if kind == "multi-compile-error":
        body = [f"cnt.push {n}", mk_src, "x = )"]
        return {"kind": f"{kind}/d{depth}", "lines": headers + body + [""], "pushes": [], "marks": {mk: 0}, "runs": False,
                "multi": True, "compile_error": True}
    if kind == "multi-ctrl-c":
        body = [f"cnt.push {n}", mk_src]
        return {"kind": f"{kind}/d{depth}", "lines": headers + body + ["\x03"], "pushes": [], "marks": {mk: 0}, "runs": False,
                "multi": True}
    if kind == "fn-def-and-call":
        fk, fs, _ = rng.choice(FAILS + [("none", "cnt.push 0 - 1", None)])
        lines = [f"f{n} = |a|", f"cnt.push a", mk_src, fs, ""]
        return {"kind": f"{kind}:{fk}", "lines": lines, "pushes": [], "marks": {mk: 0}, "runs": True, "multi": True,
                "then_call": (f"f{n} {n}", [n] + ([-1] if fk == "none" else []), mk)}
    raise KeyError(kind)


ALL_KINDS = ["single-ok", "single-fail", "single-compile-error", "help", "blank", "multi-ok", "multi-fail", "multi-fail",
             "multi-fail", "multi-compile-error", "multi-ctrl-c", "fn-def-and-call"]


def gen_session(rng, length):
    entries = [{"kind": "init", "lines": ["cnt = []"], "pushes": [], "marks": {}, "runs": True}]
    n = 10
    for _ in range(length):
        e = gen_entry(rng, n, ALL_KINDS)
        entries.append(e)
        n += 10
        if "then_call" in e:
            call, pushes, mk = e["then_call"]
            entries.append({"kind": "call-defined-fn", "lines": [call], "pushes": pushes, "marks": {mk: 1}, "runs": True})
        # an entry that reads the state
        entries.append({"kind": "probe", "lines": [f"print 'S{{{n} * 1}}={{cnt}}E'"], "pushes": [], "marks": {}, "runs": True,
                        "probe": n})
        n += 10
    return entries


def corpus_sessions():
    """the seeded scenario and its neighbours"""
    def probe(n):
        return {"kind": "probe", "lines": [f"print 'S{{{n} * 1}}={{cnt}}E'"], "pushes": [], "marks": {}, "runs": True, "probe": n}
    init = {"kind": "init", "lines": ["cnt = []"], "pushes": [], "marks": {}, "runs": True}
    m1s, m1 = marker(1)
    m2s, m2 = marker(2)
    s1 = [init,
          {"kind": "multi-fail:throw/d1", "lines": ["for q in 0..1", "cnt.push 1", m1s, "throw 'boom'", ""], "pushes": [1],
           "marks": {m1: 1}, "runs": True, "multi": True, "fails": True},
          probe(5),
          {"kind": "blank", "lines": [""], "pushes": [], "marks": {}, "runs": True},
          {"kind": "single-ok", "lines": [f"(cnt.push(2), {m2s})"], "pushes": [2], "marks": {m2: 1}, "runs": True},
          probe(6)]
    s2 = [init,
          {"kind": "multi-fail:type-check/d2", "lines": ["if true", "for q in 0..1", "cnt.push 1", m1s, "let tt: String = 1", ""],
           "pushes": [1], "marks": {m1: 1}, "runs": True, "multi": True, "fails": True},
          {"kind": "multi-ok/d1", "lines": ["if true", "cnt.push 2", m2s, ""], "pushes": [2], "marks": {m2: 1}, "runs": True,
           "multi": True},
          probe(7)]
    return [s1, s2]


# ---------------------------------------------------------------------------------------------------
# reference semantics and model term

def simulate(entries):
    """-> per entry: expected cnt after it; expected marker counts; expected prompt after each typed line"""
    cnt = []
    marks = {}
    prompts = []       # per typed line: True = idle prompt expected afterwards
    probes = {}
    for e in entries:
        for i, l in enumerate(e["lines"]):
            last = i == len(e["lines"]) - 1
            prompts.append(last)          # every entry ends at the idle prompt; before that the REPL collects
        if e["runs"]:
            cnt += e["pushes"]
        for m, k in e["marks"].items():
            marks[m] = marks.get(m, 0) + k
        if "probe" in e:
            probes[e["probe"]] = list(cnt)
    return marks, probes, prompts


def model_term(entries):
    """the typed lines as events of coq/rt/ReplModel.v with the compiler's / runtime's answers known by construction"""
    evs = []
    lid = 0
    for e in entries:
        lines = e["lines"]
        multi = e.get("multi", False)
        for i, l in enumerate(lines):
            lid += 1
            if l == "\x03":
                evs.append("CtrlC")
                continue
            blank = l.strip() == ""
            if multi and i == 0:
                comp, run_ok = "CIndent", "true"
            elif multi and not blank:
                comp, run_ok = "COk", "true"          # collecting: not consulted
            else:
                # the line (or the joined entry) is evaluated
                if e.get("compile_error") or e["kind"] == "single-compile-error":
                    comp = "COther"
                else:
                    comp = "COk"
                run_ok = "false" if (e.get("fails") or e["kind"].startswith("single-fail") or e.get("help")) else "true"
                if e["kind"] == "call-defined-fn" and len(e["pushes"]) == 1:
                    run_ok = "false"
            if e.get("help"):
                comp = "COk"                           # `help` alone compiles (an identifier) and fails at run time
            helpb = "true" if e.get("help") else "false"
            evs.append(f"Line (mkLine {lid} {str(blank).lower()} 0) (mkOracle {comp} {helpb} {run_ok} false)")
    return "repl_out [" + "; ".join(evs) + "]"


# ---------------------------------------------------------------------------------------------------
# driving the binary

def clean(raw):
    return ANSI.sub("", raw.decode("utf-8", "replace"))


class Pty:
    def __init__(self, exe, home):
        self.pid, self.fd = pty.fork()
        if self.pid == 0:
            env = {"HOME": home, "TERM": "xterm", "PATH": "/usr/bin:/bin"}
            os.execve(exe, [exe], env)
        fcntl.ioctl(self.fd, termios.TIOCSWINSZ, struct.pack("HHHH", 50, 200, 0, 0))

    def read_until_prompt(self, need_newline, timeout=25.0, quiet=0.12):
        """reads until the cleaned output ends with a prompt and nothing more arrives for `quiet` seconds"""
        raw = b""
        end = time.time() + timeout
        while time.time() < end:
            r, _, _ = select.select([self.fd], [], [], quiet)
            if r:
                try:
                    data = os.read(self.fd, 65536)
                except OSError:
                    return raw, False
                if not data:
                    return raw, False
                raw += data
                continue
            text = clean(raw)
            if TAIL.search(text) and (not need_newline or "\n" in text):
                return raw, True
        return raw, False

    def close(self):
        try:
            os.write(self.fd, b"\x04")
        except OSError:
            pass
        t0 = time.time()
        while time.time() - t0 < 3:
            try:
                p, _ = os.waitpid(self.pid, os.WNOHANG)
            except ChildProcessError:
                break
            if p:
                break
            time.sleep(0.05)
        else:
            try:
                os.kill(self.pid, signal.SIGKILL)
                os.waitpid(self.pid, 0)
            except (ProcessLookupError, ChildProcessError):
                pass
        try:
            os.close(self.fd)
        except OSError:
            pass


def run_session(exe, entries, workdir):
    """-> dict(ok, transcript, prompts=[True=idle after line i], error)"""
    home = tempfile.mkdtemp(prefix="home-", dir=workdir)
    p = Pty(exe, home)
    transcript = ""
    prompts = []
    try:
        raw, ok = p.read_until_prompt(False, timeout=40.0)
        if not ok:
            return {"ok": False, "error": "the REPL did not show its first prompt", "transcript": clean(raw), "prompts": []}
        for e in entries:
            for l in e["lines"]:
                if l == "\x03":
                    os.write(p.fd, b"\x03")
                else:
                    os.write(p.fd, l.encode() + b"\r")
                raw, ok = p.read_until_prompt(True)
                text = clean(raw)
                transcript += text
                if not ok:
                    return {"ok": False, "error": f"no prompt after typing {l!r}", "transcript": transcript, "prompts": prompts}
                prompts.append(text.rstrip(" ").endswith("»"))
        return {"ok": True, "transcript": transcript, "prompts": prompts}
    finally:
        p.close()
        shutil.rmtree(home, ignore_errors=True)


def judge(entries, res):
    """the D-clauses on one driven session; returns list of failures"""
    marks, probes, prompts = simulate(entries)
    if not res["ok"]:
        return [res["error"]]
    fails = []
    # output lines only (the echo of what was typed contains the marker EXPRESSIONS, never their values)
    t = res["transcript"]
    for m, k in sorted(marks.items()):
        got = len(re.findall(re.escape(m), t))
        if got != k:
            fails.append(f"marker {m} printed {got} times, expected {k} (every completed entry is evaluated exactly once; "
                         f"dropped / rejected entries never)")
    for n, want in sorted(probes.items()):
        found = re.findall(rf"S{n}=\[(.*?)\]E", t)
        got = [[int(x) for x in f.split(",") if x.strip()] for f in found]
        if got != [want]:
            fails.append(f"state read by entry S{n}: {got}, expected once {want} (only the completed effects, once each)")
    typed = [l for e in entries for l in e["lines"]]
    for i, (g, w) in enumerate(zip(res["prompts"], prompts)):
        if g != w:
            fails.append(f"after typing line {i + 1} ({typed[i]!r}) the REPL shows the {'idle' if g else 'continuation'} prompt, "
                         f"expected the {'idle' if w else 'continuation'} one")
            break
    return fails


def run_all(exe, sessions, workers=8):
    workdir = os.path.join(C.BUILD, "cases", f"c07-repl-{os.getpid()}")
    os.makedirs(workdir, exist_ok=True)
    try:
        with concurrent.futures.ThreadPoolExecutor(max_workers=workers) as ex:
            return list(ex.map(lambda s: run_session(exe, s, workdir), sessions))
    finally:
        shutil.rmtree(workdir, ignore_errors=True)
