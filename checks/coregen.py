"""Core Koto programs as ASTs (Python tuples), printed BOTH as Gallina terms of
coq/core/Ast.v and as Koto source text, plus seeded generators.

AST nodes: ("null",) ("bool", b) ("int", z) ("flt", pyfloat) ("str", "text")
("interp", [str | node]) ("id", n) ("neg", e) ("not", e) ("bin", op, a, b)
("cmp", first, [(op, e)]) ("and", a, b) ("or", a, b)
("assign", n, hint|None, e) ("opassign", op, n, e) ("multi", [target], e)
("list", [e]) ("tuple", [e]) ("map", [(key, e)]) ("range", a, b, incl)
("index", e, i) ("indexassign", e, i, v) ("access", e, key) ("accessassign", e, key, v)
("if", [(c, body)], else|None) ("switch", [(c, body)], else|None)
("while", c, b) ("until", c, b) ("loop", b) ("for", [target], it, b)
("break", e|None) ("continue",)
("fn", [(target, default|None)], variadic|None, ret_hint|None, body)
("call", f, [args]) ("pipe", a, f, [args]) ("return", e|None)
("match", [subjects], [([[pattern]], guard|None, body)], else|None)
("throw", e) ("try", body, [(id|None, hint|None, body)], finally|None)
("print", e) ("size", e) ("push", l, v) ("insert", m, k, v) ("removekey", m, k)
("copy", e) ("deepcopy", e) ("block", [e])
targets: ("tid", n, hint|None) ("twild",) ("ttuple", [target])
patterns: ("pwild",) ("pnull",) ("pbool", b) ("pint", z) ("pstr", s) ("pid", n, hint|None)
          ("ptuple", [p]) ("prest", [before], restid|None|"_", [after]) ("pmap", [(key, id)]) ("por", [p])
hint: (name, optional)
"""
import struct

BINOPS = {"+": "OAdd", "-": "OSub", "*": "OMul", "/": "ODiv", "%": "ORem", "^": "OPow"}
CMPOPS = {"<": "CLt", "<=": "CLe", ">": "CGt", ">=": "CGe", "==": "CEq", "!=": "CNe"}
PREC = {"or": 1, "and": 2, "cmp": 3, "+": 5, "-": 5, "*": 6, "/": 6, "%": 6, "^": 8, "unary": 7}


# ------------------------------------------------------------------ Coq side
def cbytes(s):
    if isinstance(s, str):
        s = s.encode("utf-8")
    return "[" + "; ".join(str(b) for b in s) + "]%N"


def cz(z):
    return f"({z})%Z"


def copt(x, f):
    return "None" if x is None else f"(Some {f(x)})"


def clist(xs, f):
    return "[" + "; ".join(f(x) for x in xs) + "]"


def chint(h):
    return f"(mkhint {cbytes(h[0])} {'true' if h[1] else 'false'})"


def fbits(x):
    return struct.unpack("<Q", struct.pack("<d", x))[0]


def ctarget(t):
    k = t[0]
    if k == "tid":
        return f"(TId {t[1]}%N {copt(t[2], chint)})"
    if k == "twild":
        return "TWild"
    return f"(TTuple {clist(t[1], ctarget)})"


def cpat(p):
    k = p[0]
    if k == "pwild":
        return f"(PWild {copt(p[1] if len(p) > 1 else None, chint)})"
    if k == "pnull":
        return "PNull"
    if k == "pbool":
        return f"(PBool {'true' if p[1] else 'false'})"
    if k == "pint":
        return f"(PInt {cz(p[1])})"
    if k == "pstr":
        return f"(PStr {cbytes(p[1])})"
    if k == "pid":
        return f"(PId {p[1]}%N {copt(p[2], chint)})"
    if k == "ptuple":
        return f"(PTuple {clist(p[1], cpat)})"
    if k == "prest":
        rest = "None" if p[2] in (None, "_") else f"(Some {p[2]}%N)"
        return f"(PTupleRest {clist(p[1], cpat)} {rest} {clist(p[3], cpat)})"
    if k == "pmap":
        return "(PMap " + clist(p[1], lambda kv: f"({cbytes(kv[0])}, " + ("None" if kv[1] is None else f"Some {kv[1]}%N") + ")") + ")"
    if k == "por":
        return f"(POr {clist(p[1], cpat)})"
    raise ValueError(k)


def to_coq(e):
    k = e[0]
    c = to_coq
    if k == "null":
        return "ENull"
    if k == "bool":
        return f"(EBool {'true' if e[1] else 'false'})"
    if k == "int":
        return f"(EInt {cz(e[1])})"
    if k == "flt":
        return f"(EFlt {cz(fbits(e[1]))})"
    if k == "str":
        return f"(EStr {cbytes(e[1])})"
    if k == "interp":
        return "(EInterp " + clist(e[1], lambda p: f"(inl {cbytes(p)})" if isinstance(p, str) else f"(inr {c(p)})") + ")"
    if k == "id":
        return f"(EId {e[1]}%N)"
    if k == "neg":
        return f"(ENeg {c(e[1])})"
    if k == "not":
        return f"(ENot {c(e[1])})"
    if k == "bin":
        return f"(EBin {BINOPS[e[1]]} {c(e[2])} {c(e[3])})"
    if k == "cmp":
        return f"(ECmp {c(e[1])} " + clist(e[2], lambda oe: f"({CMPOPS[oe[0]]}, {c(oe[1])})") + ")"
    if k == "and":
        return f"(EAnd {c(e[1])} {c(e[2])})"
    if k == "or":
        return f"(EOr {c(e[1])} {c(e[2])})"
    if k == "assign":
        return f"(EAssign {e[1]}%N {copt(e[2], chint)} {c(e[3])})"
    if k == "opassign":
        return f"(EOpAssign {BINOPS[e[1]]} {e[2]}%N {c(e[3])})"
    if k == "multi":
        return f"(EMulti {clist(e[1], ctarget)} {c(e[2])})"
    if k == "list":
        return f"(EList {clist(e[1], c)})"
    if k == "tuple":
        return f"(ETuple {clist(e[1], c)})"
    if k == "map":
        return "(EMap " + clist(e[1], lambda kv: f"({cbytes(kv[0])}, {c(kv[1])})") + ")"
    if k == "range":
        return f"(ERange {c(e[1])} {c(e[2])} {'true' if e[3] else 'false'})"
    if k == "index":
        return f"(EIndex {c(e[1])} {c(e[2])})"
    if k == "indexassign":
        return f"(EIndexAssign {c(e[1])} {c(e[2])} {c(e[3])})"
    if k == "access":
        return f"(EAccess {c(e[1])} {cbytes(e[2])})"
    if k == "accessassign":
        return f"(EAccessAssign {c(e[1])} {cbytes(e[2])} {c(e[3])})"
    if k in ("if", "switch"):
        ctor = "EIf" if k == "if" else "ESwitch"
        return f"({ctor} " + clist(e[1], lambda cb: f"({c(cb[0])}, {c(cb[1])})") + f" {copt(e[2], c)})"
    if k == "while":
        return f"(EWhile {c(e[1])} {c(e[2])})"
    if k == "until":
        return f"(EUntil {c(e[1])} {c(e[2])})"
    if k == "loop":
        return f"(ELoop {c(e[1])})"
    if k == "for":
        return f"(EFor {clist(e[1], ctarget)} {c(e[2])} {c(e[3])})"
    if k == "break":
        return f"(EBreak {copt(e[1], c)})"
    if k == "continue":
        return "EContinue"
    if k == "fn":
        ps = clist(e[1], lambda pd: f"({ctarget(pd[0])}, {copt(pd[1], c)})")
        var = "None" if e[2] is None else f"(Some {e[2]}%N)"
        return f"(EFn {ps} {var} {copt(e[3], chint)} {c(e[4])})"
    if k == "genfn":
        ps = clist(e[1], lambda pd: f"({ctarget(pd[0])}, {copt(pd[1], c)})")
        var = "None" if e[2] is None else f"(Some {e[2]}%N)"
        return f"(EGenFn {ps} {var} {c(e[3])})"
    if k == "yield":
        return f"(EYield {c(e[1])})"
    if k == "next":
        return f"(ENext {c(e[1])})"
    if k == "totuple":
        return f"(EToTuple {c(e[1])})"
    if k == "tolist":
        return f"(EToList {c(e[1])})"
    if k == "call":
        return f"(ECall {c(e[1])} {clist(e[2], c)})"
    if k == "callp":
        return f"(ECallP {c(e[1])} " + clist(e[2], lambda a: f"({'true' if a[0] else 'false'}, {c(a[1])})") + ")"
    if k == "pipe":
        return f"(EPipe {c(e[1])} {c(e[2])} {clist(e[3], c)})"
    if k == "return":
        return f"(EReturn {copt(e[1], c)})"
    if k == "match":
        def arm(a):
            alts = clist(a[0], lambda alt: clist(alt, cpat))
            return f"({alts}, {copt(a[1], c)}, {c(a[2])})"
        return f"(EMatch {clist(e[1], c)} {clist(e[2], arm)} {copt(e[3], c)})"
    if k == "throw":
        return f"(EThrow {c(e[1])})"
    if k == "try":
        def cat(x):
            y = "None" if x[0] is None else f"(Some {x[0]}%N)"
            return f"({y}, {copt(x[1], chint)}, {c(x[2])})"
        return f"(ETry {c(e[1])} {clist(e[2], cat)} {copt(e[3], c)})"
    if k == "print":
        return f"(EPrint {c(e[1])})"
    if k == "size":
        return f"(ESize {c(e[1])})"
    if k == "push":
        return f"(EPush {c(e[1])} {c(e[2])})"
    if k == "insert":
        return f"(EInsert {c(e[1])} {c(e[2])} {c(e[3])})"
    if k == "removekey":
        return f"(ERemoveKey {c(e[1])} {c(e[2])})"
    if k == "copy":
        return f"(ECopy {c(e[1])})"
    if k == "deepcopy":
        return f"(EDeepCopy {c(e[1])})"
    if k == "block":
        return f"(EBlock {clist(e[1], c)})"
    raise ValueError(k)


# ----------------------------------------------------------------- Koto side
def kid(n):
    return f"v{n}"


def kstr_lit(s):
    out = "'"
    for ch in s:
        if ch == "'":
            out += "\\'"
        elif ch == "\\":
            out += "\\\\"
        elif ch == "{":
            out += "\\{"
        elif ch == "\n":
            out += "\\n"
        elif ch == "\t":
            out += "\\t"
        else:
            out += ch
    return out + "'"


def khint(h):
    return h[0] + ("?" if h[1] else "")


def ktarget(t, top=True):
    k = t[0]
    if k == "tid":
        return kid(t[1]) + (f": {khint(t[2])}" if t[2] else "")
    if k == "twild":
        return "_"
    inner = ", ".join(ktarget(x, False) for x in t[1])
    return f"({inner})"


def kpat(p):
    k = p[0]
    if k == "pwild":
        return "_" + (f": {khint(p[1])}" if len(p) > 1 and p[1] else "")
    if k == "pnull":
        return "null"
    if k == "pbool":
        return "true" if p[1] else "false"
    if k == "pint":
        return str(p[1])
    if k == "pstr":
        return kstr_lit(p[1])
    if k == "pid":
        return kid(p[1]) + (f": {khint(p[2])}" if p[2] else "")
    if k == "ptuple":
        return "(" + ", ".join(kpat(x) for x in p[1]) + ("," if len(p[1]) == 1 else "") + ")"
    if k == "prest":
        rest = "..." if p[2] in (None, "_") else f"{kid(p[2])}..."
        parts = [kpat(x) for x in p[1]] + [rest] + [kpat(x) for x in p[3]]
        return "(" + ", ".join(parts) + ")"
    if k == "pmap":
        return "{" + ", ".join(f"{key} as " + ("_" if x is None else kid(x)) for key, x in p[1]) + "}"
    if k == "por":
        return " or ".join(kpat(x) for x in p[1])
    raise ValueError(k)


def is_blocky(e):
    """needs an indented block to print (cannot be written inline)"""
    k = e[0]
    if k in ("while", "until", "loop", "for", "try", "match", "switch"):
        return True
    if k == "block":
        return len(e[1]) != 1 or is_blocky(e[1][0])
    if k == "if":
        return any(is_blocky(b) for _, b in e[1]) or (e[2] is not None and is_blocky(e[2])) or len(e[1]) > 1
    if k == "fn":
        return is_blocky(e[4])
    if k == "genfn":
        return True
    if k == "yield":
        return is_blocky(e[1])
    if k in ("assign",):
        return is_blocky(e[3])
    if k in ("opassign", "multi"):
        return is_blocky(e[-1])
    if k == "return" or k == "break" or k == "throw":
        return e[1] is not None and is_blocky(e[1])
    return False


class Printer:
    def __init__(self, minimal_parens=False):
        self.minp = minimal_parens

    # inline expression; ctx_prec: binding power of the enclosing operator
    def ex(self, e, prec=0):
        k = e[0]
        x = self.ex

        def wrap(s, p):
            if self.minp:
                return f"({s})" if p < prec else s
            return f"({s})" if prec > 0 else s

        if k == "null":
            return "null"
        if k == "bool":
            return "true" if e[1] else "false"
        if k == "int":
            return str(e[1]) if e[1] >= 0 else (f"({e[1]})" if prec > 0 else str(e[1]))
        if k == "flt":
            r = repr(float(e[1]))
            if "e" in r or "inf" in r or "nan" in r:
                raise ValueError("unprintable float")
            return r if e[1] >= 0 and not r.startswith("-") else f"({r})"
        if k == "str":
            return kstr_lit(e[1])
        if k == "interp":
            out = "'"
            for p in e[1]:
                out += kstr_lit(p)[1:-1] if isinstance(p, str) else "{" + x(p) + "}"
            return out + "'"
        if k == "id":
            return kid(e[1])
        if k == "neg":
            return wrap("-" + x(e[1], 9), PREC["unary"])
        if k == "not":
            # koto's `not` takes a whole expression as its operand (`not a != b` is `not (a != b)`),
            # so it is parenthesised whenever it is an operand itself, in both printing modes
            s = "not " + x(e[1], 9)
            return f"({s})" if prec > 0 else s
        if k == "bin":
            p = PREC[e[1]]
            # left-associative: the right operand needs strictly higher precedence
            return wrap(f"{x(e[2], p)} {e[1]} {x(e[3], p + 1)}", p)
        if k == "cmp":
            p = PREC["cmp"]
            s = x(e[1], p + 1)
            for op, r in e[2]:
                s += f" {op} {x(r, p + 1)}"
            return wrap(s, p)
        if k in ("and", "or"):
            p = PREC[k]
            return wrap(f"{x(e[1], p)} {k} {x(e[2], p + 1)}", p)
        if k == "assign":
            if e[2]:
                return f"(let {kid(e[1])}: {khint(e[2])} = {x(e[3])})" if prec > 0 else f"let {kid(e[1])}: {khint(e[2])} = {x(e[3])}"
            s = f"{kid(e[1])} = {x(e[3])}"
            return f"({s})" if prec > 0 else s
        if k == "opassign":
            s = f"{kid(e[2])} {e[1]}= {x(e[3])}"
            return f"({s})" if prec > 0 else s
        if k == "multi":
            s = ", ".join(ktarget(t) for t in e[1]) + " = " + x(e[2])
            return f"({s})" if prec > 0 else s
        if k == "list":
            return "[" + ", ".join(x(a) for a in e[1]) + "]"
        if k == "tuple":
            if len(e[1]) == 1:
                return "(" + x(e[1][0]) + ",)"
            return "(" + ", ".join(x(a) for a in e[1]) + ")"
        if k == "map":
            return "{" + ", ".join(f"{key}: {x(v)}" for key, v in e[1]) + "}"
        if k == "range":
            return "(" + x(e[1], 9) + (".." + ("=" if e[3] else "")) + x(e[2], 9) + ")"
        if k == "index":
            return f"{x(e[1], 10)}[{x(e[2])}]"
        if k == "indexassign":
            s = f"{x(e[1], 10)}[{x(e[2])}] = {x(e[3])}"
            return f"({s})" if prec > 0 else s
        if k == "access":
            return f"{x(e[1], 10)}.{e[2]}"
        if k == "accessassign":
            s = f"{x(e[1], 10)}.{e[2]} = {x(e[3])}"
            return f"({s})" if prec > 0 else s
        if k == "if":
            assert len(e[1]) == 1
            c, b = e[1][0]
            s = f"if {x(c)} then {x(self.single(b))}"
            if e[2] is not None:
                s += f" else {x(self.single(e[2]))}"
            return f"({s})"
        if k == "break":
            s = "break" + (f" {x(e[1])}" if e[1] is not None else "")
            return f"({s})" if prec > 0 else s
        if k == "continue":
            return "continue"
        if k == "return":
            s = "return" + (f" {x(e[1])}" if e[1] is not None else "")
            return f"({s})" if prec > 0 else s
        if k == "throw":
            s = f"throw {x(e[1])}"
            return f"({s})" if prec > 0 else s
        if k == "fn":
            s = self.fn_header(e) + " " + x(self.single(e[4]))
            return f"({s})"
        if k == "yield":
            s = f"yield {x(e[1])}"
            return f"({s})" if prec > 0 else s
        if k == "next":
            return f"{x(e[1], 10)}.next()?.get()"
        if k == "totuple":
            return f"{x(e[1], 10)}.to_tuple()"
        if k == "tolist":
            return f"{x(e[1], 10)}.to_list()"
        if k == "call":
            return f"{x(e[1], 10)}(" + ", ".join(x(a) for a in e[2]) + ")"
        if k == "callp":
            # f(a..., b): packed arguments are always parenthesised atoms
            def parg(a):
                if not a[0]:
                    return x(a[1])
                return (x(a[1]) if a[1][0] == "id" else "(" + x(a[1]) + ")") + "..."
            return f"{x(e[1], 10)}(" + ", ".join(parg(a) for a in e[2]) + ")"
        if k == "pipe":
            # a -> f b, c   (paren-free call form, as in the guide; statement level only)
            if prec > 0:
                raise ValueError("pipe in operand position")
            return f"{x(e[1], 10)} -> {x(e[2], 10)}" + (" " + ", ".join(x(a, 1) for a in e[3]) if e[3] else "")
        if k == "print":
            return f"print({x(e[1])})"
        if k == "size":
            return f"size({x(e[1])})"
        if k == "push":
            return f"{x(e[1], 10)}.push({x(e[2])})"
        if k == "insert":
            return f"{x(e[1], 10)}.insert({x(e[2])}, {x(e[3])})"
        if k == "removekey":
            return f"{x(e[1], 10)}.remove({x(e[2])})"
        if k == "copy":
            return f"koto.copy({x(e[1])})"
        if k == "deepcopy":
            return f"koto.deep_copy({x(e[1])})"
        if k == "block":
            return x(self.single(e), prec)
        raise ValueError("not inline-printable: " + k)

    def single(self, e):
        while e[0] == "block":
            assert len(e[1]) == 1, "multi-statement block in inline position"
            e = e[1][0]
        return e

    def fn_header(self, e):
        ps = []
        for t, d in e[1]:
            s = ktarget(t)
            if d is not None:
                s += " = " + self.ex(d)
            ps.append(s)
        if e[2] is not None:
            ps.append(kid(e[2]) + "...")
        s = "|" + ", ".join(ps) + "|"
        if e[3] is not None:
            s += " -> " + khint(e[3])
        return s

    # statement printing: returns list of lines
    def st(self, e, ind):
        pad = "  " * ind
        k = e[0]
        if k == "block":
            out = []
            for s in e[1]:
                out += self.st(s, ind)
            return out
        if not is_blocky(e):
            return [pad + self.ex(e)]
        return self.blocky(e, ind, "")

    def body(self, e, ind):
        if e[0] == "block" and not e[1]:
            return ["  " * ind + "null"]
        return self.st(e, ind)

    def blocky(self, e, ind, prefix):
        """print a construct that needs indented blocks; `prefix` (e.g. 'v1 = ')
        is placed in front of its header line"""
        pad = "  " * ind
        k = e[0]
        if k == "assign":
            pre = (f"let {kid(e[1])}: {khint(e[2])} = " if e[2] else f"{kid(e[1])} = ")
            return self.blocky_rhs(e[3], ind, prefix + pre)
        if k == "opassign":
            return self.blocky_rhs(e[3], ind, prefix + f"{kid(e[2])} {e[1]}= ")
        if k == "multi":
            return self.blocky_rhs(e[2], ind, prefix + ", ".join(ktarget(t) for t in e[1]) + " = ")
        if k == "return":
            return self.blocky_rhs(e[1], ind, prefix + "return ")
        if k == "break":
            return self.blocky_rhs(e[1], ind, prefix + "break ")
        if k == "throw":
            return self.blocky_rhs(e[1], ind, prefix + "throw ")
        if k == "if":
            out = []
            for i, (c, b) in enumerate(e[1]):
                head = (prefix + "if " if i == 0 else "else if ") + self.ex(c)
                out.append(pad + head)
                out += self.body(b, ind + 1)
            if e[2] is not None:
                out.append(pad + "else")
                out += self.body(e[2], ind + 1)
            return out
        if k == "switch":
            out = [pad + prefix + "switch"]
            for c, b in e[1]:
                out.append(pad + "  " + self.ex(c) + " then")
                out += self.body(b, ind + 2)
            if e[2] is not None:
                out.append(pad + "  else")
                out += self.body(e[2], ind + 2)
            return out
        if k in ("while", "until"):
            return [pad + prefix + f"{k} " + self.ex(e[1])] + self.body(e[2], ind + 1)
        if k == "loop":
            return [pad + prefix + "loop"] + self.body(e[1], ind + 1)
        if k == "for":
            return [pad + prefix + "for " + ", ".join(ktarget(t) for t in e[1]) + " in " + self.ex(e[2])] \
                + self.body(e[3], ind + 1)
        if k == "fn":
            return [pad + prefix + self.fn_header(e)] + self.body(e[4], ind + 1)
        if k == "genfn":
            return [pad + prefix + self.fn_header(("fn", e[1], e[2], None, e[3]))] + self.body(e[3], ind + 1)
        if k == "match":
            out = [pad + prefix + "match " + ", ".join(self.ex(s) for s in e[1])]
            for alts, guard, b in e[2]:
                head = " or ".join(", ".join(kpat(p) for p in alt) for alt in alts)
                if guard is not None:
                    head += " if " + self.ex(guard)
                out.append(pad + "  " + head + " then")
                out += self.body(b, ind + 2)
            if e[3] is not None:
                out.append(pad + "  else")
                out += self.body(e[3], ind + 2)
            return out
        if k == "try":
            out = [pad + prefix + "try"] + self.body(e[1], ind + 1)
            for y, h, b in e[2]:
                name = kid(y) if y is not None else "_"
                out.append(pad + "catch " + name + (f": {khint(h)}" if h else ""))
                out += self.body(b, ind + 1)
            if e[3] is not None:
                out.append(pad + "finally")
                out += self.body(e[3], ind + 1)
            return out
        if k == "block":
            # a multi-statement block as a value: not expressible without a construct; caller avoids
            raise ValueError("bare block in value position")
        raise ValueError("blocky: " + k)

    def blocky_rhs(self, e, ind, prefix):
        if e is None:
            return ["  " * ind + prefix.rstrip()]
        if not is_blocky(e):
            return ["  " * ind + prefix + self.ex(e)]
        return self.blocky(e, ind, prefix)


def to_koto(e, minimal_parens=False):
    p = Printer(minimal_parens)
    return "\n".join(p.st(e, 0)) + "\n"


# ---------------------------------------------------------------- generators
def ends_with_loop(e):
    k = e[0]
    if k in ("while", "until", "for"):
        return True
    if k == "block":
        return bool(e[1]) and ends_with_loop(e[1][-1])
    if k == "if" or k == "switch":
        return any(ends_with_loop(b) for _, b in e[1]) or (e[2] is not None and ends_with_loop(e[2]))
    if k == "assign":
        return False
    return False


class Gen:
    """seeded generator of mostly-valid core programs.  Variables are tracked by
    the kind of value they hold so that most programs run without type errors."""

    def __init__(self, rng, profile="core"):
        self.r = rng
        self.profile = profile
        self.vars = {"int": [], "bool": [], "list": [], "tuple": [], "map": [], "str": [], "fn": [], "any": []}
        self.next_id = 0
        self.loop_depth = 0
        self.fn_depth = 0

    def fresh(self, kind):
        n = self.next_id
        self.next_id += 1
        return n

    def declare(self, n, kind):
        for k in self.vars:
            if n in self.vars[k]:
                self.vars[k].remove(n)
        self.vars[kind].append(n)

    def pick(self, xs):
        return xs[self.r.below(len(xs))]

    def chance(self, a, b):
        return self.r.chance(a, b)

    # --- expressions by kind
    def int_lit(self):
        c = self.r.below(20)
        if c < 12:
            return ("int", self.r.below(10))
        if c < 15:
            return ("int", -self.r.below(10) - 1)
        if c < 17:
            return ("int", self.pick([255, 256, 1000, 65535, 2**31, 2**53 + 1]))
        # (-2^63 cannot be written as a literal: 9223372036854775808 lexes as a float)
        return ("int", self.pick([2**63 - 1, -(2**63) + 1, 2**62, -(2**62) - 7]))

    def int_expr(self, d):
        if d <= 0 or self.chance(1, 4):
            if self.vars["int"] and self.chance(3, 5):
                return ("id", self.pick(self.vars["int"]))
            return self.int_lit()
        c = self.r.below(16)
        if c < 8:
            return ("bin", self.pick(["+", "-", "*"]), self.int_expr(d - 1), self.int_expr(d - 1))
        if c == 8:
            return ("neg", self.int_expr(d - 1))
        if c == 9:
            return ("bin", "%", self.int_expr(d - 1), self.pick([("int", 3), ("int", -4), ("int", 7), self.int_expr(d - 1)]))
        if c == 10:
            return ("if", [(self.bool_expr(d - 1), self.int_expr(d - 1))], self.int_expr(d - 1))
        if c == 11 and self.vars["list"]:
            return ("size", ("id", self.pick(self.vars["list"])))
        if c == 12:
            return ("bin", "^", self.pick([("int", 2), ("int", 3), ("int", -2), self.int_expr(0)]), ("int", self.r.below(5)))
        if c == 13 and self.vars["tuple"]:
            return ("size", ("id", self.pick(self.vars["tuple"])))
        if c == 14 and self.vars["fn"] and self.fn_depth < 2:
            f, arity = self.pick(self.vars["fn"])
            return ("call", ("id", f), [self.int_expr(d - 1) for _ in range(arity)])
        return ("bin", self.pick(["+", "-", "*"]), self.int_expr(d - 1), self.int_expr(d - 1))

    def num_expr(self, d):
        """possibly float-valued"""
        c = self.r.below(6)
        if c == 0:
            return ("bin", "/", self.int_expr(d - 1), self.pick([("int", 2), ("int", 4), ("int", 3), ("int", 0), self.int_expr(d - 1)]))
        if c == 1:
            return ("flt", self.pick([0.5, 1.5, 2.25, 0.0, 100.0, 0.1, 3.0]))
        if c == 2:
            return ("bin", self.pick(["+", "-", "*", "/"]), self.num_expr(d - 1) if d > 0 else ("flt", 0.5), self.int_expr(d - 1))
        return self.int_expr(d)

    def bool_expr(self, d):
        if d <= 0:
            if self.vars["bool"] and self.chance(1, 2):
                return ("id", self.pick(self.vars["bool"]))
            return ("bool", self.chance(1, 2))
        c = self.r.below(12)
        if c < 4:
            return ("cmp", self.num_expr(d - 1) if self.chance(1, 4) else self.int_expr(d - 1),
                    [(self.pick(["<", "<=", ">", ">=", "==", "!="]), self.int_expr(d - 1))])
        if c == 4:
            # chain
            n = 2 + self.r.below(2)
            return ("cmp", self.int_expr(d - 1), [(self.pick(["<", "<=", ">", ">="]), self.int_expr(d - 1)) for _ in range(n)])
        if c == 5:
            return ("and", self.bool_expr(d - 1), self.bool_expr(d - 1))
        if c == 6:
            return ("or", self.bool_expr(d - 1), self.bool_expr(d - 1))
        if c == 7:
            return ("not", self.any_expr(d - 1))
        if c == 8:
            return ("cmp", self.any_expr(d - 1), [(self.pick(["==", "!="]), self.any_expr(d - 1))])
        if c == 9 and self.vars["str"]:
            return ("cmp", ("id", self.pick(self.vars["str"])), [(self.pick(["<", ">=", "=="]), self.str_expr(d - 1))])
        return ("bool", self.chance(1, 2))

    def str_expr(self, d):
        c = self.r.below(6)
        if c == 0 and self.vars["str"]:
            return ("id", self.pick(self.vars["str"]))
        if c == 1 and d > 0:
            return ("bin", "+", self.str_expr(d - 1), self.str_expr(d - 1))
        if c == 2 and d > 0:
            return ("interp", [self.pick(["a", "", "x="]), self.int_expr(d - 1), self.pick(["", "!", " {"])])
        return ("str", self.pick(["", "a", "b", "ab", "hello", "é", "it's", "x\\y", "{z}"]))

    def list_expr(self, d):
        if self.vars["list"] and self.chance(1, 3):
            return ("id", self.pick(self.vars["list"]))
        n = self.r.below(4)
        return ("list", [self.any_expr(d - 1) if self.chance(1, 4) else self.int_expr(d - 1) for _ in range(n)])

    def tuple_expr(self, d):
        if self.vars["tuple"] and self.chance(1, 3):
            return ("id", self.pick(self.vars["tuple"]))
        n = self.r.below(4)
        return ("tuple", [self.int_expr(d - 1) for _ in range(n)])

    def any_expr(self, d):
        c = self.r.below(14)
        if c < 4:
            return self.int_expr(d)
        if c < 6:
            return self.bool_expr(d)
        if c == 6:
            return ("null",)
        if c == 7:
            return self.str_expr(d)
        if c == 8 and d > 0:
            return self.list_expr(d)
        if c == 9 and d > 0:
            return self.tuple_expr(d)
        if c == 10:
            return self.num_expr(d)
        if c == 11 and d > 0:
            return ("range", self.int_expr(0), self.int_expr(0), self.chance(1, 3))
        if c == 12 and d > 0:
            # short-circuit value semantics
            return (self.pick(["and", "or"]), self.any_expr(d - 1), self.any_expr(d - 1))
        if c == 13 and d > 0 and (self.vars["list"] or self.vars["tuple"]):
            pool = self.vars["list"] + self.vars["tuple"]
            return ("index", ("id", self.pick(pool)), ("int", self.r.below(3)))
        return self.int_expr(d)

    # --- statements
    def stmt(self, d):
        c = self.r.below(31)
        if c < 6 or not self.vars["int"]:
            n = self.fresh("int") if (not self.vars["int"] or self.chance(1, 2)) else self.pick(self.vars["int"])
            e = ("assign", n, None, self.int_expr(d))
            self.declare(n, "int")
            return e
        if c < 8:
            return ("opassign", self.pick(["+", "-", "*"]), self.pick(self.vars["int"]), self.int_expr(d - 1))
        if c == 8:
            n = self.fresh("bool")
            e = ("assign", n, None, self.bool_expr(d))
            self.declare(n, "bool")
            return e
        if c == 9:
            n = self.fresh("list")
            e = ("assign", n, None, ("list", [self.int_expr(d - 1) for _ in range(self.r.below(4))]))
            self.declare(n, "list")
            return e
        if c == 10:
            n = self.fresh("tuple")
            e = ("assign", n, None, ("tuple", [self.int_expr(d - 1) for _ in range(self.r.below(4))]))
            self.declare(n, "tuple")
            return e
        if c == 11:
            n = self.fresh("str")
            e = ("assign", n, None, self.str_expr(d))
            self.declare(n, "str")
            return e
        if c == 12 and self.vars["list"]:
            return ("push", ("id", self.pick(self.vars["list"])), self.int_expr(d - 1))
        if c == 13 and self.vars["list"]:
            return ("indexassign", ("id", self.pick(self.vars["list"])), ("int", self.r.below(3)), self.int_expr(d - 1))
        if c == 14:
            return ("print", self.pick([self.int_expr(d - 1), self.str_expr(d - 1), self.bool_expr(d - 1),
                                        self.list_expr(1) if self.chance(1, 3) else self.int_expr(0)]))
        if c in (15, 16) and d > 0:
            arms = [(self.bool_expr(d - 1), self.block(d - 1, 1 + self.r.below(2)))]
            while self.chance(1, 3) and len(arms) < 3:
                arms.append((self.bool_expr(d - 1), self.block(d - 1, 1 + self.r.below(2))))
            els = self.block(d - 1, 1 + self.r.below(2)) if self.chance(1, 2) else None
            return ("if", arms, els)
        if c == 17 and d > 0:
            # bounded while loop with a dedicated counter
            i = self.fresh("int")
            limit = 1 + self.r.below(4)
            self.loop_depth += 1
            body = self.block(d - 1, 1 + self.r.below(2))
            self.loop_depth -= 1
            body = ("block", [("opassign", "+", i, ("int", 1))] + body[1])
            kw = self.pick(["while", "until"])
            cond = ("cmp", ("id", i), [("<", ("int", limit))]) if kw == "while" else ("cmp", ("id", i), [(">=", ("int", limit))])
            return ("block", [("assign", i, None, ("int", 0)), (kw, cond, body)])
        if c == 18 and d > 0:
            x = self.fresh("int")
            self.loop_depth += 1
            self.declare(x, "int")
            body = self.block(d - 1, 1 + self.r.below(2))
            self.loop_depth -= 1
            it = self.pick([("range", ("int", 0), ("int", 1 + self.r.below(4)), self.chance(1, 3)),
                            ("list", [self.int_expr(0) for _ in range(self.r.below(4))]),
                            ("tuple", [self.int_expr(0) for _ in range(self.r.below(4))]),
                            ("range", ("int", 3), ("int", 0), False)])
            # the loop variable's value after the loop is not defined by the guide
            for k in self.vars:
                if x in self.vars[k]:
                    self.vars[k].remove(x)
            return ("for", [("tid", x, None)], it, body)
        if c == 19 and self.loop_depth > 0:
            return ("if", [(self.bool_expr(1), ("block", [self.pick([("break", None), ("continue",)])]))], None)
        if c == 20 and d > 0:
            # loop with break value, assigned
            i = self.fresh("int")
            y = self.fresh("int")
            self.loop_depth += 1
            body = self.block(d - 1, 1)
            self.loop_depth -= 1
            body = ("block", [("opassign", "+", i, ("int", 1))] + body[1] +
                    [("if", [(("cmp", ("id", i), [(">", ("int", 1 + self.r.below(3)))]), ("block", [("break", self.int_expr(1))]))], None)])
            self.declare(y, "int")
            return ("block", [("assign", i, None, ("int", 0)), ("assign", y, None, ("loop", body))])
        if c == 27 and d > 0:
            # a loop used as a value: last body value / null when it never runs / null after continue,
            # assigned to a fresh variable or to an existing (non-null) one that the loop does not mention
            tgt = self.fresh("any") if (self.chance(1, 2) or not self.vars["int"]) else self.pick(self.vars["int"])
            x = self.fresh("int")
            n_iter = self.pick([0, 0, 1, 3])
            kind = self.r.below(4)
            saved = {k: [v for v in vs if v != tgt] for k, vs in self.vars.items()}
            keep = self.vars
            self.vars = {k: list(v) for k, v in saved.items()}
            self.vars["int"].append(x)
            bodyval = self.int_expr(1)
            self.vars = keep
            body = ("block", [bodyval])
            if self.chance(1, 4):
                body = ("block", [("if", [(("cmp", ("id", x), [("==", ("int", n_iter - 1))]), ("block", [("continue",)]))], None), bodyval])
            if kind == 0:
                it = ("range", ("int", 0), ("int", n_iter), False)
                loop = ("for", [("tid", x, None)], it, body)
                pre = []
            elif kind == 1:
                loop = ("for", [("tid", x, None)], ("list", [("int", i) for i in range(n_iter)]), body)
                pre = []
            else:
                kw = "while" if kind == 2 else "until"
                cond = ("cmp", ("id", x), [("<", ("int", n_iter))]) if kw == "while" else ("cmp", ("id", x), [(">=", ("int", n_iter))])
                loop = (kw, cond, ("block", [("opassign", "+", x, ("int", 1))] + body[1]))
                pre = [("assign", x, None, ("int", 0))]
            self.declare(tgt, "any")
            for k in self.vars:
                if x in self.vars[k]:
                    self.vars[k].remove(x)
            return ("block", pre + [("assign", tgt, None, loop)])
        if c == 21 and d > 0:
            # assignment of an existing variable from a construct that reads it (result-register aliasing)
            x = self.pick(self.vars["int"])
            rhs = self.pick([
                ("if", [(self.bool_expr(1), ("bin", "+", ("id", x), ("int", 1)))], ("id", x)),
                ("bin", "-", self.int_expr(1), ("id", x)),
            ])
            return ("assign", x, None, rhs)
        if c == 22 and d > 0:
            n = self.fresh("map")
            keys = ["k0", "k1", "k2"][: 1 + self.r.below(3)]
            e = ("assign", n, None, ("map", [(k, self.int_expr(d - 1)) for k in keys]))
            self.declare(n, "map")
            return e
        if c == 23 and self.vars["map"]:
            m = self.pick(self.vars["map"])
            return self.pick([("accessassign", ("id", m), self.pick(["k0", "k1", "k9"]), self.int_expr(d - 1)),
                              ("insert", ("id", m), ("str", self.pick(["k0", "zz"])), self.int_expr(d - 1)),
                              ("print", ("access", ("id", m), "k0"))])
        if c == 24 and d > 0:
            a, b = self.fresh("int"), self.fresh("int")
            rhs = self.pick([("tuple", [self.int_expr(1), self.int_expr(1)]), ("list", [self.int_expr(1)]),
                             ("tuple", [self.int_expr(1), self.int_expr(1), self.int_expr(1)])])
            self.declare(a, "any")
            self.declare(b, "any")
            return ("multi", [("tid", a, None), ("tid", b, None)], rhs)
        if c == 25 and d > 0:
            arms = [(self.bool_expr(d - 1), self.block(d - 1, 1)) for _ in range(1 + self.r.below(3))]
            els = self.block(d - 1, 1) if self.chance(2, 3) else None
            n = self.fresh("any")
            self.declare(n, "any")
            return ("assign", n, None, ("switch", arms, els))
        if c == 26 and d > 0 and self.profile in ("fn", "all") and self.fn_depth < 2:
            return self.fn_def(d)
        if c == 28:
            # a composite expression whose value is discarded (statement position); operands cannot fail
            atom = lambda: ("id", self.pick(self.vars["int"])) if self.chance(1, 2) else ("int", self.r.below(9))
            return self.pick([
                ("interp", [self.pick(["a", "", "x="]), atom(), self.pick(["", "!", " b"])]),
                ("interp", [atom(), "-", atom()]),
                ("list", [atom(), ("interp", ["q", atom()])]),
                ("tuple", [atom(), atom()]),
                ("map", [("k0", atom()), ("k1", ("interp", [atom(), "z"]))]),
                ("cmp", atom(), [("<", atom()), ("<=", atom())]),
                ("and", atom(), ("interp", ["s", atom()])),
                ("range", atom(), atom(), False),
            ])
        n = self.fresh("any")
        e = ("assign", n, None, self.any_expr(d))
        self.declare(n, "any")
        return e

    def fn_def(self, d):
        f = self.fresh("fn")
        arity = self.r.below(3)
        saved = {k: list(v) for k, v in self.vars.items()}
        saved_loop = self.loop_depth
        self.loop_depth = 0
        self.fn_depth += 1
        params = []
        for _ in range(arity):
            p = self.fresh("int")
            self.declare(p, "int")
            params.append((("tid", p, None), None))
        body = self.block(d - 1, 1 + self.r.below(2))
        body = ("block", body[1] + [self.int_expr(1)])
        self.fn_depth -= 1
        self.loop_depth = saved_loop
        self.vars = saved
        self.vars["fn"].append((f, arity))
        return ("assign", f, None, ("fn", params, None, None, body))

    def block(self, d, n):
        """a nested block: variables first assigned inside it are not visible
        afterwards (reading a conditionally-unassigned local is not defined by the
        guide, so generated programs never do it)"""
        saved = {k: list(v) for k, v in self.vars.items()}
        stmts = [self.stmt(d) for _ in range(n)]
        # the value of a loop that ends without `break` is not defined by the guide:
        # never leave one in value position
        if False and ends_with_loop(stmts[-1]):
            stmts.append(self.int_expr(0))
        b = ("block", stmts)
        for k in self.vars:
            self.vars[k] = [v for v in self.vars[k] if v in saved[k]]
        # a variable re-declared with another kind inside the block: its kind is now unknown
        known = {v if not isinstance(v, tuple) else v[0] for k in self.vars for v in self.vars[k]}
        for k in saved:
            for v in saved[k]:
                key = v if not isinstance(v, tuple) else v[0]
                if key not in known:
                    if k == "fn":
                        pass
                    else:
                        self.vars["any"].append(v)
        return b

    def program(self, size, depth):
        stmts = [self.stmt(depth) for _ in range(size)]
        # observe every variable
        obs = []
        for kind in ("int", "bool", "str", "tuple", "list", "any"):
            for v in self.vars[kind]:
                obs.append(("id", v))
        for m in self.vars["map"]:
            obs.append(("size", ("id", m)))
        stmts.append(("tuple", obs[:24]) if len(obs) != 1 else ("tuple", obs + [("null",)]))
        return ("block", stmts)


# ------------------------------------------------------------ profile: functions
class FnGen(Gen):
    """programs about function definitions, argument binding, closures, pipes"""

    def param_list(self):
        """returns (params, variadic, arity_min, arity_max, names)"""
        n = self.r.below(4)
        params = []
        names = []
        seen_default = False
        for i in range(n):
            c = self.r.below(10)
            if c < 5 and not seen_default:
                p = self.fresh("int")
                params.append((("tid", p, None), None))
                names.append(p)
            elif c < 7 and not seen_default:
                a, b = self.fresh("int"), self.fresh("int")
                params.append((("ttuple", [("tid", a, None), ("tid", b, None)]), None))
                names += [a, b]
            elif c < 8 and not seen_default:
                params.append((("twild",), None))
            else:
                p = self.fresh("int")
                seen_default = True
                params.append((("tid", p, None), self.pick([("int", self.r.below(9)), ("bin", "+", ("int", 1), ("int", self.r.below(5)))])))
                names.append(p)
        variadic = None
        if self.chance(1, 4):
            variadic = self.fresh("tuple")
        required = len([p for p in params if p[1] is None])
        return params, variadic, required, len(params), names

    def fn_stmt(self, d):
        c = self.r.below(16)
        if c == 15:
            # a bare `return` nested inside the function's last expression (if / loop body): the
            # implicit return of the function must still be there when the branch is not taken
            f, p, r1, i = self.fresh("fn"), self.fresh("int"), self.fresh("any"), self.fresh("int")
            self.declare(r1, "any")
            ret = ("return", None) if self.chance(2, 3) else ("return", ("int", 5))
            cond = ("cmp", ("id", p), [(">", ("int", 1))])
            last = self.pick([
                ("if", [(cond, ("block", [ret]))], None),
                ("for", [("tid", i, None)], ("range", ("int", 0), ("id", p), False), ("block", [("if", [(cond, ("block", [ret]))], None)])),
                ("while", cond, ("block", [ret])),
            ])
            fn = ("fn", [(("tid", p, None), None)], None, None, ("block", [("print", ("id", p)), last]))
            return ("block", [("assign", f, None, fn),
                              ("assign", r1, None, ("tuple", [("call", ("id", f), [("int", 0)]), ("call", ("id", f), [("int", 3)])]))])
        if c >= 13:
            # packed call arguments: f(a..., b, c...) with 1-5 argument groups of 0-3 elements
            f, r1, xs = self.fresh("fn"), self.fresh("any"), self.fresh("tuple")
            a, b, rest = self.fresh("int"), self.fresh("int"), self.fresh("tuple")
            self.declare(r1, "any")
            if self.chance(1, 2):
                fn = ("fn", [], rest, None, ("block", [("id", rest)]))
                lo = 0
            else:
                fn = ("fn", [(("tid", a, None), None), (("tid", b, None), ("int", 50))], rest, None,
                      ("block", [("tuple", [("id", a), ("id", b), ("id", rest)])]))
                lo = 1
            pre = [("assign", f, None, fn), ("assign", xs, None, ("tuple", [("int", 70), ("int", 71)]))]
            args = []
            total = 0
            k = 0
            for _ in range(1 + self.r.below(5)):
                n = self.r.below(4)
                elems = [("int", 10 * len(args) + j) for j in range(n)]
                kind = self.r.below(7)
                if kind == 0:
                    args.append((False, ("int", 90 + len(args))))
                    total += 1
                elif kind == 1:
                    args.append((True, ("id", xs)))
                    total += 2
                elif kind == 2:
                    args.append((True, ("list", elems)))
                    total += n
                elif kind == 3:
                    args.append((True, ("range", ("int", k), ("int", k + n), False)))
                    total += n
                elif kind == 4:
                    args.append((True, ("str", "abc"[:n])))
                    total += n
                else:
                    args.append((True, ("tuple", elems)))
                    total += n
                k += 3
            if total < lo:
                args.append((False, ("int", 1)))
            return ("block", pre + [("assign", r1, None, ("callp", ("id", f), args))])
        if c == 12:
            # a function literal whose value is discarded: its body must not run
            r1, x, i = self.fresh("any"), self.fresh("int"), self.fresh("int")
            self.declare(r1, "any")
            lit = ("fn", [(("tid", x, None), None)] if self.chance(1, 2) else [], None, None,
                   ("block", [("print", ("str", "body")), ("int", 1)]))
            k = self.r.below(3)
            if k == 0:
                return ("block", [lit, ("assign", r1, None, ("int", self.r.below(9)))])
            if k == 1:
                return ("block", [("assign", r1, None, ("int", 0)),
                                  ("for", [("tid", i, None)], ("range", ("int", 0), ("int", 3), False),
                                   ("block", [lit, ("opassign", "+", r1, ("id", i))]))])
            return ("block", [("assign", r1, None, ("null",)),
                              ("try", ("block", [lit, ("assign", r1, None, ("int", 5))]),
                               [(self.fresh("any"), None, ("block", [("assign", r1, None, ("int", 6))]))], None)])
        if c < 4:
            f = self.fresh("fn")
            params, variadic, lo, hi, names = self.param_list()
            saved = {k: list(v) for k, v in self.vars.items()}
            for nme in names:
                self.declare(nme, "any")
            ints = [("id", n) for n in names] or [("int", 1)]
            cap = [("id", v) for v in saved["int"][:2]]
            parts = ints + cap
            body_val = ("tuple", parts) if self.chance(1, 2) else self.pick(parts)
            if variadic is not None:
                body_val = ("tuple", [body_val, ("size", ("id", variadic)), ("id", variadic)])
            body = ("block", [body_val])
            self.vars = saved
            self.fns = getattr(self, "fns", []) + [(f, (lo, hi, variadic is not None, params))]
            return ("assign", f, None, ("fn", params, variadic, None, body))
        if c < 8 and getattr(self, "fns", []):
            f, (lo, hi, var, params) = self.pick(self.fns)
            k = self.r.below(12)
            if k < 8:
                n = lo + self.r.below(hi - lo + 1 + (2 if var else 0))
            elif k < 10:
                n = max(0, lo - 1)
            else:
                n = hi + 1
            args = []
            for i in range(n):
                if i < len(params) and params[i][0][0] == "ttuple":
                    args.append(self.pick([("tuple", [("int", i), ("int", i + 10)]), ("list", [("int", 7)]),
                                           ("tuple", [("int", 1), ("int", 2), ("int", 3)]), ("int", 5)]))
                else:
                    args.append(("int", 20 + i) if self.chance(2, 3) else self.int_expr(1))
            res = self.fresh("any")
            self.declare(res, "any")
            call = ("call", ("id", f), args)
            if args and self.chance(1, 5):
                call = ("pipe", args[0], ("id", f), args[1:])
            return ("assign", res, None, call)
        if c == 8:
            # capture by copy
            x, f, r1 = self.fresh("int"), self.fresh("fn"), self.fresh("any")
            self.declare(x, "int")
            self.declare(r1, "any")
            return ("block", [("assign", x, None, ("int", self.r.below(9))),
                              ("assign", f, None, ("fn", [], None, None, ("block", [("bin", "*", ("id", x), ("int", 2))]))),
                              ("assign", x, None, ("int", 100)),
                              ("assign", r1, None, ("call", ("id", f), []))])
        if c == 9:
            # a list reached through a capture stays shared
            l, f, r1 = self.fresh("list"), self.fresh("fn"), self.fresh("any")
            p = self.fresh("int")
            self.declare(l, "list")
            self.declare(r1, "any")
            return ("block", [("assign", l, None, ("list", [("int", 1)])),
                              ("assign", f, None, ("fn", [(("tid", p, None), None)], None, None,
                                                   ("block", [("push", ("id", l), ("id", p)), ("size", ("id", l))]))),
                              ("call", ("id", f), [("int", 5)]),
                              ("assign", r1, None, ("call", ("id", f), [("int", 6)]))])
        if c == 10:
            # recursion, optionally with default arguments, an accumulator, another captured
            # variable, and/or defined inside an enclosing function
            f, n, r1 = self.fresh("fn"), self.fresh("int"), self.fresh("any")
            acc, cap, mk = self.fresh("int"), self.fresh("int"), self.fresh("fn")
            self.declare(r1, "any")
            variant = self.r.below(5)
            params = [(("tid", n, None), None)]
            rec_args = [("bin", "-", ("id", n), ("int", 1))]
            base = ("int", 1)
            step = ("bin", "*", ("id", n), None)
            if variant in (1, 3, 4):
                params.append((("tid", acc, None), ("int", self.r.below(3))))
                rec_args.append(("bin", "+", ("id", acc), ("id", n)))
                base = ("id", acc)
                step = None
            rec_call = ("call", ("id", f), rec_args)
            rec = rec_call if step is None else ("bin", "*", ("id", n), rec_call)
            if variant in (2, 3):
                rec = ("bin", "+", rec, ("id", cap))
            body = ("block", [("if", [(("cmp", ("id", n), [("<=", ("int", 1))]), ("block", [base]))], ("block", [rec]))])
            fn = ("fn", params, None, None, body)
            pre = [("assign", cap, None, ("int", 10 + self.r.below(5)))] if variant in (2, 3) else []
            arg = ("int", 1 + self.r.below(6))
            if variant == 4:
                # the recursive function is created inside another function and returned
                outer = ("fn", [], None, None, ("block", [("assign", f, None, fn), ("id", f)]))
                g = self.fresh("fn")
                return ("block", [("assign", mk, None, outer), ("assign", g, None, ("call", ("id", mk), [])),
                                  ("assign", r1, None, ("tuple", [("call", ("id", g), [arg]), ("call", ("id", g), [arg, ("int", 7)])]))])
            return ("block", pre + [("assign", f, None, fn), ("assign", r1, None, ("call", ("id", f), [arg]))])
        if c == 11:
            # closure factory; default value evaluated once
            mk, a, g, r1, b2 = self.fresh("fn"), self.fresh("int"), self.fresh("fn"), self.fresh("any"), self.fresh("int")
            self.declare(r1, "any")
            inner = ("fn", [(("tid", b2, None), None)], None, None, ("block", [("bin", "+", ("id", a), ("id", b2))]))
            return ("block", [("assign", mk, None, ("fn", [(("tid", a, None), None)], None, None, ("block", [inner]))),
                              ("assign", g, None, ("call", ("id", mk), [("int", self.r.below(9))])),
                              ("assign", r1, None, ("tuple", [("call", ("id", g), [("int", 1)]), ("call", ("id", g), [("int", 2)])]))])
        return self.stmt(d)

    def gen_stmt(self):
        """a generator function whose body has no effect other than its yields, and a consumer"""
        g, n, i, acc, it, r1, r2, r3 = [self.fresh("any") for _ in range(8)]
        shape = self.r.below(5)
        k = 1 + self.r.below(4)
        if shape == 0:
            body = [("for", [("tid", i, None)], ("range", ("int", 0), ("id", n), False),
                     ("block", [("yield", ("bin", "*", ("id", i), ("int", 2)))])), ("yield", ("int", 100))]
        elif shape == 1:
            body = [("assign", acc, None, ("int", 1)),
                    ("while", ("cmp", ("id", acc), [("<", ("bin", "+", ("id", n), ("int", 3)))]),
                     ("block", [("yield", ("id", acc)), ("opassign", "*", acc, ("int", 2))]))]
        elif shape == 2:
            body = [("yield", ("id", n)), ("if", [(("cmp", ("id", n), [(">", ("int", 1))]), ("block", [("yield", ("int", -1)), ("return", None)]))], None),
                    ("yield", ("tuple", [("id", n), ("int", 7)]))]
        elif shape == 3:
            body = [("assign", acc, None, ("int", 0)),
                    ("for", [("tid", i, None)], ("list", [("int", 3), ("int", 1), ("int", 4)]),
                     ("block", [("opassign", "+", acc, ("id", i)), ("if", [(("cmp", ("id", i), [("!=", ("id", n))]), ("block", [("yield", ("id", acc))]))], None)]))]
        else:
            body = [("yield", ("str", "a")), ("yield", ("null",)), ("yield", ("id", n))]
        gen = ("genfn", [(("tid", n, None), None if self.chance(2, 3) else ("int", 2))], None, ("block", body))
        arg = [("int", k)] if gen[1][0][1] is None or self.chance(1, 2) else []
        make = ("call", ("id", g), arg)
        use = self.r.below(5)
        if use == 0:
            cons = [("assign", r1, None, ("totuple", make))]
        elif use == 1:
            cons = [("assign", it, None, make), ("assign", r1, None, ("tuple", [("next", ("id", it)), ("next", ("id", it))])),
                    ("assign", r2, None, ("totuple", ("id", it))), ("assign", r3, None, ("next", ("id", it)))]
        elif use == 2:
            x = self.fresh("any")
            cons = [("assign", it, None, make), ("assign", r1, None, ("list", [])),
                    ("for", [("tid", x, None)], ("id", it), ("block", [("push", ("id", r1), ("id", x)),
                        ("if", [(("cmp", ("size", ("id", r1)), [(">=", ("int", 2))]), ("block", [("break", None)]))], None)])),
                    ("assign", r2, None, ("tolist", ("id", it)))]
        elif use == 3:
            cons = [("assign", r1, None, ("tuple", [("totuple", make), ("totuple", make)]))]
        else:
            x = self.fresh("any")
            cons = [("assign", r1, None, ("int", 0)),
                    ("for", [("tid", x, None)], make, ("block", [("opassign", "+", r1, ("int", 1))]))]
        for st in cons:
            if st[0] == "assign" and st[1] in (r1, r2, r3):
                self.declare(st[1], "any")
        return ("block", [("assign", g, None, gen)] + cons)

    def program(self, size, depth):
        stmts = []
        for _ in range(size):
            c = self.r.below(8)
            stmts.append(self.gen_stmt() if c == 0 else (self.fn_stmt(depth) if c < 7 else self.stmt(depth)))
        obs = [("id", v) for kind in ("int", "bool", "str", "tuple", "list", "any") for v in self.vars[kind]]
        stmts.append(("tuple", obs[:24] + [("null",)]))
        return ("block", stmts)


# ------------------------------------------------------------ profile: match
class MatchGen(Gen):
    SUBJECTS = [("int", 0), ("int", 1), ("int", 42), ("null",), ("bool", True), ("str", "a"), ("str", "abc"),
                ("tuple", []), ("tuple", [("int", 1)]), ("tuple", [("int", 1), ("int", 2)]),
                ("tuple", [("int", 1), ("int", 2), ("int", 3)]), ("tuple", [("str", "a"), ("int", 2), ("null",), ("int", 4)]),
                ("list", []), ("list", [("int", 1), ("int", 2)]), ("list", [("int", 0), ("tuple", [("int", 1), ("int", 2)])]),
                ("tuple", [("tuple", [("int", 1), ("int", 2)]), ("int", 3)]),
                ("map", [("k0", ("int", 1))]), ("map", [("k0", ("int", 1)), ("k1", ("int", 2))]), ("map", [])]

    def pat(self, d, binds):
        c = self.r.below(16)
        if c < 3:
            return ("pint", self.pick([0, 1, 2, 42]))
        if c == 3:
            return ("pwild", self.pick([None, None, ("Number", False), ("String", False), ("Tuple", False), ("Bool", False),
                                        ("Null", False), ("List", False), ("Map", False), ("Number", True)]))
        if c < 6:
            x = self.fresh("any")
            binds.append(x)
            hint = self.pick([None, None, None, ("Number", False), ("String", False), ("Tuple", False), ("Any", False), ("Number", True)])
            return ("pid", x, hint)
        if c == 6:
            return ("pstr", self.pick(["a", "abc"]))
        if c == 7:
            return self.pick([("pnull",), ("pbool", True)])
        if c < 11 and d > 0:
            n = 1 + self.r.below(3)      # `()` in a pattern is not an empty-tuple pattern: never generated
            return ("ptuple", [self.pat(d - 1, binds) for _ in range(n)])
        if c < 13 and d > 0:
            before = [self.pat(d - 1, binds) for _ in range(self.r.below(3))]
            after = [self.pat(d - 1, binds) for _ in range(self.r.below(2))] if not before or self.chance(1, 2) else []
            if before and after:
                after = []      # one ellipsis, at the start or at the end
            rest = None
            if self.chance(1, 2):
                rest = self.fresh("any")
                binds.append(rest)
            if not before and not after:
                before = [self.pat(0, binds)]
            return ("prest", before, rest, after)
        if c == 13 and d > 0:
            keys = ["k0", "k1", "k2"][: 1 + self.r.below(2)]
            out = []
            for k in keys:
                if self.chance(1, 3):
                    out.append((k, None))          # `key as _`
                else:
                    x = self.fresh("any")
                    binds.append(x)
                    out.append((k, x))
            return ("pmap", out)
        return ("pwild", None)

    def match_expr(self, subject):
        arms = []
        for i in range(1 + self.r.below(4)):
            binds = []
            alts = [[self.pat(2, binds)]]
            if self.chance(1, 3):
                # or-alternatives (no bindings, since they differ between alternatives); 2-3 of them,
                # typed wildcards and nested patterns included
                for _ in range(1 + self.r.below(2)):
                    extra = []
                    alts.append([self.pick([("pint", 42), ("pnull",), ("ptuple", [("pwild", None)]), ("pstr", "a"),
                                            self.pat(2, extra), self.pat(1, extra),
                                            ("pwild", self.pick([("Number", False), ("String", False), ("Tuple", False)]))])])
                binds = []
                alts = [[strip_binds(a[0])] for a in alts]
                self.r.below(2) and alts.reverse()
            guard = None
            if binds and self.chance(1, 4):
                guard = ("cmp", ("id", binds[0]), [("!=", ("int", 1))])
            elif not binds and self.chance(1, 2):
                # a guard that does not depend on bindings (also on arms with or-alternatives):
                # it must be evaluated whichever alternative matched
                guard = self.pick([("bool", False), ("bool", True), ("cmp", ("int", 1), [(">", ("int", 2))]),
                                   ("cmp", subject, [("!=", ("int", 1))]) if subject[0] == "id" else ("bool", False)])
            body = ("block", [("tuple", [("int", 100 + i)] + [("id", b) for b in binds])])
            arms.append((alts, guard, body))
        els = ("block", [("int", -1)]) if self.chance(1, 3) else None
        return ("match", [subject], arms, els)

    def match2_expr(self, s1, s2):
        """`match a, b` with one pattern per subject in every alternative"""
        arms = []
        for i in range(1 + self.r.below(4)):
            binds = []
            alts = [[self.pat(1, binds), self.pat(1, binds)]]
            if self.chance(1, 3):
                alts = [[strip_binds(p) for p in alts[0]]]
                extra = []
                alts.append([strip_binds(self.pat(1, extra)), strip_binds(self.pat(1, extra))])
                binds = []
            guard = ("cmp", ("id", binds[0]), [("!=", ("int", 1))]) if binds and self.chance(1, 4) else None
            if not binds and self.chance(1, 2):
                guard = self.pick([("bool", False), ("bool", True), ("cmp", ("int", 1), [(">", ("int", 2))])])
            arms.append((alts, guard, ("block", [("tuple", [("int", 200 + i)] + [("id", b) for b in binds])])))
        els = ("block", [("int", -2)]) if self.chance(1, 3) else None
        return ("match", [s1, s2], arms, els)

    def program(self, size, depth):
        stmts = []
        results = []
        for _ in range(size):
            s = self.fresh("any")
            stmts.append(("assign", s, None, self.pick(self.SUBJECTS)))
            r = self.fresh("any")
            if self.chance(1, 4):
                s2 = self.fresh("any")
                stmts.append(("assign", s2, None, self.pick(self.SUBJECTS)))
                stmts.append(("assign", r, None, self.match2_expr(("id", s), ("id", s2))))
            else:
                stmts.append(("assign", r, None, self.match_expr(("id", s))))
            results.append(("id", r))
            if self.chance(1, 4):
                # unpacking assignment from any iterable
                a, b, c2 = self.fresh("any"), self.fresh("any"), self.fresh("any")
                tg = self.pick([[("tid", a, None), ("tid", b, None)], [("tid", a, None), ("twild",), ("tid", b, None)],
                                [("tid", a, None), ("tid", b, None), ("tid", c2, None)]])
                src = self.pick([("tuple", [("int", 1), ("int", 2), ("int", 3)]), ("list", [("int", 9)]),
                                 ("tuple", [("int", 1), ("tuple", [("int", 5), ("int", 6)])]), ("range", ("int", 0), ("int", 3), False),
                                 ("str", "xy"), ("tuple", [])])
                stmts.append(("multi", tg, src))
                results += [("id", t[1]) for t in flatten_targets(tg)]
        stmts.append(("tuple", results[:24] + [("null",)]))
        return ("block", stmts)


def flatten_targets(ts):
    out = []
    for t in ts:
        if t[0] == "tid":
            out.append(t)
        elif t[0] == "ttuple":
            out += flatten_targets(t[1])
    return out


def strip_binds(p):
    k = p[0]
    if k == "pid":
        return ("pwild", p[2])        # keeps the type hint: `x: T` -> `_: T`
    if k == "ptuple":
        return ("ptuple", [strip_binds(x) for x in p[1]])
    if k == "prest":
        return ("prest", [strip_binds(x) for x in p[1]], None, [strip_binds(x) for x in p[3]])
    if k == "pmap":
        return ("pwild", None)
    return p


# ------------------------------------------------------------ profile: errors
class TryGen(Gen):
    """faults planted under nestings of try/catch/finally and function calls"""

    def fault(self):
        """a faulting statement; non-throw faults are put where their value is used
        (an unused pure operation need not be evaluated at all)"""
        c = self.r.below(8)
        if c < 3:
            return ("throw", ("str", self.pick(["boom", "e1", "x y"])))
        sink = self.fresh("any")
        if c == 3:
            f = ("bin", "+", ("int", 1), ("bool", True))            # EBinaryOp
        elif c == 4:
            f = ("index", ("list", [("int", 1)]), ("int", 5))        # index error
        elif c == 5:
            f = ("neg", ("str", "a"))                               # not negatable
        elif c == 6:
            f = ("index", ("tuple", [("int", 1)]), ("int", 3))
        else:
            return ("throw", ("str", "t"))
        return ("assign", sink, None, f)

    def maybe_fault(self, p_num, p_den):
        return self.fault() if self.chance(p_num, p_den) else ("print", ("str", self.pick(["ok", "fine", "."])))

    def try_block(self, d, marks):
        m = len(marks)
        marks.append(m)
        body = [("print", ("int", 1000 + m))]
        if d > 0 and self.chance(1, 2):
            body.append(self.try_stmt(d - 1, marks))
        body.append(self.maybe_fault(2, 3))
        body.append(("print", ("int", 2000 + m)))
        body.append(("int", 10 + m))
        catches = []
        if self.chance(4, 5):
            if self.chance(1, 4):
                catches.append((None, ("Number", False), ("block", [("print", ("int", 2500 + m)), ("int", 25 + m)])))
            e = self.fresh("any")
            thrower = any(s[0] == "throw" for s in body)
            cbody = [("print", ("int", 3000 + m))]
            if d > 0 and self.chance(1, 4):
                cbody.append(self.maybe_fault(1, 2))
            cbody.append(("int", 30 + m))
            catches.append(((e if thrower and self.chance(1, 2) else None), None, ("block", cbody)))
        if not catches:     # a catch block is mandatory
            catches.append((None, None, ("block", [("print", ("int", 3500 + m)), ("int", 35 + m)])))
        fin = None
        if self.chance(1, 2):
            fin = ("block", [("print", ("int", 4000 + m)), ("int", 40 + m)])
        return ("try", ("block", body), catches, fin)

    def try_stmt(self, d, marks):
        r = self.fresh("any")
        c = self.r.below(6)
        t = self.try_block(d, marks)
        if c == 5:
            return t
        self.declare(r, "any")
        # r is read at the end of the program even when the assignment below is abandoned by an
        # error: give it a value first (reading a never-assigned local is not defined by the guide)
        init = ("assign", r, None, ("null",))
        if c < 3:
            return ("block", [init, ("assign", r, None, t)])
        if c == 3:
            # the fault is raised inside a called function
            f = self.fresh("fn")
            inner = ("fn", [], None, None, ("block", [("print", ("int", 5000 + len(marks))), self.maybe_fault(3, 4), ("int", 7)]))
            return ("block", [init, ("assign", f, None, inner),
                              ("assign", r, None, ("try", ("block", [("bin", "+", ("call", ("id", f), []), ("int", 1))]),
                                                   [(None, None, ("block", [("print", ("int", 5500 + len(marks))), ("int", -5)]))],
                                                   ("block", [("print", ("int", 5600 + len(marks))), ("int", 56)]) if self.chance(1, 2) else None))])
        if c == 4:
            # a function whose body is a try; state before the throw is kept
            f = self.fresh("fn")
            l = self.fresh("list")
            self.declare(l, "list")
            return ("block", [init, ("assign", l, None, ("list", [])),
                              ("assign", f, None, ("fn", [], None, None, ("block", [t]))),
                              ("assign", r, None, ("try", ("block", [("push", ("id", l), ("int", 1)), ("call", ("id", f), []),
                                                                     self.maybe_fault(1, 2), ("push", ("id", l), ("int", 2)), ("int", 3)]),
                                                   [(None, None, ("block", [("int", -3)]))], None))])
        return t

    def program(self, size, depth):
        marks = []
        stmts = [self.try_stmt(depth, marks) for _ in range(size)]
        obs = [("id", v) for kind in ("any", "list") for v in self.vars[kind]]
        stmts.append(("tuple", obs[:24] + [("null",)]))
        return ("block", stmts)
