"""Generated program families of the C06 text sweep.

format_family : value x format-spec grid, each an interpolated string evaluated by a small script
limit_family  : size-scaled programs around the u8 / u16 limits of the compiler and the VM
Every program is compiled, formatted, and run under catch_unwind by kh_safe (mode "text").
"""
from checks import c06_pool as P

# ------------------------------------------------------------------------------------------
# string interpolation / format specs

EXTRA_VALUES = [
    ("s_cjk", "'日本語'"), ("s_cjk_long", "'日本語のテキスト'"), ("s_zwj", "'👨\u200d👩\u200d👧\u200d👦'"), ("s_flags", "'🇩🇪🇫🇷'"),
    ("s_comb3", "'a\u0301\u0302\u0303b'"), ("s_hangul", "'한글'"), ("s_mixed_width", "'aé日😀'"), ("s_nl", "'a\\nb'"),
    ("s_quote", "'\\'\"'"), ("s_brace", "'\\{}'"), ("s_long", "'0123456789abcdef'"), ("f_pi", "3.14159"),
    ("f_big", "1.0e300"), ("f_tiny", "1.0e-300"), ("i_neg", "-255"), ("t_strs", "('日本', 'é')"),
    ("l_strs2", "['😀', 'é']"), ("m_cjk", "{'日本': '語'}"), ("m_display_cjk", "m =\n  @display: || '日本語'\nm"),
    ("m_display_throw", "m =\n  @display: || throw 'no'\nm"), ("m_display_num", "m =\n  @display: || 7\nm"),
]


def format_values():
    vals = []
    for p in P.POOL:
        if p["tags"] & {"num", "str", "list", "tuple", "map", "range", "null", "bool", "fn", "obj"} \
                and not p["tags"] & {"alias"}:
            vals.append((p["name"], p["src"]))
    for name in ("it_list", "itx_split", "it_peekable", "inf_repeat"):
        vals.append((name, P.POOL[P.INDEX[name]]["src"]))
    return vals + EXTRA_VALUES


FILLS = ["", "_", "0", "é", "😀", "日", "e\u0301", "*", " "]
ALIGNS = ["", "<", "^", ">"]
WIDTHS = [""] + [str(w) for w in range(0, 13)] + ["300"]
PRECS = ["", ".0", ".1", ".2", ".3", ".17"]
REPRS = ["", "?", "x", "X", "o", "b", "e", "E"]


def spec(fill, align, width, prec, rep):
    if fill and not align:
        if fill != "0":
            return None                     # a fill needs an alignment (except the 0 flag)
        if not width:
            return None
    return f"{fill}{align}{width}{prec}{rep}"


def value_script(src, specs):
    lines = src.split("\n")
    body = lines[:-1] + ["v = " + lines[-1]]
    for s in specs:
        body.append("'{v" + (":" + s if s else "") + "}'")
    return "\n".join(body) + "\n"


def format_family(tier, rng):
    """returns [(origin, src)]"""
    vals = format_values()
    out = []
    # core grid (both tiers): every value x every width x every alignment, default / multi-byte fill
    core = []
    for a in ALIGNS:
        for w in WIDTHS:
            for f in (("", "é") if a else ("",)):
                s = spec(f, a, w, "", "")
                if s is not None:
                    core.append(s)
    for name, src in vals:
        for s in core:
            out.append((f"format:{name}:{s}", value_script(src, [s])))
    # every representation / precision with a few widths
    for name, src in vals:
        for rep in REPRS:
            for prec in PRECS:
                for w in (("", "5", "12") if tier == "quick" else ("", "0", "5", "12")):
                    if rep == "" and prec == "":
                        continue
                    out.append((f"format:{name}:{w}{prec}{rep}", value_script(src, [f"{w}{prec}{rep}"])))
    full = [s for s in (spec(f, a, w, p, r) for f in FILLS for a in ALIGNS for w in WIDTHS for p in PRECS for r in REPRS)
            if s is not None]
    if tier == "quick":
        for _ in range(3000):
            name, src = rng.choice(vals)
            s = rng.choice(full)
            out.append((f"format:{name}:{s}", value_script(src, [s])))
    else:
        # the full grid is |vals| x ~21k specs (2.2M scripts): a seeded 300k sample of it, plus every spec once
        for k, s in enumerate(full):
            name, src = vals[(k * 7 + rng.below(len(vals))) % len(vals)]
            out.append((f"format:{name}:{s}", value_script(src, [s])))
        for _ in range(300000):
            name, src = rng.choice(vals)
            s = rng.choice(full)
            out.append((f"format:{name}:{s}", value_script(src, [s])))
    # several interpolations in one string, nested strings, format specs next to multi-byte text
    for name, src in vals[::3]:
        lines = src.split("\n")
        body = lines[:-1] + ["v = " + lines[-1]]
        body.append("'日{v:3}本{v:>7.2}語{v:é^9?}'")
        body.append("'{'{v:4}':_>12}'")
        body.append("print '{v}', '{v:12}'")
        out.append((f"format:{name}:multi", "\n".join(body) + "\n"))
    return out


# ------------------------------------------------------------------------------------------
# size-scaled programs


def _args(n, start=0):
    return ", ".join(str(i) for i in range(start, start + n))


def _ids(n, p="a"):
    return ", ".join(f"{p}{i}" for i in range(n))


def fam_call_args(n):
    yield "call-args/top", f"f = |args...| size args\nf({_args(n)})\n"
    yield "call-args/in-fn", f"f = |args...| size args\ng = ||\n  f({_args(n)})\ng()\n"
    yield "call-args/capture", f"c = 1\nf = |args...| size args\ng = ||\n  x = c\n  f({_args(n)})\ng()\n"
    yield "call-args/2-captures-local", ("c = 1\nd = 2\nf = |args...| size args\ng = |p|\n  x = c + d + p\n  y = x\n"
                                         f"  f({_args(n)})\ng 1\n")
    yield "call-args/instance", f"m =\n  f: |args...| size args\nm.f({_args(n)})\n"
    yield "call-args/instance-capture", f"m =\n  f: |args...| size args\ng = ||\n  m.f({_args(n)})\ng()\n"
    yield "call-args/packed", f"t = (1, 2, 3)\nf = |args...| size args\nf(t..., {_args(n)})\n"
    yield "call-args/native", f"print({_args(n)})\n"
    yield "call-args/fixed-arity", f"f = |a, b| a\nx = try\n  f({_args(n)})\ncatch e\n  0\nx\n"
    yield "call-args/nested-arg", f"f = |args...| size args\nh = |x| x\ng = ||\n  f({_args(n - 1)}, h(h(1)))\ng()\n" if n > 1 else "1\n"
    yield "call-args/piped", f"f = |args...| size args\n1 -> f({_args(n)})\n"


def fam_locals(n):
    assigns = "".join(f"a{i} = {i}\n" for i in range(n))
    yield "locals/top", assigns + f"a0 + a{n - 1}\n"
    yield "locals/in-fn", "f = ||\n" + "".join(f"  a{i} = {i}\n" for i in range(n)) + f"  a0 + a{n - 1}\nf()\n"
    yield "locals/multi-assign", f"{_ids(min(n, 300))} = {_args(min(n, 300))}\na0\n"
    yield "locals/for-args", f"for {_ids(min(n, 300))} in [({_args(min(n, 300))},)]\n  a0\n"
    yield "locals/then-call", "f = |x...| size x\ng = ||\n" + "".join(f"  a{i} = {i}\n" for i in range(n)) + \
        "  f(a0, a1, a2)\ng()\n"


def fam_params(n):
    yield "params/plain", f"f = |{_ids(n)}| a0\nf({_args(n)})\n"
    yield "params/too-few", f"f = |{_ids(n)}| a0\nx = try\n  f(1)\ncatch e\n  0\nx\n"
    yield "params/defaults", "f = |" + ", ".join(f"a{i} = {i}" for i in range(n)) + "| a0\nf()\n"
    yield "params/unpack", f"f = |({_ids(n)})| a0\nf(({_args(n)},))\n" if n > 1 else "1\n"
    yield "params/variadic", f"f = |{_ids(n)}, rest...| size rest\nf({_args(n + 2)})\n"


def fam_captures(n):
    assigns = "".join(f"a{i} = {i}\n" for i in range(n))
    yield "captures/top", assigns + "f = || " + " + ".join(f"a{i}" for i in range(n)) + "\nf()\n"
    yield "captures/in-fn", "g = ||\n" + "".join(f"  a{i} = {i}\n" for i in range(n)) + \
        "  f = || " + " + ".join(f"a{i}" for i in range(n)) + "\n  f()\ng()\n"
    yield "captures/generator", assigns + "f = ||\n" + "".join(f"  yield a{i}\n" for i in range(n)) + "f().count()\n"


def fam_nested_calls(n):
    yield "nested/calls", "f = |x| x\n" + "f(" * n + "1" + ")" * n + "\n"
    yield "nested/parens", "x = " + "(" * n + "1" + ")" * n + "\n"
    yield "nested/lists", "x = " + "[" * n + "1" + "]" * n + "\n"
    yield "nested/tuples", "x = " + "(" * n + "1," + ")" * n + "\n"
    yield "nested/index", "x = [[1]]\ny = x" + "[0]" * 2 + "\nz = [0]\nw = z" + "[z[0]..]" * min(n, 300) + "\n"
    yield "nested/chain", "m = {f: || m}\nm" + ".f()" * n + "\n"
    yield "nested/unary", "x = " + "not " * n + "true\n" + "y = " + "-" * 1 + "1\n"


def fam_temporaries(n):
    yield "temps/flat-add", "x = " + " + ".join(str(i) for i in range(n)) + "\n"
    yield "temps/right-nested", "x = " + "".join(f"{i} + (" for i in range(n)) + "0" + ")" * n + "\n"
    yield "temps/mixed", "f = |a...| 1\nx = f(" + ", ".join(f"{i} * 2 + 1" for i in range(n)) + ")\n"
    yield "temps/and-or", "x = " + " and ".join("true" for _ in range(n)) + "\ny = " + " or ".join("false" for _ in range(n)) + "\n"
    yield "temps/compare-chain", "x = 0" + "".join(f" < {i + 1}" for i in range(n)) + "\n"
    yield "temps/string-concat", "x = " + " + ".join("'a'" for _ in range(n)) + "\n"


def fam_literals(n):
    yield "literal/list", f"x = [{_args(n)}]\nsize x\n"
    yield "literal/tuple", f"x = ({_args(n)},)\nsize x\n"
    yield "literal/map-inline", "x = {" + ", ".join(f"k{i}: {i}" for i in range(n)) + "}\nsize x\n"
    yield "literal/map-block", "x =\n" + "".join(f"  k{i}: {i}\n" for i in range(n)) + "size x\n"
    yield "literal/list-in-fn", f"f = ||\n  a = 1\n  [{_args(n)}]\nsize f()\n"
    yield "literal/list-of-calls", "f = |x| x\nx = [" + ", ".join(f"f({i})" for i in range(n)) + "]\n"
    yield "literal/strings", "x = [" + ", ".join(f"'s{i}'" for i in range(n)) + "]\n"      # string constants
    yield "literal/floats", "x = [" + ", ".join(f"{i}.5" for i in range(n)) + "]\n"         # number constants
    yield "literal/big-ints", "x = [" + ", ".join(f"{1000 + i}" for i in range(n)) + "]\n"
    yield "literal/map-meta", "x =\n" + "".join(f"  @meta k{i}: {i}\n" for i in range(min(n, 300))) + "  y: 1\nx.y\n"


def fam_match(n):
    yield "match/arms", "x = 3\nmatch x\n" + "".join(f"  {i} then {i}\n" for i in range(n)) + "  else -1\n"
    yield "match/alternatives", "x = 3\nmatch x\n  " + " or ".join(str(i) for i in range(n)) + " then 1\n  else 0\n"
    yield "match/tuple-pattern", f"t = ({_args(n)},)\nmatch t\n  ({_ids(n)}) then a0\n  else -1\n" if n > 1 else "1\n"
    yield "match/ellipsis", f"t = ({_args(n + 2)},)\nmatch t\n  ({_ids(n)}, rest...) then size rest\n  else -1\n"
    yield "match/nested", "t = " + "(" * min(n, 120) + "1," + ")" * min(n, 120) + "\nmatch t\n  " + \
        "(" * min(n, 120) + "x," + ")" * min(n, 120) + " then x\n  else 0\n"
    yield "match/switch", "x = 3\nswitch\n" + "".join(f"  x == {i} then {i}\n" for i in range(n)) + "  else -1\n"
    yield "match/multi-subject", f"match {_args(min(n, 300))}\n  ({_ids(min(n, 300))}) then a0\n  else 0\n" if n > 1 else "1\n"


def fam_interpolation(n):
    yield "interp/parts", "x = 1\ny = '" + "{x}" * n + "'\nsize y\n"
    yield "interp/parts-text", "x = 1\ny = '" + "".join(f"{{x}}t{i}" for i in range(n)) + "'\n"
    yield "interp/formatted", "x = 1\ny = '" + "{x:>3}" * n + "'\n"
    yield "interp/nested", "x = 1\ny = " + "'{" * min(n, 100) + "x" + "}'" * min(n, 100) + "\n"
    yield "interp/exprs", "f = |a| a\ny = '" + "".join(f"{{f({i}) + 1}}" for i in range(n)) + "'\n"


def _nest(header, depth, leaf):
    return "".join("  " * d + header + "\n" for d in range(depth)) + "  " * depth + leaf + "\n"


def fam_nesting(n):
    d = min(n, 400)
    yield "depth/if", _nest("if true", d, "1")
    yield "depth/for", _nest("for i in 0..1", d, "1")
    yield "depth/while", "n = 0\n" + _nest("while n < 1", d, "n += 1")
    yield "depth/loop", _nest("loop", d, "break") + "".join("  " * k + "break\n" for k in range(d - 1, 0, -1))
    yield "depth/fn", "f = " + "|| " * d + "1\nf()\n"
    yield "depth/fn-block", "f = ||\n" + "".join("  " * (k + 1) + "g = ||\n" for k in range(d)) + "  " * (d + 1) + "1\nf()\n"
    yield "depth/try", _nest("try", d, "1") + "".join("  " * k + "catch _\n" + "  " * (k + 1) + "0\n" for k in range(d - 1, -1, -1))
    yield "depth/map", "x =\n" + "".join("  " * (k + 1) + "k:\n" for k in range(d)) + "  " * (d + 1) + "v: 1\n"
    yield "depth/match", "x = 1\n" + "".join("  " * k + "match x\n" + "  " * (k + 1) + "_ then\n" for k in range(0, 2 * min(d, 150), 2)) \
        + "  " * (2 * min(d, 150)) + "1\n"
    yield "depth/recursion", f"f = |n| if n == 0 then 0 else 1 + f(n - 1)\nf({n})\n"


FILLERS = ["x = x + 1", "x += 1", "y = x", "x = x * 2 - x", "y = 'a'", "z = [x, y]", "y = x < 3"]


def jump_programs(n, filler):
    """a body of n filler statements inside every construct that jumps over / back across it"""
    b2 = "".join("  " + filler + "\n" for _ in range(n))
    b4 = "".join("    " + filler + "\n" for _ in range(n))
    pre = "x = 1\ny = 0\nz = 0\n"
    yield "jump/if", pre + "if x > 100\n" + b2 + "x\n"
    yield "jump/if-else", pre + "if x > 0\n  y = 1\nelse\n" + b2 + "x\n"
    yield "jump/if-taken-else", pre + "if x > 0\n" + b2 + "else\n  y = 1\nx\n"
    yield "jump/while", pre + "i = 0\nwhile i < 2\n" + b2 + "  i += 1\nx\n"
    yield "jump/until", pre + "i = 0\nuntil i >= 2\n" + b2 + "  i += 1\nx\n"
    yield "jump/loop-break", pre + "i = 0\nloop\n  i += 1\n  if i > 1\n    break\n" + b2 + "x\n"
    yield "jump/loop-continue", pre + "i = 0\nloop\n  i += 1\n  if i > 2\n    break\n  if i == 1\n    continue\n" + b2 + "x\n"
    yield "jump/for", pre + "for i in 0..2\n" + b2 + "x\n"
    yield "jump/for-break", pre + "for i in 0..3\n  if i == 1\n    break\n" + b2 + "x\n"
    yield "jump/try-catch", pre + "try\n" + b2 + "  throw 'e'\ncatch e\n  y = 1\nx\n"
    yield "jump/try-finally", pre + "try\n  y = 1\ncatch e\n" + b2 + "finally\n  z = 1\nx\n"
    yield "jump/match-arm", pre + "match x\n  0 then\n" + b4 + "  1 then\n" + b4 + "  else 2\nx\n"
    yield "jump/switch-arm", pre + "switch\n  x == 0 then\n" + b4 + "  else\n    3\nx\n"
    yield "jump/fn-body", pre + "f = ||\n  x = 1\n  y = 0\n  z = 0\n" + b2 + "  x\nf()\n"
    yield "jump/fn-skip", pre + "g = || 1\nf = ||\n  x = 1\n  y = 0\n  z = 0\n" + b2 + "  x\ng()\n"
    yield "jump/and", pre + "t = x > 100 and (\n" + "".join("  x + \n" for _ in range(min(n, 3000))) + "  1) > 0\n"
    yield "jump/nested-loops", pre + "for i in 0..2\n  for j in 0..2\n" + b4 + "    if j == 0\n      continue\n  if i == 0\n    continue\nx\n"
    yield "jump/generator", pre + "g = ||\n  x = 1\n  y = 0\n  z = 0\n  for i in 0..2\n" + b4 + "    yield i\ng().count()\n"


FAMILIES = [fam_call_args, fam_locals, fam_params, fam_captures, fam_nested_calls, fam_temporaries, fam_literals,
            fam_match, fam_interpolation, fam_nesting]


def limit_family(tier, rng=None):
    """returns [(origin, src)].  u8 limits: every n in a window that contains each limit minus the few
    registers that frames reserve (base, result, captures, instance); u16 limits: literal / constant
    counts and jump distances (thorough tier, plus a coarse scan in the quick tier)."""
    out = []
    if tier == "quick":
        ns = list(range(120, 132, 3)) + list(range(244, 262)) + [509, 510, 511, 512, 513]
    else:
        ns = list(range(1, 20)) + list(range(100, 140)) + list(range(236, 270)) + list(range(500, 520)) + [1000, 1023, 1024, 1025]
    for n in ns:
        for fam in FAMILIES:
            if tier == "quick" and fam in (fam_nesting, fam_nested_calls) and n not in (123, 129, 253, 254, 255, 256, 257):
                continue            # deep nesting is slow to parse: a few depths here, more in the thorough tier
            if tier != "quick" and fam in (fam_nesting, fam_nested_calls) and not (
                    n < 20 or (100 <= n < 140 and n % 3 == 0) or 250 <= n <= 260 or n in (400, 511, 512)):
                continue
            for name, src in fam(n):
                out.append((f"limit:{name}:{n}", src))
    # u16: number of elements / constants
    big = [65534, 65535, 65536, 65537] if tier != "quick" else []
    for n in big:
        for name, src in fam_literals(n):
            if name in ("literal/list", "literal/tuple", "literal/strings", "literal/floats", "literal/map-inline"):
                out.append((f"limit:{name}:{n}", src))
        out.append((f"limit:temps/flat-add:{n}", "x = " + " + ".join("1" for _ in range(n)) + "\n"))
    # jump distances: bodies whose bytecode size crosses 2^16 (fillers of different sizes move the
    # crossing point byte by byte); a coarse scan in the quick tier, a dense one in the thorough tier
    if tier != "quick":
        # bodies of 2000..34000 statements are slow (seconds each): a seeded sample of the
        # (filler, size, jump kind) grid instead of all ~4800 programs
        grid = [(f, n) for f in FILLERS[:3] for n in range(4000, 34000, 500)] + \
               [(f, n) for f in FILLERS[3:] for n in range(2000, 24000, 1000)]
        kinds = [name for name, _ in jump_programs(1, FILLERS[0])]
        for _ in range(320):
            filler, n = rng.choice(grid) if rng else grid[0]
            kind = rng.choice(kinds) if rng else kinds[0]
            src = next(s for name, s in jump_programs(n, filler) if name == kind)
            out.append((f"limit:{kind}:{filler}:{n}", src))
    return out


def calibrated_jump_programs(bytes_per_stmt, tier, rng=None):
    """bodies sized so that the jump across them lands within a few statements of 2^8 and 2^16 bytes.
    bytes_per_stmt: {filler: measured bytes} (from compiling two bodies of different size)"""
    out = []
    for filler, bps in bytes_per_stmt.items():
        if bps <= 0:
            continue
        for limit in ((256,) if tier == "quick" else (256, 65536)):     # 2^16-byte bodies are slow: thorough only
            centre = int(limit / bps)
            width = (4 if limit == 256 else 2) if tier == "quick" else 12
            for n in range(max(1, centre - width), centre + width + 1):
                for name, src in jump_programs(n, filler):
                    if limit == 65536 and rng is not None and not rng.chance(1, 8):
                        continue        # 2^16-byte bodies take seconds each: a seeded eighth of them
                    if tier == "quick" and limit == 65536 and name not in ("jump/if", "jump/while", "jump/loop-break", "jump/for",
                                                                           "jump/try-catch", "jump/fn-body"):
                        continue
                    out.append((f"limit:{name}:{filler}:{n}~{limit}B", src))
    return out


# ------------------------------------------------------------------------------------------
# line endings: CRLF / mixed forms, multi-line tokens before failing statements


def crlf(s):
    return s.replace("\r\n", "\n").replace("\n", "\r\n")


def mixed(s, pattern):
    """only some line breaks become CRLF: bit k of `pattern` decides for the k-th break (cyclic, 7 bits)"""
    parts = s.replace("\r\n", "\n").split("\n")
    out = []
    for k, p in enumerate(parts[:-1]):
        out.append(p + ("\r\n" if (pattern >> (k % 7)) & 1 else "\n"))
    out.append(parts[-1])
    return "".join(out)


def multiline_tokens():
    """(name, text) of tokens that span 1..3 line breaks"""
    toks = []
    for k in (1, 2, 3):
        body = "\n".join(f"  line{j} é" for j in range(k + 1))
        toks.append((f"comment{k}", f"#- c\n{body[2:]} -#" if k == 1 else "#- " + body[2:] + "\n-#"))
        toks.append((f"comment-nested{k}", "#- a #- b\n" * k + "-# " * k + "-#"))
        toks.append((f"string{k}", "s = '" + "\n".join(f"t{j}" for j in range(k + 1)) + "'"))
        toks.append((f"dstring{k}", 's = "' + "\n".join(f"é{j}" for j in range(k + 1)) + '"'))
        toks.append((f"raw{k}", "s = r'" + "\n".join(f"r{j}\\" for j in range(k + 1)) + "'"))
        toks.append((f"raw-hash{k}", "s = r#'" + "\n".join(f"'{j}" for j in range(k + 1)) + "'#"))
        toks.append((f"interp{k}", "z = 1\ns = '" + "\n".join("{z}" for j in range(k + 1)) + "'"))
        toks.append((f"interp-expr{k}", "z = 1\ns = '{z +" + "\n" * k + " 1}'"))
        toks.append((f"fmt-spec{k}", "z = 1\ns = '{z:" + "\n" * k + ">5}'"))
        toks.append((f"escaped-nl{k}", "s = 'a\\" + "\n" + "b'" + "\nt = 'c\\\n d'" * (k - 1)))
        toks.append((f"continuation{k}", "q = 1 +" + "\n  " * k + "2"))
        toks.append((f"map-block{k}", "m =\n" + "".join(f"  k{j}: {j}\n" for j in range(k)).rstrip("\n")))
    return toks


FAIL_COMPILE = ["x = 1 +", "y = )", "x = [1, 2", "f = |a, | a", "match", "x = 'unterminated", "let x: = 1", "import"]
FAIL_RUN = ["x = [1, 2, 3]\nx.foo()", "throw 'boom'", "assert false", "w = 1 + null", "f = |a| a.nope\nf 1",
            "g = ||\n  h = ||\n    throw 'deep'\n  h()\ng()", "[1, 2][5]", "assert_eq 1, 2", "let n: String = 1",
            "t =\n  @display: || throw 'in display'\nthrow t"]
OK_TAIL = ["y = 2", "print 'ok'", ""]


def crlf_family(tier, rng, corpus):
    """returns [(origin, src)].  corpus: [(name, text)] of the repository's koto sources"""
    out = []
    toks = multiline_tokens()
    tails = [("compile-error", t) for t in FAIL_COMPILE] + [("run-error", t) for t in FAIL_RUN] + [("ok", t) for t in OK_TAIL]
    if tier == "quick":
        tails = [("compile-error", t) for t in FAIL_COMPILE[:4]] + [("run-error", t) for t in FAIL_RUN[:6]] + [("ok", "y = 2")]
    for tname, tok in toks:
        for kind, tail in tails:
            # the failing statement right after the token / a few lines later / with code after it;
            # with and without a final line break; a second multi-line token before the first
            shapes = [tok + "\n" + tail, tok + "\n" + tail + "\n", "a = 0\n" + tok + "\nb = 1\nc = 2\n" + tail + "\n",
                      tok + "\n" + tail + "\nafter = 1\n"]
            if tier != "quick":
                shapes += [tok + "\n" + tok.replace("s =", "s2 =") + "\n" + tail + "\n",
                           "f = ||\n" + "\n".join("  " + l for l in tok.split("\n")) + "\n" +
                           "\n".join("  " + l for l in tail.split("\n")) + "\nf()\n"]
            for si, base in enumerate(shapes):
                forms = [("crlf", crlf(base)), ("mixed", mixed(base, 0b0101101)), ("mixed2", mixed(base, 0b1010010)),
                         ("cr-only-in-token", base.replace("\n", "\r\n", tok.count("\n")))]
                if tier != "quick":
                    forms += [("lf", base), ("mixed3", mixed(base, 0b0000001)), ("mixed4", mixed(base, 0b1111110)),
                              ("lone-cr", base.replace("\n", "\r", 1))]
                for fname, text in forms:
                    out.append((f"crlf:{tname}:{kind}:{si}:{fname}", text))
    # every multi-line pool value in CRLF / mixed form, alone and before a failing statement
    for p in P.POOL:
        if "\n" in p["src"]:
            for fname, f in (("crlf", crlf), ("mixed", lambda s: mixed(s, 0b0101101))):
                out.append((f"crlf:pool:{p['name']}:{fname}", f(p["src"] + "\n")))
                out.append((f"crlf:pool:{p['name']}:{fname}:run-error", f("v = 0\n" + p["src"] + "\nv.nope()\n")))
                out.append((f"crlf:pool:{p['name']}:{fname}:compile-error", f(p["src"] + "\nx = 1 +\n")))
    # the repository's own sources with CRLF / mixed line endings, and with an error appended
    srcs = [(n, t) for n, t in corpus if "\n" in t and len(t) < 20000]
    for k, (name, text) in enumerate(srcs):
        out.append((f"crlf:corpus:{name}:crlf", crlf(text)))
        if tier != "quick" or k % 3 == 0:
            out.append((f"crlf:corpus:{name}:mixed", mixed(text, rng.next() % 128)))
            out.append((f"crlf:corpus:{name}:crlf+compile-error", crlf(text.rstrip("\n") + "\nx = 1 +")))
            out.append((f"crlf:corpus:{name}:crlf+run-error", crlf(text.rstrip("\n") + "\nnull.nope()\n")))
    return out


# ------------------------------------------------------------------------------------------
# re-entrancy: every function of the container / iterator / string modules, given a callback that
# reads or writes the receiver itself, in every argument position and with growing / shrinking /
# equal size arguments.  Functions that take no callback just reject the arguments.

RECEIVERS = {
    # kind: (constructor lines, [read touches], [write touches])
    "list": (["z = [3, 1, 2]"],
             ["size z", "z[0]", "z.first()", "z.contains 1", "'{z}'", "z.to_tuple()", "z.get 1", "z == z"],
             ["if (size z) < 8\n    z.push 0", "z.pop()", "z.clear()", "z.sort()", "if (size z) > 0\n    z[0] = 9",
              "z.resize 1", "z.reverse()", "z.fill 7", "z.insert 0, 5", "if (size z) < 8\n    z.extend (1, 2)"]),
    "map": (["z = {b: 2, a: 1, c: 3}"],
            ["size z", "z.get 'a'", "z.contains_key 'a'", "z.keys().to_tuple()", "'{z}'", "z.get_index 0", "z == z"],
            ["if (size z) < 8\n    z.insert 'k{size z}', 1", "z.remove 'a'", "z.clear()", "z.sort()", "z.b = 20",
             "z.update 'a', |v| 5", "z.extend {q: 1}"]),
    "tuple": (["inner = [1, 2]", "z = (inner, [3], 4)"],
              ["size z", "z[0]", "z.first()", "'{z}'", "z.contains 4"],
              ["if (size inner) < 8\n    inner.push 0", "inner.clear()"]),
    "string": (["z = 'héllo wörld'"], ["size z", "z[0]", "z.chars().to_tuple()", "'{z}'"], []),
    "iter-of-list": (["l = [3, 1, 2]", "z = l.iter()"],
                     ["z.next()", "size l", "copy z", "z.copy().to_tuple()"],
                     ["if (size l) < 8\n    l.push 0", "l.clear()", "l.pop()", "z.next_back()", "z.consume()"]),
    "iter-of-map": (["m = {b: 2, a: 1}", "z = m.iter()"],
                    ["z.next()", "size m"],
                    ["if (size m) < 8\n    m.insert 'k{size m}', 1", "m.clear()", "m.remove 'a'"]),
}
MODULE_RECEIVERS = {
    "list": ["list"], "map": ["map"], "tuple": ["tuple"], "string": ["string"],
    "iterator": ["list", "map", "tuple", "string", "iter-of-list", "iter-of-map"],
}
RETURNS = ["true", "false", "1", "null", "a"]
ARG_SHAPES = [["cb"], ["cb", "cb"]] + [[x, "cb"] for x in ("0", "1", "3", "5", "'a'", "null", "'k'")] + \
    [["cb", x] for x in ("0", "2", "5")] + [[x, y, "cb"] for x in ("'a'", "0", "5") for y in ("0", "null")]


QUICK_SHAPES = [["cb"], ["cb", "cb"], ["0", "cb"], ["1", "cb"], ["3", "cb"], ["5", "cb"], ["'a'", "cb"], ["cb", "2"],
                ["'a'", "0", "cb"]]


def reentrant_script(recv, fn, touch, ret, shape):
    ctor = RECEIVERS[recv][0]
    lines = list(ctor) + ["cb = |a...|", "  " + touch, "  " + ret,
                          "r = try", "  z." + fn + " " + ", ".join(shape), "catch e", "  null",
                          "try", "  r.take(6).to_tuple()", "catch e", "  null"]
    return "\n".join(lines) + "\n"


def reentrant_family(tier, rng, entries):
    """entries: the prelude's entry points as listed by kh_safe.  returns [(origin, entry, src)] where
    `entry` = 'reentrant:<module>.<fn>' is what the known-class table is keyed by"""
    out = []
    for e in entries:
        module, fn = e["module"], e["name"]
        if e["kind"] != "fn" or module not in MODULE_RECEIVERS:
            continue
        for recv in MODULE_RECEIVERS[module]:
            _, reads, writes = RECEIVERS[recv]
            touches = [("read", t) for t in reads] + [("write", t) for t in writes]
            combos = [(k, t, ret, shape) for k, t in touches for ret in RETURNS for shape in ARG_SHAPES]
            if tier == "quick":
                # every touch with the main shapes once (return value rotating), plus a seeded sample of the rest
                picked = [(k, t, RETURNS[(i + j) % len(RETURNS)], shape)
                          for i, (k, t) in enumerate(touches) for j, shape in enumerate(QUICK_SHAPES)]
                picked += [rng.choice(combos) for _ in range(20)]
            else:
                # every touch x shape with a rotating return value, plus a seeded sample of the full product
                picked = [(k, t, RETURNS[(i + j) % len(RETURNS)], shape)
                          for i, (k, t) in enumerate(touches) for j, shape in enumerate(ARG_SHAPES)]
                picked += [rng.choice(combos) for _ in range(400)]
            for k, t, ret, shape in picked:
                out.append((f"reentrant:{module}.{fn}:{recv}:{k}:{t.splitlines()[0]}:{ret}:{','.join(shape)}",
                            f"reentrant:{module}.{fn}", reentrant_script(recv, fn, t, ret, shape)))
    return out
