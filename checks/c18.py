"""C18  Modules: exports, imports and caching behave as documented.

T  theorems in coq/mod/C18Props.v about the impl-shaped model of run_import / find_module /
   export / non-local lookup (all finite module graphs, all histories of host scripts)
R  correspondence: model (vm_compute) vs the real crates: every generated module graph is written
   to a scratch directory, histories of host scripts run on ONE Koto runtime; per step the error
   class, the stdout lines and Koto::exports() must agree exactly
D  the property's clauses evaluated directly on the implementation's output
"""
import itertools
import json
import os
import sys

from vlib import common as C
from tools import k2v, k2v_mod

PID = "C18"
UNIT = "mod"

PINNED = [
    "run_once", "loaded_never_runs_again", "no_placeholder_leak", "cycle_is_error", "in_progress_never_reenters",
    "failed_import_rolls_back", "failed_import_keeps_other_placeholders", "cycle_detected_after_failed_import",
    "pinned_cleanup_removes_own_placeholder", "compile_error_leaves_nothing",
    "reimport_after_failure_runs_again", "export_visibility", "last_export_wins", "reassign_not_export",
    "resolution_order", "non_local_order", "newest_wildcard_wins", "top_level_export_final",
    "exports_track_final_values", "compound_assign_exports",
]

# ---------------------------------------------------------------------------
# names: one number space for identifiers (module names, keys)
MAIN = 0
NAMES = {0: "main", 1: "ma", 2: "mb", 3: "mc", 4: "md", 5: "me", 6: "mf", 7: "string", 8: "number",
         10: "ka", 11: "kb", 12: "kc", 13: "kd", 20: "ta", 21: "tb"}
MODS = [1, 2, 3, 4, 5, 6]
PRELUDE = [7, 8]
KEYS = [10, 11, 12, 13]
TESTS = [20, 21]
THROW = 'throw "kv_thrown"'


def nm(n):
    return NAMES[n]


def path_str(p):
    d, n = p
    return "/".join([nm(x) for x in d] + [nm(n)]) + ".koto"


# ---------------------------------------------------------------------------
# items -> koto source / Coq terms

def expr_src(e):
    return str(e[1]) if e[0] == "lit" else nm(e[1])


def fn_src(head, mark, fail):
    if fail:
        return f'{head} = ||\n  print "m:{mark}"\n  {THROW}'
    return f'{head} = || print "m:{mark}"'


def item_src(it):
    k = it[0]
    if k == "mark":
        return f'print "m:{it[1]}"'
    if k == "imp":
        return f"import {nm(it[1])}" + (f" as {nm(it[2])}" if it[2] is not None else "")
    if k == "from":
        return f"from {nm(it[1])} import " + ", ".join(nm(a) + (f" as {nm(b)}" if b is not None else "") for a, b in it[2])
    if k == "all":
        return f"from {nm(it[1])} import *"
    if k == "try":
        imp = f"import {nm(it[1])}" + (f" as {nm(it[2])}" if it[2] is not None else "")
        return f'try\n  {imp}\ncatch _\n  print "m:{it[3]}"'
    if k == "export":
        return f"export {nm(it[1])} = {expr_src(it[2])}"
    if k == "assign":
        return f"{nm(it[1])} = {expr_src(it[2])}"
    if k == "aop":
        return f"{nm(it[1])} += {expr_src(it[2])}"
    if k == "show":
        return f"show {expr_src(it[1])}"
    if k == "fail":
        return THROW
    if k == "test":
        return fn_src(f"@test {nm(it[1])}", it[2], it[3])
    if k == "main":
        return fn_src("@main", it[1], it[2])
    if k == "main_nc":
        return "@main = 1"
    if k == "syntax":
        return ")) this does not compile (("
    if k == "raw":
        return it[1].rstrip("\n")
    raise ValueError(it)


def body_src(items):
    return "\n".join(item_src(i) for i in items) + "\n"


def cb(b):
    return "true" if b else "false"


def copt(x):
    return "None" if x is None else f"(Some {x})"


def expr_coq(e):
    return f"(ELit {e[1]})" if e[0] == "lit" else f"(EVar {e[1]})"


def item_coq(it):
    k = it[0]
    if k == "mark":
        return f"Marker {it[1]}"
    if k == "imp":
        return f"Import (ImpMod {it[1]} {copt(it[2])})"
    if k == "from":
        return f"Import (ImpFrom {it[1]} [" + "; ".join(f"({a}, {copt(b)})" for a, b in it[2]) + "])"
    if k == "all":
        return f"Import (ImpAll {it[1]})"
    if k == "try":
        return f"TryImport {it[1]} {copt(it[2])} {it[3]}"
    if k == "export":
        return f"Export {it[1]} {expr_coq(it[2])}"
    if k == "assign":
        return f"Assign {it[1]} {expr_coq(it[2])}"
    if k == "aop":
        return f"AssignOp {it[1]} {expr_coq(it[2])}"
    if k == "show":
        return f"Show {expr_coq(it[1])}"
    if k == "fail":
        return "Fail"
    if k == "test":
        return f"DefineTest {it[1]} {{| fb_mark := {it[2]}; fb_fail := {cb(it[3])} |}}"
    if k == "main":
        return f"DefineMain (MFun {{| fb_mark := {it[1]}; fb_fail := {cb(it[2])} |}})"
    if k == "main_nc":
        return "DefineMain MNotCallable"
    if k == "syntax":
        return "SyntaxError"
    raise ValueError(it)


def items_coq(items):
    return "[" + "; ".join(item_coq(i) for i in items) + "]"


def dir_coq(d):
    return "[" + "; ".join(str(x) for x in d) + "]"


def cfg_coq(files, tests):
    fs = "; ".join(f"(({dir_coq(p[0])}, {p[1]}), {items_coq(b)})" for p, b in files)
    return f"{{| files := [{fs}]; prelude := {dir_coq(PRELUDE)}; run_import_tests := {cb(tests)} |}}"


def steps_coq(steps):
    out = []
    for s in steps:
        if s[0] == "clear":
            out.append("HClear")
        else:
            _, force, d, body = s
            out.append(f"HRun {cb(force)} {dir_coq(d)} {items_coq(body)}")
    return "[" + "; ".join(out) + "]"


# ---------------------------------------------------------------------------
# decoding the model's flat output

class Dec:
    def __init__(self, xs):
        self.xs = xs
        self.i = 0

    def next(self):
        v = self.xs[self.i]
        self.i += 1
        return v

    def value(self):
        t = self.next()
        if t == 0:
            return f"i{self.next()}"
        if t == 2:
            return "s" + nm(self.next())
        if t == 3:
            return "P" + nm(self.next())
        if t == 9:
            return "9"
        n = self.next()
        parts = []
        for _ in range(n):
            k = self.next()
            parts.append(f"{nm(k)}={self.value()}")
        return "M{" + ",".join(parts) + "}"


def decode_step(xs):
    if xs == [99]:
        return {"r": 99, "out": [], "exports": "out of fuel"}
    d = Dec(xs)
    r = d.next()
    n = d.next()
    out = []
    for _ in range(n):
        t = d.next()
        if t == 0:
            out.append(f"m:{d.next()}")
        else:
            out.append("v:" + d.value())
    ex = d.value()
    assert d.i == len(xs)
    return {"r": r, "out": out, "exports": ex}


# ---------------------------------------------------------------------------
# generators.  A case = (origin, files, runs, meta); files: [(path, items)], path = (dir tuple, name);
# runs: [(tests, steps)], step = ("run", force, dir, items) | ("clear",)

def top_mark(i):
    return 100 + i


def end_mark(i):
    return 200 + i


def wrap(i, items):
    """module number i: top marker first, end marker last"""
    return [("mark", top_mark(i))] + items + [("mark", end_mark(i))]


def import_orders(names, rng, limit):
    perms = list(itertools.permutations(names))
    if len(perms) > limit:
        perms = [perms[rng.below(len(perms))] for _ in range(limit)]
    return perms


def host_import(force, n, d=()):
    return ("run", force, tuple(d), [("imp", n, None)])


def std_runs(names, rng, limit=6, reimport=True):
    """every (sampled) import order, each module imported twice in a row when `reimport`,
    under both run_import_tests settings and both export_top_level_ids settings"""
    runs = []
    for order in import_orders(names, rng, limit):
        for tests in (True, False):
            for force in (False, True):
                steps = []
                for n in order:
                    steps.append(host_import(force, n))
                if reimport:
                    for n in order:
                        steps.append(host_import(force, n))
                runs.append((tests, steps))
    return runs


def structured_cases(rng):
    cases = []
    R = ()

    def add(origin, files, names, clean=True, **kw):
        cases.append((origin, files, std_runs(names, rng, **kw), {"clean": clean}))

    # chain a -> b -> c, with exports flowing up
    add("dag-chain", [((R, 1), wrap(0, [("imp", 2, None), ("from", 2, [(10, None)]), ("export", 11, ("var", 10))])),
                      ((R, 2), wrap(1, [("from", 3, [(10, 12)]), ("export", 10, ("var", 12))])),
                      ((R, 3), wrap(2, [("export", 10, ("lit", 7)), ("assign", 10, ("lit", 8)),
                                        ("test", 20, 300, False), ("main", 301, False)]))], [1, 2, 3])
    # diamond
    add("diamond", [((R, 1), wrap(0, [("imp", 2, None), ("imp", 3, None)])),
                    ((R, 2), wrap(1, [("imp", 4, None), ("export", 10, ("lit", 1))])),
                    ((R, 3), wrap(2, [("all", 4), ("export", 11, ("var", 12))])),
                    ((R, 4), wrap(3, [("export", 12, ("lit", 5)), ("test", 20, 300, False), ("test", 21, 302, False),
                                      ("main", 301, False)]))], [1, 2, 3, 4])
    # cycles of length 1..3
    add("cycle-1", [((R, 1), wrap(0, [("imp", 1, None)]))], [1])
    add("cycle-2", [((R, 1), wrap(0, [("imp", 2, None)])), ((R, 2), wrap(1, [("imp", 1, None)]))], [1, 2])
    add("cycle-3", [((R, 1), wrap(0, [("imp", 2, None)])), ((R, 2), wrap(1, [("imp", 3, None)])),
                    ((R, 3), wrap(2, [("export", 10, ("lit", 1)), ("imp", 1, None)]))], [1, 2, 3])
    # cycle entered through a module outside it, and a cycle whose failure is caught
    add("cycle-tail", [((R, 1), wrap(0, [("imp", 2, None)])), ((R, 2), wrap(1, [("imp", 3, None)])),
                       ((R, 3), wrap(2, [("imp", 2, None)]))], [1, 2, 3])
    add("cycle-caught", [((R, 1), wrap(0, [("try", 2, None, 400), ("export", 10, ("lit", 1))])),
                         ((R, 2), wrap(1, [("imp", 1, None)]))], [1, 2])
    # file wins over directory; directory module; relative resolution inside a directory
    add("file-vs-dir", [((R, 1), wrap(0, [("export", 10, ("lit", 1))])),
                        (((1,), MAIN), wrap(1, [("export", 10, ("lit", 2))])),
                        ((R, 2), wrap(2, [("from", 1, [(10, None)]), ("export", 11, ("var", 10))]))], [1, 2])
    add("dir-module", [(((1,), MAIN), wrap(0, [("imp", 2, None), ("export", 10, ("lit", 2))])),
                       (((1,), 2), wrap(1, [("export", 11, ("lit", 3))])),
                       ((R, 2), wrap(2, [("export", 11, ("lit", 4))])),
                       ((R, 3), wrap(3, [("imp", 1, None), ("imp", 2, None)]))], [1, 2, 3])
    add("dir-self-main", [(((1,), MAIN), wrap(0, [("imp", MAIN, None)]))], [1])
    # failing before / after a nested import, failing test, failing @main, @main not callable
    add("fail-before", [((R, 1), wrap(0, [("fail",), ("imp", 2, None)])), ((R, 2), wrap(1, []))], [1, 2])
    add("fail-after", [((R, 1), wrap(0, [("export", 10, ("lit", 1)), ("imp", 2, None), ("fail",)])),
                       ((R, 2), wrap(1, [("export", 11, ("lit", 2))]))], [1, 2])
    add("fail-nested", [((R, 1), wrap(0, [("imp", 2, None), ("imp", 3, None)])), ((R, 2), wrap(1, [])),
                        ((R, 3), wrap(2, [("imp", 4, None), ("fail",)])), ((R, 4), wrap(3, []))], [1, 2, 3, 4])
    add("fail-test", [((R, 1), wrap(0, [("imp", 2, None)])),
                      ((R, 2), wrap(1, [("test", 20, 300, False), ("test", 21, 301, True), ("main", 302, False)]))], [1, 2])
    add("fail-main", [((R, 1), wrap(0, [("imp", 2, None)])),
                      ((R, 2), wrap(1, [("test", 20, 300, False), ("main", 302, True)]))], [1, 2])
    add("main-not-callable", [((R, 1), wrap(0, [("main_nc",)]))], [1])
    add("caught-then-ok", [((R, 1), wrap(0, [("try", 2, None, 400), ("show", ("var", 2)), ("imp", 3, None)])),
                           ((R, 2), wrap(1, [("imp", 3, None), ("fail",)])), ((R, 3), wrap(2, []))], [1, 2, 3])
    add("missing-module", [((R, 1), wrap(0, [("imp", 5, None)]))], [1, 5])
    # a failing import CAUGHT inside a module that is itself still being imported, followed by an import
    # cycle leading back to that still-loading module (the failure must remove only its own placeholder);
    # failure kinds: runtime error / failing @test / failing @main / missing module / compile error;
    # the catch one level down (in b, imported by a) with the cycle closing on b or on a; two failures
    kinds = {"runtime": [((R, 2), wrap(1, [("fail",)]))],
             "test": [((R, 2), wrap(1, [("test", 20, 310, True)]))],
             "main": [((R, 2), wrap(1, [("main", 311, True)]))],
             "main-nc": [((R, 2), wrap(1, [("main_nc",)]))],
             "missing": [],
             "compile": [((R, 2), wrap(1, [("syntax",)]))],
             "nested-fail": [((R, 2), wrap(1, [("imp", 5, None), ("export", 10, ("lit", 1))])), ((R, 5), wrap(4, [("fail",)]))]}
    for kind, bad in kinds.items():
        add("caught-then-cycle/" + kind,
            [((R, 1), wrap(0, [("try", 2, None, 400), ("imp", 3, None)]))] + bad + [((R, 3), wrap(2, [("imp", 1, None)]))],
            [1, 3], limit=2)
        add("caught-then-cycle-2/" + kind,
            [((R, 1), wrap(0, [("export", 10, ("lit", 1)), ("imp", 4, None)])),
             ((R, 4), wrap(3, [("try", 2, None, 403), ("try", 2, 11, 403), ("imp", 3, None)]))] + bad +
            [((R, 3), wrap(2, [("imp", 1 if kind in ("runtime", "test", "missing") else 4, None)]))],
            [1, 4], limit=2)
    # ... and the cycle itself caught, after which the module goes on and loads
    add("caught-then-cycle-caught", [((R, 1), wrap(0, [("try", 2, None, 400), ("try", 3, None, 400), ("export", 10, ("lit", 1))])),
                                     ((R, 2), wrap(1, [("fail",)])), ((R, 3), wrap(2, [("imp", 1, None)]))], [1, 3], limit=2)
    add("compile-error", [((R, 1), wrap(0, [("imp", 2, None)])), ((R, 2), wrap(1, [("syntax",)])),
                          ((R, 3), wrap(2, [("try", 2, None, 402), ("export", 10, ("lit", 1))]))], [1, 2, 3], limit=3)
    # prelude names and locals shadow files; wildcard order
    add("prelude-shadow", [((R, 7), wrap(0, [("export", 10, ("lit", 1))])),
                           ((R, 1), wrap(1, [("imp", 7, None), ("show", ("var", 7))]))], [1, 7], clean=False)
    add("local-shadow", [((R, 1), wrap(0, [("assign", 2, ("lit", 3)), ("imp", 2, None), ("show", ("var", 2))])),
                         ((R, 2), wrap(1, []))], [1, 2], clean=False)
    add("wildcard-order", [((R, 1), wrap(0, [("export", 10, ("lit", 1)), ("export", 11, ("lit", 1))])),
                           ((R, 2), wrap(1, [("export", 10, ("lit", 2))])),
                           ((R, 4), wrap(3, [("export", 10, ("lit", 1)), ("export", 11, ("lit", 1))])),
                           ((R, 3), wrap(2, [("all", 1), ("all", 2), ("all", 1), ("show", ("var", 10)),
                                             ("all", 4), ("show", ("var", 10)), ("show", ("var", 11)),
                                             ("export", 10, ("lit", 9)), ("show", ("var", 10))]))], [3], clean=False)
    return cases


def scripted_cases():
    """histories whose host scripts are more than a single import"""
    R = ()
    cases = []
    files = [((R, 1), wrap(0, [("export", 10, ("lit", 1)), ("export", 11, ("lit", 2))])),
             ((R, 2), wrap(1, [("fail",)]))]
    for tests in (True, False):
        for force in (False, True):
            steps = [("run", force, R, [("export", 12, ("lit", 5)), ("assign", 12, ("lit", 6)), ("assign", 13, ("lit", 7)),
                                        ("show", ("var", 12))]),
                     ("run", force, R, [("show", ("var", 12)), ("imp", 2, None)]),
                     ("run", force, R, [("export", 13, ("lit", 8)), ("imp", 2, None)]),
                     ("run", force, R, [("imp", 1, 10), ("show", ("var", 10))]),
                     ("run", force, R, [("from", 1, [(10, 12), (11, None)]), ("show", ("var", 12))]),
                     ("run", force, R, [("assign", 10, ("lit", 3)), ("all", 1), ("show", ("var", 10)), ("show", ("var", 11))]),
                     ("run", force, R, [("show", ("var", 10)), ("show", ("var", 11))]),
                     ("run", force, R, [("assign", 12, ("lit", 1)), ("aop", 12, ("lit", 1)), ("aop", 13, ("lit", 4)),
                                        ("show", ("var", 12)), ("show", ("var", 13))]),
                     ("run", force, R, [("show", ("var", 12)), ("show", ("var", 13)), ("aop", 12, ("var", 13))]),
                     ("clear",),
                     ("run", False, R, [("try", 1, 11, 500), ("show", ("var", 11))]),
                     ("run", force, R, [("from", 1, [(10, None), (13, None)])])]
            cases.append(("host-scripts", files, [(tests, steps)], {"clean": False}))
    return cases


def raw_cases():
    """cases written directly as koto source (outside the model's item language; D-predicates only):
    the failing import is caught at the top level / inside a function called during the import / inside
    @main (which runs while the module is still loading) / one level down, then an import cycle leads back
    to the still-loading module.  Markers follow the conventions of the generated modules."""
    R = ()
    bad_src = {
        "runtime": ('print "m:101"\n' + THROW + "\n", True),
        "test": ('print "m:101"\n@test ta = ||\n  ' + THROW + '\nprint "m:201"\n', False),
        "main": ('print "m:101"\n@main = ||\n  ' + THROW + '\nprint "m:201"\n', False),
        "missing": (None, True),
        "compile": ('print "m:101"\n)) this does not compile ((\n', True),
    }
    catch = '  try\n    import mb\n  catch _\n    print "m:{c}"\n'
    a_variants = {
        "top": 'print "m:100"\ntry\n  import mb\ncatch _\n  print "m:400"\nimport mc\nprint "m:200"\n',
        "fn": 'print "m:100"\nf = ||\n' + catch.format(c=400) + 'f()\nimport mc\nprint "m:200"\n',
        "fn-twice": 'print "m:100"\nf = ||\n' + catch.format(c=400) + 'f()\nf()\nimport mc\nprint "m:200"\n',
        "main": 'print "m:100"\n@main = ||\n' + catch.format(c=400) + '  import mc\nprint "m:200"\n',
        "test": 'print "m:100"\n@test ta = ||\n' + catch.format(c=400) + '  import mc\nprint "m:200"\n',
    }
    d_src = 'print "m:102"\nimport ma\nprint "m:202"\n'
    cases = []
    for kind, (bsrc, _) in bad_src.items():
        for var, asrc in a_variants.items():
            files = [((R, 1), [("raw", asrc, {"ok": False})])]
            files.append(((R, 2), [("raw", bsrc if bsrc is not None else "", {"ok": False})]))
            files.append(((R, 3), [("raw", d_src, {"ok": False})]))
            if bsrc is None:
                files[1] = ((R, 6), [("raw", 'print "m:101"\n', {"ok": True})])      # unrelated file, keeps the indices
            runs = []
            expect = []
            for tests in (True, False):
                steps = [host_import(False, 1), host_import(False, 3), host_import(False, 1)]
                runs.append((tests, steps))
                if var == "test" and not tests:
                    expect.append([0, 0, 0])          # the catching test never runs: no failure, no cycle
                else:
                    expect.append([1, 1, 1])
            cases.append((f"raw-caught-then-cycle/{var}", files, runs, {"clean": False, "raw": True, "expect": expect}))
        # one level down: a imports b; b catches the failure (inside a function) and then imports d; d closes the
        # cycle on a (two levels up) or on b
        for back in (1, 4):
            bsrc2 = 'print "m:103"\nf = ||\n' + catch.format(c=403) + 'f()\nimport mc\nprint "m:203"\n'
            files = [((R, 1), [("raw", 'print "m:100"\nimport md\nprint "m:200"\n', {"ok": False})]),
                     ((R, 2) if bsrc is not None else (R, 6), [("raw", bsrc or 'print "m:101"\n', {"ok": bsrc is None})]),
                     ((R, 3), [("raw", f'print "m:102"\nimport {nm(back)}\nprint "m:202"\n', {"ok": False})]),
                     ((R, 4), [("raw", bsrc2, {"ok": False})])]
            runs = [(tests, [host_import(False, 1), host_import(False, 4), host_import(False, 1)]) for tests in (True, False)]
            cases.append((f"raw-caught-then-cycle/nested-{nm(back)}", files, runs,
                          {"clean": False, "raw": True, "expect": [[1, 1, 1], [1, 1, 1]]}))
    return cases


# ---------------------------------------------------------------------------
# "repl-mode chunks": sequences of 1-3 chunks compiled with export_top_level_ids(true) on one runtime,
# built from every top-level assignment form; a small interpreter gives the expected exports map.

RTOP = ["xa", "xb", "xc", "xd"]
RFN = ["wa", "wb"]
ROPS = ["+", "-", "*", "%"]


def rem(a, b):
    r = abs(a) % b
    return -r if a < 0 else r


def r_expr(rng, defined, loopvars):
    pool = [d for d in defined] + loopvars
    k = rng.below(5)
    if k < 2 or not pool:
        return ("lit", rng.below(9))
    if k < 3:
        return ("var", rng.choice(pool))
    return ("add", rng.choice(pool), 1 + rng.below(5))


def r_block(rng, prior, sure, maybe, depth, loopvars, n, forms):
    """-> (stmts, sure', maybe').  Compile-order bookkeeping of one chunk: `prior` = ids surely exported by
    earlier chunks, `sure` = ids assigned on every path so far in this chunk, `maybe` = ids assigned somewhere
    so far in this chunk.  An id is READ only when the read is well defined: it is a local that was surely
    written, or it is not a local of this chunk (yet) and an earlier chunk exported it.  (An id that an earlier
    chunk exported and that this chunk assigns only in a branch not taken reads as null afterwards: the local
    shadows the export -- class C18d, kept out of this family.)"""
    out = []
    sure, maybe = set(sure), set(maybe)

    def readable():
        return sorted(sure | (set(prior) - maybe))

    for _ in range(n):
        form = rng.choice(forms)
        rd = readable()
        if form == "op" and not rd:
            form = "set"
        if form == "set":
            x = rng.choice(RTOP)
            out.append(("set", x, r_expr(rng, rd, loopvars)))
            sure.add(x)
            maybe.add(x)
        elif form == "op":
            x = rng.choice(rd)
            op = rng.choice(ROPS)
            e = ("lit", 2 + rng.below(4)) if op in "*%" else r_expr(rng, rd, loopvars)
            out.append(("op", x, op, e))
        elif form in ("multi", "unpack"):
            a, b = rng.choice(RTOP), rng.choice(RTOP)
            if a == b:
                b = RTOP[(RTOP.index(a) + 1) % len(RTOP)]
            out.append((form, [a, b], [r_expr(rng, rd, loopvars), r_expr(rng, rd, loopvars)]))
            sure |= {a, b}
            maybe |= {a, b}
        elif form == "if" and depth < 2 and rd:
            c = (rng.choice(rd), rng.below(9))
            t, st, mt = r_block(rng, prior, sure, maybe, depth + 1, loopvars, 1 + rng.below(2), forms)
            if rng.chance(1, 2):
                e, se, me = r_block(rng, prior, sure, mt, depth + 1, loopvars, 1 + rng.below(2), forms)
                out.append(("if", c, t, e))
                sure |= (st & se)
                maybe |= me
            else:
                out.append(("if", c, t, None))
                maybe |= mt
        elif form == "match" and depth < 2 and rd:
            x = rng.choice(rd)
            t, st, mt = r_block(rng, prior, sure, maybe, depth + 1, loopvars, 1, forms)
            e, se, me = r_block(rng, prior, sure, mt, depth + 1, loopvars, 1, forms)
            out.append(("match", x, rng.below(9), t, e))
            sure |= (st & se)
            maybe |= me
        elif form == "for" and depth < 2:
            lv = "ij"[depth]
            b, sb, mb = r_block(rng, prior, sure, maybe, depth + 1, loopvars + [lv], 1 + rng.below(2), forms)
            out.append(("for", lv, 1 + rng.below(3), b))
            sure |= sb
            maybe |= mb
        elif form == "fn" and depth == 0:
            w = rng.choice(RFN)
            out.append(("fn", w, rng.below(9), rng.choice(ROPS[:3]), 1 + rng.below(4), rng.choice(RTOP)))
            sure.add(out[-1][5])
            maybe.add(out[-1][5])
        else:
            x = rng.choice(RTOP)
            out.append(("set", x, ("lit", rng.below(9))))
            sure.add(x)
            maybe.add(x)
    return out, sure, maybe


def r_esrc(e):
    if e[0] == "lit":
        return str(e[1])
    if e[0] == "var":
        return e[1]
    return f"{e[1]} + {e[2]}"


def r_src(stmts, ind=""):
    L = []
    for st in stmts:
        k = st[0]
        if k == "set":
            L.append(f"{ind}{st[1]} = {r_esrc(st[2])}")
        elif k == "op":
            L.append(f"{ind}{st[1]} {st[2]}= {r_esrc(st[3])}")
        elif k == "multi":
            L.append(f"{ind}{st[1][0]}, {st[1][1]} = {r_esrc(st[2][0])}, {r_esrc(st[2][1])}")
        elif k == "unpack":
            L.append(f"{ind}{st[1][0]}, {st[1][1]} = ({r_esrc(st[2][0])}, {r_esrc(st[2][1])})")
        elif k == "if":
            L.append(f"{ind}if {st[1][0]} > {st[1][1]}")
            L += r_src(st[2], ind + "  ")
            if st[3] is not None:
                L.append(f"{ind}else")
                L += r_src(st[3], ind + "  ")
        elif k == "match":
            L.append(f"{ind}match {st[1]}")
            L.append(f"{ind}  {st[2]} then")
            L += r_src(st[3], ind + "    ")
            L.append(f"{ind}  else")
            L += r_src(st[4], ind + "    ")
        elif k == "for":
            L.append(f"{ind}for {st[1]} in 1..={st[2]}")
            L += r_src(st[3], ind + "  ")
        elif k == "fn":
            _, w, init, op, n, res = st
            L += [f"{ind}f = ||", f"{ind}  {w} = {init}", f"{ind}  {w} {op}= {n}", f"{ind}  {w}", f"{ind}{res} = f()"]
    return L


def r_apply(op, a, b):
    return a + b if op == "+" else a - b if op == "-" else a * b if op == "*" else rem(a, b)


def r_eval(e, env, lv):
    if e[0] == "lit":
        return e[1]
    v = lv[e[1]] if e[1] in lv else env[e[1]]
    return v if e[0] == "var" else v + e[2]


def r_run(stmts, env, lv):
    """the reference semantics of the assignment forms: env is the exports map (= the top-level ids)"""
    for st in stmts:
        k = st[0]
        if k == "set":
            env[st[1]] = r_eval(st[2], env, lv)
        elif k == "op":
            env[st[1]] = r_apply(st[2], env[st[1]], r_eval(st[3], env, lv))
        elif k in ("multi", "unpack"):
            vs = [r_eval(e, env, lv) for e in st[2]]
            env[st[1][0]] = vs[0]
            env[st[1][1]] = vs[1]
        elif k == "if":
            if env[st[1][0]] > st[1][1]:
                r_run(st[2], env, lv)
            elif st[3] is not None:
                r_run(st[3], env, lv)
        elif k == "match":
            r_run(st[3] if env[st[1]] == st[2] else st[4], env, lv)
        elif k == "for":
            for i in range(1, st[2] + 1):
                lv2 = dict(lv)
                lv2[st[1]] = i
                r_run(st[3], env, lv2)
        elif k == "fn":
            _, w, init, op, n, res = st
            env["f"] = "?"
            env[res] = r_apply(op, init, n)       # w stays inside the function


REPL_FORM_SETS = [["set", "op"], ["set", "op", "multi", "unpack"], ["set", "op", "if", "match"], ["set", "op", "for"],
                  ["set", "op", "fn"], ["set", "op", "multi", "unpack", "if", "match", "for", "fn"]]


def repl_case(chunks, origin):
    """chunks: list of statement lists -> a case whose host steps are the chunks (export_top_level_ids) followed
    by a probe chunk that reads every defined id the way the next REPL entry would"""
    env = {}
    steps, expect = [], []
    for ch in chunks:
        r_run(ch, env, {})
        steps.append(("run", True, (), [("raw", "\n".join(r_src(ch)) + "\n", {})]))
        expect.append({"exports": dict(env), "out": None})
    ids = [x for x in RTOP if x in env]
    if ids:
        steps.append(("run", True, (), [("raw", "\n".join(f"show {x}" for x in ids) + "\n", {})]))
        expect.append({"exports": dict(env), "out": [f"v:i{env[x]}" for x in ids]})
    return (origin, [], [(True, steps)], {"clean": False, "raw": True, "repl": expect})


def repl_cases(rng, n_random):
    S = lambda x, n: ("set", x, ("lit", n))
    fixed = [
        [[S("xa", 1), ("op", "xa", "+", ("lit", 1))]],                                     # same chunk, compound
        [[S("xa", 1)], [("op", "xa", "+", ("lit", 1))]],                                   # later chunk, compound
        [[S("xa", 0), ("for", "i", 4, [("op", "xa", "+", ("var", "i"))])]],                # accumulator in a loop
        [[S("xa", 10), ("op", "xa", "-", ("lit", 3)), ("op", "xa", "*", ("lit", 2)), ("op", "xa", "%", ("lit", 5))]],
        [[("for", "i", 3, [S("xb", 0), ("op", "xb", "+", ("add", "i", 10))])]],            # first assigned inside the loop
        [[S("xa", 5), ("if", ("xa", 3), [("op", "xa", "*", ("lit", 2))], [("op", "xa", "-", ("lit", 1))])]],
        [[S("xa", 5), ("match", "xa", 5, [("op", "xa", "+", ("lit", 1))], [S("xb", 2)])]],
        [[("multi", ["xa", "xb"], [("lit", 1), ("lit", 2)]), ("multi", ["xa", "xb"], [("var", "xb"), ("var", "xa")]),
          ("op", "xb", "+", ("var", "xa"))]],
        [[("unpack", ["xc", "xd"], [("lit", 5), ("lit", 6)]), ("op", "xd", "*", ("lit", 3))], [("op", "xc", "-", ("var", "xd"))]],
        [[("fn", "wa", 5, "+", 1, "xa"), ("op", "xa", "+", ("lit", 1))], [S("xb", 1)]],
        [[S("xa", 1), S("xa", 2)], [S("xb", 7), ("set", "xa", ("add", "xb", 1))], [("op", "xa", "*", ("lit", 3))]],
    ]
    cases = [repl_case(ch, "repl-chunks/fixed") for ch in fixed]
    for _ in range(n_random):
        forms = rng.choice(REPL_FORM_SETS)
        chunks = []
        prior = set()
        for _ in range(1 + rng.below(3)):
            b, sure, _ = r_block(rng, prior, set(), set(), 0, [], 1 + rng.below(4), forms)
            prior |= sure
            chunks.append(b)
        cases.append(repl_case(chunks, "repl-chunks/random"))
    return cases


def random_items(rng, names, n_items, allow_defs, idx):
    items = []
    for _ in range(n_items):
        r = rng.below(100)
        if r < 30:
            m = rng.choice(names)
            form = rng.below(10)
            if form < 4:
                items.append(("imp", m, None))
            elif form < 5:
                items.append(("imp", m, rng.choice([a for a in KEYS + names if a != m])))
            elif form < 7:
                its = [(rng.choice(KEYS), rng.choice([None, None] + KEYS)) for _ in range(1 + rng.below(2))]
                items.append(("from", m, its))
            elif form < 8:
                items.append(("all", m))
            else:
                items.append(("try", m, rng.choice([None, None] + KEYS), 400 + idx))
        elif r < 50:
            e = ("lit", rng.below(9)) if rng.chance(2, 3) else ("var", rng.choice(KEYS + names))
            items.append(("export", rng.choice(KEYS), e))
        elif r < 65:
            e = ("lit", rng.below(9)) if rng.chance(2, 3) else ("var", rng.choice(KEYS + names))
            items.append(("assign", rng.choice(KEYS + ([rng.choice(names)] if rng.chance(1, 4) else [])), e))
        elif r < 70:
            items.append(("aop", rng.choice(KEYS + ([rng.choice(names)] if rng.chance(1, 6) else [])), ("lit", 1 + rng.below(5))))
        elif r < 80:
            items.append(("show", ("var", rng.choice(KEYS + names))))
        elif r < 85:
            items.append(("fail",))
        elif r < 93 and allow_defs:
            items.append(("test", rng.choice(TESTS), 300 + 10 * idx + rng.below(2), rng.chance(1, 4)))
        elif allow_defs:
            items.append(("main", 350 + idx, rng.chance(1, 4)) if rng.chance(5, 6) else ("main_nc",))
    return items


def random_case(rng):
    nmods = 2 + rng.below(5)
    pool = MODS[:nmods] + ([7] if rng.chance(1, 6) else [])
    files = []
    used = set()
    idx = 0
    names_root = []
    for m in pool:
        kind = rng.below(10)
        paths = []
        if kind < 6:
            paths = [((), m)]
        elif kind < 8:
            paths = [((m,), MAIN)]
        elif kind < 9:
            paths = [((), m), ((m,), MAIN)]
        else:
            paths = [((m,), MAIN), ((m,), rng.choice(pool))]
        names_root.append(m)
        for p in paths:
            if p in used:
                continue
            used.add(p)
            names = pool + ([MAIN] if p[0] else [])
            body = random_items(rng, names, rng.below(6), True, idx)
            if rng.chance(1, 15):
                body.insert(rng.below(len(body) + 1), ("syntax",))
            files.append((p, wrap(idx, body)))
            idx += 1
    runs = []
    nruns = 3
    for _ in range(nruns):
        tests = rng.chance(1, 2)
        steps = []
        for _ in range(2 + rng.below(2 * nmods)):
            force = rng.chance(1, 2)
            r = rng.below(20)
            if r == 0:
                steps.append(("clear",))
            elif r < 13:
                steps.append(host_import(force, rng.choice(names_root)))
            else:
                steps.append(("run", force, (), random_items(rng, names_root, 1 + rng.below(3), rng.chance(1, 10), 90)))
        runs.append((tests, steps))
    return ("random", files, runs, {"clean": False})


def bounded_cases():
    """bounded-exhaustive: every graph on two root modules whose bodies are drawn from a small item
    menu (length <= 2), with the history import a; import b; import a; import b"""
    menu = lambda other, me: [("imp", other, None), ("imp", me, None), ("try", other, None, 399 + me), ("fail",),
                              ("export", 10, ("lit", 1)), ("all", other), ("main", 301, True)]
    bodies = lambda other, me: [[]] + [[a] for a in menu(other, me)] + \
        [[a, b] for a in menu(other, me)[:4] for b in menu(other, me)[:4]]
    cases = []
    for ba in bodies(2, 1):
        for bb in bodies(1, 2):
            files = [(((), 1), wrap(0, ba)), (((), 2), wrap(1, bb))]
            runs = []
            for force in (False, True):
                steps = [host_import(force, 1), host_import(force, 2), host_import(force, 1), host_import(force, 2)]
                runs.append((True, steps))
            cases.append(("exhaustive-2", files, runs, {"clean": True}))
    return cases


def corpus_cases():
    cases = []
    cdir = os.path.join(C.VERIF, "corpus", PID)
    if os.path.isdir(cdir):
        for f in sorted(os.listdir(cdir)):
            for line in open(os.path.join(cdir, f), encoding="utf-8"):
                line = line.strip()
                if line:
                    cases.append(case_from_json(json.loads(line), "corpus"))
    return cases


def tup(x):
    return tuple(tup(y) for y in x) if isinstance(x, list) else x


def case_to_json(case):
    origin, files, runs, meta = case
    return {"files": [[list(p[0]), p[1], b] for p, b in files],
            "runs": [[t, steps] for t, steps in runs], "meta": meta}


def case_from_json(j, origin=None):
    files = [((tuple(d), n), [tup(i) for i in b]) for d, n, b in j["files"]]
    runs = []
    for t, steps in j["runs"]:
        ss = []
        for s in steps:
            if s[0] == "clear":
                ss.append(("clear",))
            else:
                ss.append(("run", s[1], tuple(s[2]), [tup(i) for i in s[3]]))
        runs.append((t, ss))
    return (origin or "replay", files, runs, j.get("meta", {"clean": False}))


def fix_item(it):
    """json round trip turns the (key, alias) pairs of `from` into tuples of tuples: keep lists of pairs"""
    if it[0] == "from":
        return ("from", it[1], [tuple(x) for x in it[2]])
    return it


def normalise(case):
    origin, files, runs, meta = case
    files = [(p, [fix_item(i) for i in b]) for p, b in files]
    runs = [(t, [s if s[0] == "clear" else ("run", s[1], s[2], [fix_item(i) for i in s[3]]) for s in steps])
            for t, steps in runs]
    return (origin, files, runs, meta)


def gen_cases(tier, seed):
    rng = C.Rng(seed)
    cases = corpus_cases()
    cases += structured_cases(rng)
    cases += scripted_cases()
    cases += raw_cases()
    cases += repl_cases(rng, 150 if tier == "quick" else 3000)
    be = bounded_cases()
    if tier == "quick":
        be = [be[i] for i in range(seed % 8, len(be), 8)]
    cases += be
    n_random = 110 if tier == "quick" else 4000
    for _ in range(n_random):
        cases.append(random_case(rng))
    return [normalise(c) for c in cases]


# ---------------------------------------------------------------------------
# running

def harness_case(case):
    origin, files, runs, meta = case
    return {"files": [{"path": path_str(p), "src": body_src(b)} for p, b in files],
            "prelude_names": [nm(n) for n in PRELUDE],
            "runs": [{"tests": t,
                      "steps": [{"clear": True} if s[0] == "clear" else
                                {"src": body_src(s[3]), "force": s[1], "dir": "/".join(nm(x) for x in s[2])}
                                for s in steps]} for t, steps in runs]}


def _run_harness(binp, cases, tag, timeout):
    os.makedirs(os.path.join(C.BUILD, "cases"), exist_ok=True)
    cf = os.path.join(C.BUILD, "cases", f"c18-{tag}-{os.getpid()}.jsonl")
    with open(cf, "w") as f:
        for c in cases:
            f.write(json.dumps(harness_case(c)) + "\n")
    scratch = os.path.join(C.BUILD, "modtmp")
    os.makedirs(scratch, exist_ok=True)
    env = dict(C.ENV)
    env["KH_MOD_SCRATCH"] = scratch
    env["KOTO_REPO"] = os.path.realpath(C.REPO)
    rc, out = C.sh([binp, cf], timeout=timeout, env=env)
    os.remove(cf)
    lines = []
    for l in out.splitlines():
        if l.startswith("{"):
            try:
                lines.append(json.loads(l))
            except ValueError:
                break              # a line cut short by the death of the process
    return lines[:len(cases)], rc, out


def run_impl(binp, cases, tag):
    """runs kh_mod over the cases.  The harness flushes one line per case, so when the process dies
    (abort, stack overflow, signal) or hangs, the first case without a line is the one that did it:
    it is re-run alone to confirm, recorded as {"crash": ...}, and the remaining cases still run."""
    results = [None] * len(cases)
    start = 0
    while start < len(cases):
        lines, rc, out = _run_harness(binp, cases[start:], tag, 3600)
        for j, l in enumerate(lines):
            results[start + j] = l
        k = start + len(lines)
        if k >= len(cases):
            break
        alone, rc2, out2 = _run_harness(binp, [cases[k]], tag + "-alone", 600)
        if alone:
            results[k] = alone[0]
            results[k]["flaky_crash"] = f"the harness died (rc={rc}) on this case in a batch but not alone"
        else:
            results[k] = {"crash": f"rc={rc} in the batch, rc={rc2} alone", "tail": out2[-600:]}
        start = k + 1
    for i, r in enumerate(results):
        if r is None:
            results[i] = {"crash": "no output", "tail": ""}
    return results, ""


def model_terms(cases):
    """one Coq term per (case, run_import_tests setting): the configuration is written once and
    all histories with that setting are mapped over it"""
    terms = []
    index = []   # (case idx, [run idx...])
    for ci, (origin, files, runs, meta) in enumerate(cases):
        if meta.get("raw"):
            continue
        for tests in (True, False):
            ris = [ri for ri, (t, _) in enumerate(runs) if t == tests]
            if not ris:
                continue
            hs = "[" + "; ".join(steps_coq(runs[ri][1]) for ri in ris) + "]"
            terms.append(f"map (run_case {cfg_coq(files, tests)}) {hs}")
            index.append((ci, ris))
    return terms, index


def model_results(index, vals):
    """-> [(case idx, run idx, value)]"""
    out = []
    for (ci, ris), v in zip(index, vals):
        for ri, x in zip(ris, v):
            out.append((ci, ri, x))
    return out


HEADER = "From KV.mod Require Import ModModel ModRun.\nOpen Scope N_scope.\n"


# ---------------------------------------------------------------------------
# D-predicates: clauses of C18 on the implementation's own output (no Coq model involved)

def resolve(files, d, n):
    """the documented rule: <dir>/<name>.koto first, then <dir>/<name>/main.koto"""
    paths = {p for p, _ in files}
    if (tuple(d), n) in paths:
        return (tuple(d), n)
    if (tuple(d) + (n,), MAIN) in paths:
        return (tuple(d) + (n,), MAIN)
    return None


def static_ok(body, tests):
    """once the module's top level has run to its end marker: do its tests and @main succeed?"""
    if body and body[0][0] == "raw":
        return bool(body[0][2].get("ok"))
    tmap = {}
    main = None
    for it in body:
        if it[0] == "test":
            tmap[it[1]] = it[3]
        elif it[0] == "main":
            main = it[2]
        elif it[0] == "main_nc":
            main = True
    if tests and any(tmap.values()):
        return False
    return not main


def d_predicates(case, impl_runs):
    """returns list of failure strings.  Works from the markers every generated module prints first
    (100+i) and last (200+i) and from the marker a module prints when it catches a failed import
    (400+i; other 4xx/5xx markers are printed by host scripts).  The load of a module is taken to
    have succeeded when its end marker appeared and its tests (if enabled) and @main cannot fail."""
    origin, files, runs, meta = case
    clean = meta.get("clean", False)
    fails = []
    tops, ends, catchers = {}, {}, {}
    for i, (p, b) in enumerate(files):
        if b and b[0][0] == "raw":
            tops[f"m:{top_mark(i)}"], ends[f"m:{end_mark(i)}"], catchers[f"m:{400 + i}"] = p, p, p
            continue
        if b and b[0][0] == "mark":
            tops[f"m:{b[0][1]}"] = p
        if b and b[-1][0] == "mark":
            ends[f"m:{b[-1][1]}"] = p
        for it in b:
            if it[0] == "try":
                catchers[f"m:{it[3]}"] = p
    bodies = dict(files)
    imports_main = any(it[0] in ("imp", "from", "all", "try") and it[1] == MAIN for _, b in files for it in b) or \
        any(it[0] in ("imp", "from", "all", "try") and it[1] == MAIN
            for _, steps in runs for st in steps if st[0] == "run" for it in st[3])
    for ri, ((tests, steps), irun) in enumerate(zip(runs, impl_runs)):
        completed = set()       # modules whose load was seen to succeed on this runtime
        pending_rerun = {}      # path -> index of the host step `import p` that failed after entering p
        prev_exports = "M{}"
        for si, (step, ist) in enumerate(zip(steps, irun)):
            if step[0] == "clear":
                completed.clear()      # clear_module_cache: dependencies are recompiled and run again
                continue
            _, force, d, body = step
            if ist.get("guard"):
                fails.append(f"D2 run {ri} step {si}: the top level of one module was executed more than 40 times within "
                             f"one host script (unbounded nested re-execution stopped by the harness guard)")
            rp = meta.get("repl")
            if rp is not None:
                want = rp[si]
                have = dict(kv.split("=", 1) for kv in ist["exports"][2:-1].split(",") if "=" in kv)
                if ist["r"] != 0:
                    fails.append(f"D8 run {ri} chunk {si}: the chunk failed with class {ist['r']}: {ist.get('msg', '')[:120]}")
                for x in RTOP + RFN + ["f"]:
                    w = want["exports"].get(x)
                    w = None if w is None else ("?" if w == "?" else f"i{w}")
                    if have.get(x) != w:
                        fails.append(f"D8 run {ri} chunk {si}: with export_top_level_ids the exports map should hold "
                                     f"{x} = {w} (final value of the top-level id; None = absent) but holds {have.get(x)}")
                if want["out"] is not None and ist["out"] != want["out"]:
                    fails.append(f"D8 run {ri} chunk {si}: the next chunk reads {ist['out']}, expected {want['out']}")
            exp = meta.get("expect")
            if exp is not None and exp[ri][si] is not None and ist["r"] != exp[ri][si]:
                fails.append(f"D2 run {ri} step {si}: expected outcome class {exp[ri][si]} "
                             f"(1 = recursive import error, 0 = ok), the runtime returned {ist['r']}")
            entered_here = []
            open_ = []              # modules entered and not yet seen to end / fail (innermost last)
            for line in ist["out"]:
                if line in tops:
                    p = tops[line]
                    if p in completed:
                        fails.append(f"D1 run {ri} step {si}: module {path_str(p)} ran again after it had loaded successfully")
                    if p in open_:
                        fails.append(f"D2 run {ri} step {si}: module {path_str(p)} entered while its own import was in progress")
                    open_.append(p)
                    entered_here.append(p)
                elif line in ends:
                    p = ends[line]
                    if p in open_:
                        while open_[-1] != p:      # entered after p and never ended: failed, error caught
                            open_.pop()
                        open_.pop()
                        if static_ok(bodies[p], tests):
                            completed.add(p)
                elif line.startswith("m:4") or line.startswith("m:5"):
                    p = catchers.get(line)
                    if p is not None and p in open_:
                        while open_[-1] != p:
                            open_.pop()
                    else:
                        open_ = []
            # host steps that are a single plain import of a module file
            if clean and len(body) == 1 and body[0][0] == "imp" and body[0][2] is None:
                target = resolve(files, d, body[0][1])
                if target is not None:
                    if target in pending_rerun and target not in entered_here and target not in completed:
                        fails.append(f"D3 run {ri} step {si}: import of {path_str(target)} failed in step "
                                     f"{pending_rerun[target]} but importing it again did not run it again")
                    pending_rerun.pop(target, None)
                    if ist["r"] != 0 and target in entered_here:
                        pending_rerun[target] = si
                    if ist["r"] == 0 and target in entered_here and target not in completed:
                        fails.append(f"D1 run {ri} step {si}: import of {path_str(target)} returned Ok but the module did "
                                     f"not complete (end marker / tests / @main)")
                    if ist["r"] == 0 and not force and target not in completed:
                        fails.append(f"D1 run {ri} step {si}: import of {path_str(target)} returned Ok but the module never "
                                     f"loaded successfully on this runtime")
                    if on_plain_cycle(files, target) and ist["r"] == 0:
                        fails.append(f"D2 run {ri} step {si}: {path_str(target)} lies on an import cycle but its import returned Ok")
                    if on_plain_cycle(files, target) and target in completed:
                        fails.append(f"D2 run {ri} step {si}: {path_str(target)} lies on an import cycle but it loaded")
            # D6: a script that exports nothing itself (no export_top_level_ids, no `export`) leaves the host's
            #     exports map as it was -- whether its imports succeeded or failed
            if not force and all(it[0] in ("imp", "from", "all", "try", "show", "mark", "fail", "aop") for it in body):
                if ist["exports"] != prev_exports:
                    fails.append(f"D6 run {ri} step {si}: the script exports nothing, but the host's exports changed from "
                                 f"{prev_exports} to {ist['exports']}")
            prev_exports = ist["exports"]
            # D4: name.koto wins over name/main.koto
            if not imports_main:
                for line in ist["out"]:
                    p = tops.get(line)
                    if p and p[1] == MAIN and p[0] and (p[0][:-1], p[0][-1]) in bodies:
                        fails.append(f"D4 run {ri} step {si}: {path_str(p)} ran although {path_str((p[0][:-1], p[0][-1]))} exists")
            # D5: exports are visible to the host; plain reassignment does not alter them;
            #     with export_top_level_ids every top-level assignment is exported with its final value
            if ist["r"] == 0 and all(it[0] == "mark" or (it[0] in ("export", "assign") and it[2][0] == "lit") for it in body):
                want = {}
                for it in body:
                    if it[0] == "export" or (it[0] == "assign" and force):
                        want[it[1]] = it[2][1]
                have = dict(kv.split("=", 1) for kv in ist["exports"][2:-1].split(",") if "=" in kv and "{" not in kv)
                for k, v in want.items():
                    if have.get(nm(k)) != f"i{v}":
                        fails.append(f"D5 run {ri} step {si}: host exports {ist['exports']} should bind {nm(k)} to {v}")
    return fails


def on_plain_cycle(files, start):
    """start reaches itself through unconditional plain imports placed before any other way out"""
    bodies = dict(files)

    def succ(p):
        out = []
        for it in bodies[p]:
            if it[0] in ("fail", "try", "assign", "export", "all", "from", "raw", "syntax"):
                break              # stay conservative: only leading plain imports count
            if it[0] == "imp" and it[2] is None:
                q = resolve(files, p[0], it[1])
                if q is None:
                    break
                out.append(q)
        return out
    seen = set()
    todo = succ(start)
    while todo:
        q = todo.pop()
        if q == start:
            return True
        if q in seen:
            continue
        seen.add(q)
        todo += succ(q)
    return False


# ---------------------------------------------------------------------------

def nontrivial(case):
    return len(case[1]) >= 2 or bool(case[3].get("repl"))


def known_classes(case):
    """inputs inside the classes excluded from `top_level_export_final` (see C18Props.v)"""
    hits = set()
    for tests, steps in case[2]:
        for s in steps:
            if s[0] == "run" and s[1]:
                for it in s[3]:
                    if it[0] in ("imp", "try") and it[2] is not None and it[2] != it[1]:
                        hits.add("alias")
                    if it[0] == "from" and any(b is not None and b != a for a, b in it[2]):
                        hits.add("alias")
                    if it[0] == "all":
                        hits.add("wildcard")
    return hits


def run(tier, seed):
    chk = C.Check(PID, tier, seed, "proof")
    # tie no. 1: the statements of run_import's placeholder protocol, read from vm.rs
    try:
        info, _ = k2v_mod.gen_pins(os.path.join(C.COQ, UNIT, "GenModPins.v"), os.path.join(C.BUILD, "gen", "mod.json"))
        chk.oblige("gen:run_import protocol (k2v_mod: cycle error, reuse iff loaded_from_cache, placeholder before run, "
                   "run/tests/@main order, cleanup of the error branch, exports restored on both outcomes)", True)
        if info["failure_cleanup"] != "CleanupRemoveOwn":
            chk.log(f"run_import's error branch now does: {info['failure_cleanup']} (the model follows it)")
    except k2v.GenError as e:
        chk.oblige("gen:run_import protocol (k2v_mod)", False, str(e))
        chk.log(f"translator failed: {e}")
    ok, log = C.coq_build(UNIT, ["ModRun.vo"])
    model_ok = ok
    if not ok:
        chk.log("model does not compile:\n" + log[-1500:])
    pr = C.check_props_file(UNIT, "C18Props", PINNED)
    hits = C.forbidden_scan(UNIT)
    if not pr["ok"]:
        chk.log("C18Props does not check:\n" + pr["log"][-2500:])
    for name in PINNED:
        good = pr["ok"] and name not in pr["missing"] and ("Print Assumptions " + name) not in pr["missing"] \
            and not pr["bad_axioms"] and not hits
        chk.oblige("thm:" + name, good)
    if hits:
        chk.log("forbidden constructs: " + "; ".join(hits))
    if pr["bad_axioms"]:
        chk.log("axioms outside the allowlist: " + ", ".join(pr["bad_axioms"]))
    axioms = pr["axioms"]

    binp, blog = C.build_harness("kh_mod")
    if not binp:
        chk.log("harness build failed:\n" + blog[-3000:])
        chk.violation("build", {"kind": "obligation", "correspondence": "kh_mod does not build against the koto checkout",
                                "log": blog[-3000:]}, no_input=True)
        return chk.finish("n/a")
    cases = gen_cases(tier, seed)
    impl, err = run_impl(binp, cases, "run")

    dist = {}
    d_fail = []
    nsteps = 0
    for i, (case, r) in enumerate(zip(cases, impl)):
        dist[case[0]] = dist.get(case[0], 0) + 1
        if "crash" in r:
            d_fail.append((i, [f"the process running this module graph died or hung ({r['crash']}): cycles must be reported "
                               f"as errors and a module's top level runs once -- {r.get('tail', '')[-300:]}"]))
            continue
        if "panic" in r:
            d_fail.append((i, [f"the runtime panicked: {r['panic']} at {r.get('at')}"]))
            continue
        fails = d_predicates(case, r["runs"])
        if fails:
            d_fail.append((i, fails))
        nsteps += sum(len(x) for x in r["runs"])
        chk.count_case(json.dumps(case_to_json(case)), nontrivial(case))

    disagreements = []
    if model_ok:
        terms, index = model_terms(cases)
        try:
            vals = C.coq_eval(UNIT, HEADER, terms, tag="c18", per_shard=(20 if tier == "quick" else 60))
        except RuntimeError as e:
            chk.log(str(e)[-3000:])
            vals = None
        if vals is None:
            chk.oblige("corr:model-evaluates", False)
        else:
            fuel_out = 0
            outside = 0
            for ci, ri, v in model_results(index, vals):
                if "panic" in impl[ci] or "crash" in impl[ci]:
                    continue
                msteps = [decode_step(x) for x in v]
                isteps = impl[ci]["runs"][ri]
                if any(m["r"] == 99 for m in msteps):
                    fuel_out += 1
                for si, (m, im) in enumerate(zip(msteps, isteps)):
                    if m["r"] == 6:
                        outside += 1       # iterating a core library module: outside the model
                        break
                    if (m["r"], m["out"], m["exports"]) != (im["r"], im["out"], im["exports"]):
                        disagreements.append((ci, ri, si, m, im))
                        break
                if len(msteps) != len(isteps) and not any(m["r"] == 6 for m in msteps) and not any(d[0] == ci and d[1] == ri for d in disagreements):
                    disagreements.append((ci, ri, len(msteps), {"r": "missing"}, {"r": "missing"}))
            chk.oblige("corr:model fuel (#files + 2) suffices on every case", fuel_out == 0, f"{fuel_out} runs out of fuel")
            chk.oblige("corr:model-vs-koto per-step error class, stdout lines, Koto::exports()", not disagreements,
                       f"{len(disagreements)} disagreements")
    else:
        chk.oblige("corr:model-vs-koto per-step error class, stdout lines, Koto::exports()", False, "model unavailable")

    # witnesses of the excluded classes (see C18Props.v), replayed on the real code
    R = ()
    probe_files = [((R, 1), [("mark", 100), ("export", 10, ("lit", 2)), ("mark", 200)])]
    probes = [("probe", probe_files, [(True, [("run", True, R, [("imp", 1, 11)])]),
                                      (True, [("run", True, R, [("assign", 10, ("lit", 5)), ("all", 1), ("show", ("var", 10))]),
                                              ("run", True, R, [("show", ("var", 10))])]),
                                      (True, [("run", False, R, [("imp", 1, 1)])])], {"clean": False})]
    pimpl, perr = run_impl(binp, probes, "probe")
    if pimpl and "runs" in pimpl[0]:
        pa, pb, pc = pimpl[0]["runs"]
        if pa[0]["r"] == 0 and "kb=" not in pa[0]["exports"] and "ma=" in pa[0]["exports"]:
            chk.known("C18a with export_top_level_ids, `import m as a` / `from m import k as a` exports the ORIGINAL id "
                      "(m / k) instead of the assigned name a: the top-level name a is missing from the exports map "
                      "(witness: `import ma as kb` leaves exports {ma: ...}, no kb)")
        if pb[0]["out"][-1:] == ["v:i5"] and pb[1]["out"] == ["v:i2"]:
            chk.known("C18b with export_top_level_ids, `from m import *` overwrites the export of an already assigned "
                      "top-level name while the local keeps its value (witness: `ka = 5; from ma import *; ka` is 5, the next "
                      "script sees ka = 2)")
        if pc[0]["r"] == 0 and pc[0]["out"] == []:
            chk.known("C18c `import m as m` in result position (last expression of a script, or assigned) compiles to nothing: "
                      "the module is not imported and the value is null (witness: script `import ma as ma` prints no marker)")
    kc = set()
    for c in cases:
        kc |= known_classes(c)

    def size(i):
        c = cases[i]
        return sum(len(b) for _, b in c[1]) * 10 + sum(len(s) for _, s in c[2])

    if d_fail:
        d_fail.sort(key=lambda x: size(x[0]))
        i, fails = d_fail[0]
        chk.violation("input", {"kind": "input", "case": case_to_json(cases[i]),
                                "files_src": {path_str(p): body_src(b) for p, b in cases[i][1]},
                                "impl_says": impl[i], "predicate_failed": fails[:10], "others": len(d_fail) - 1,
                                "how_to_rerun": "./check C18 --replay <this file>"})
        chk.log(f"{len(d_fail)} cases violate C18 on the implementation; smallest: {fails[:2]}")
    broken = [o for o in chk.obligations if not o[1]]
    if broken and not d_fail:
        payload = {"kind": "obligation", "broken": [o[0] + (": " + o[2] if o[2] else "") for o in broken]}
        if disagreements:
            disagreements.sort(key=lambda x: size(x[0]))
            ci, ri, si, m, im = disagreements[0]
            c = cases[ci]
            one = (c[0], c[1], [c[2][ri]], c[3])
            payload.update({"smallest_disagreement": {
                "case": case_to_json(one), "files_src": {path_str(p): body_src(b) for p, b in c[1]},
                "steps_src": ["<clear_module_cache>" if s[0] == "clear" else body_src(s[3]) for s in c[2][ri][1]],
                "step": si, "model_says": m, "impl_says": im},
                "note": "the implementation's output satisfies the clauses of C18 checked directly, but it no longer "
                        "matches the model the theorems are about"})
            chk.log(f"{len(disagreements)} model/impl disagreements; smallest: case {ci} run {ri} step {si}: "
                    f"model {m} impl {im}")
        chk.violation("obligation", payload, no_input=True)

    tb = ["Coq 8.16.1 kernel (coqc); vm_compute used for evaluating the model",
          "axioms reported by Print Assumptions: " + (", ".join(axioms) if axioms else "none (closed under the global context)"),
          "the real file system is outside the model (canonicalize, symlinks, with_extension on dotted names, read errors); "
          "every module file compiles; files do not change while a runtime lives",
          "kh_mod (Rust harness: scratch directory under build/modtmp, Koto::compile_and_run with CompileArgs::script_path, "
          "captured stdout, error class from the first line of the message) and checks/c18.py (generators, comparison, D-predicates)"]
    return chk.finish(
        rule="module graphs (<= 8 files) x histories of host scripts on one runtime: committed corpus + structured families "
             "(chain, diamond, cycles 1-3, file/dir modules, failing before/after nested import, failing test/@main, caught "
             "failures, caught failure inside a still-loading module followed by a cycle back to it x failure kinds "
             "runtime/test/@main/missing/compile error x catch at top level / one level down, compile errors, "
             "shadowing, wildcard order) under every (sampled) import order x run_import_tests x "
             "export_top_level_ids + bounded-exhaustive two-module graphs over a 7-item menu + raw-source families (catch inside a function / @main / @test called during the "
             "import; D-predicates only) + repl-mode chunks (1-3 chunks compiled with "
             "export_top_level_ids on one runtime from plain / compound / multi / unpack assignments, assignments inside "
             "top-level if / match / for, function-local assignments; exports compared with a reference interpreter after "
             "every chunk and read back by a following chunk) + seeded random graphs/histories; a harness process that dies or hangs is attributed "
             "to its case and reported as an input violation; non-trivial = at least two module files",
        explanation="theorems over the run_import model for all graphs and histories; exact model-vs-implementation equality of "
                    "per-step error class / stdout / exports; C18's clauses evaluated directly on the implementation's output",
        trusted_base=tb,
        extra={"distribution": dist, "host_steps": nsteps, "exhaustive": False,
               "model_impl_disagreements": len(disagreements)})


def replay(path, args):
    data = json.load(open(path))
    cj = data.get("case") or data.get("smallest_disagreement", {}).get("case")
    if cj is None:
        print("replay file names an obligation, not an input:", json.dumps(data.get("broken")))
        return run("quick", data.get("seed", 1))
    case = normalise(case_from_json(cj))
    binp, blog = C.build_harness("kh_mod")
    if not binp:
        print(blog[-2000:])
        return 3
    impl, err = run_impl(binp, [case], "replay")
    r = impl[0]
    for p, b in case[1]:
        print(f"--- {path_str(p)}\n{body_src(b)}", end="")
    print(json.dumps(r, indent=1))
    if "panic" in r or "crash" in r:
        print(f"VIOLATION property={PID} replay={path}")
        return 1
    fails = d_predicates(case, r["runs"])
    for f in fails:
        print("  " + f)
    if fails:
        print(f"VIOLATION property={PID} replay={path}")
        return 1
    if data.get("kind") == "obligation" and not case[3].get("raw"):
        ok, _ = C.coq_build(UNIT, ["ModRun.vo"])
        terms, index = model_terms([case])
        vals = C.coq_eval(UNIT, HEADER, terms, tag="c18r")
        bad = False
        for ci, ri, v in model_results(index, vals):
            for si, (x, im) in enumerate(zip(v, r["runs"][ri])):
                m = decode_step(x)
                if (m["r"], m["out"], m["exports"]) != (im["r"], im["out"], im["exports"]):
                    print(f"run {ri} step {si}: model {m}\n              impl  {im}")
                    bad = True
                    break
        if bad:
            print(f"VIOLATION property={PID} replay={path} no-failing-input-found")
            return 1
    print("no clause of C18 fails on this input")
    return 0
