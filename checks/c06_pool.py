"""Boundary-value pool of the C06 sweep.  Every item is produced afresh for every call by running
`src` (a koto script whose last expression is the value) in the worker's VM.

tags: num int float big (|x| >= 2^31 or non-finite: "gigantic allocation" filter) str list tuple map range
      fn iter endless (never finishes when consumed) alias obj
model: how the item is handed to the Coq models (None = outside every model's domain)
"""

I64MAX = 9223372036854775807
I64MIN = -9223372036854775808


def _int_src(z):
    if z == I64MIN:
        return "-9223372036854775807 - 1"
    return str(z)


POOL = []


def add(name, src, tags, model=None):
    POOL.append({"name": name, "src": src, "tags": set(tags.split()), "model": model})


for z in [0, 1, -1, 2, 3, 63, 64, 65, 2147483647, 2147483648, -2147483648, -2147483649, 4294967296,
          I64MAX, I64MAX - 1, I64MIN, I64MIN + 1]:
    add(f"i{z}", _int_src(z), "num int" + (" big" if abs(z) >= 2 ** 20 else ""), ("I", z))

# floats: (source, saturating `as i64` cast, `< 0.0`)
for name, src, cast, neg, big in [
    ("f0.5", "0.5", 0, False, False), ("f-0.5", "-0.5", 0, True, False), ("f2.5", "2.5", 2, False, False),
    ("f-1.0", "-1.0", -1, True, False), ("f64.0", "64.0", 64, False, False),
    ("f1e19", "1.0e19", I64MAX, False, True), ("f-1e19", "-1.0e19", I64MIN, True, True),
    ("fNaN", "number.nan", 0, False, True), ("fInf", "number.infinity", I64MAX, False, True),
    ("f-Inf", "number.negative_infinity", I64MIN, True, True), ("f-0.0", "-0.0", 0, False, False),
]:
    add(name, src, "num float" + (" big" if big else ""), ("F", cast, neg))

add("s_empty", "''", "str")
add("s_a", "'a'", "str")
add("s_e_acute", "'é'", "str")
add("s_4byte", "'😀'", "str")
add("s_combining", "'éx'", "str")
add("s_mixed", "'a,b c\\nd\\r\\né,😀'", "str")
add("s_num", "'-12'", "str")
add("s_code", "'1 + 1'", "str")
add("null", "null", "null")
add("true", "true", "bool")

add("l_empty", "[]", "list", ("L", 0))
add("l_123", "[1, 2, 3]", "list", ("L", 3, [1, 2, 3]))
add("l_nested", "[[1, 2], [3], []]", "list", ("L", 3))
add("l_self", "l = [1]\nl.push l\nl", "list selfref", ("L", 2))
add("l_mixed", "[2, 'a', null, 1.5]", "list", ("L", 4))
add("l_strs", "['b', 'a', 'é']", "list", ("L", 3))
add("t_empty", "()", "tuple", ("T", 0))
add("t_123", "(1, 2, 3)", "tuple", ("T", 3, [1, 2, 3]))
add("t_nested", "((1, 2), (3,), ())", "tuple", ("T", 3))
add("t_pairs", "(('a', 1), ('b', 2))", "tuple", ("T", 2))
add("m_empty", "{}", "map", ("M", 0))
add("m_ab", "{a: 1, b: 2}", "map", ("M", 2))
add("m_numkeys", "m = {}\nm.insert 1, 'x'\nm.insert 0.5, 'y'\nm.insert (1, 2), 'z'\nm", "map", ("M", 3))
add("m_meta", """m =
  @type: 'Foo'
  @display: || 'foo!'
  @size: || 3
  @index: |i| i
  @+: |other| self
  @==: |other| true
  @<: |other| false
  @call: || 42
  @iterator: || (1, 2, 3).iter()
  @negate: || self
  @meta helper: 7
  x: 1
m""", "map meta")
add("m_evil", """m =
  @display: || 42
  @size: || -1
  @index: |i| throw 'no'
  @==: |other| 'yes'
  @<: |other| null
  @call: || throw 'boom'
  @iterator: || 5
  @next: || throw 'next'
  y: 2
m""", "map meta")
add("m_next", """m =
  @next: || 1
  @next_back: || 2
m""", "map meta endless")

MX, MN = "9223372036854775807", "(-9223372036854775807 - 1)"
for name, src, big, rs, re_, incl in [
    ("r_0_3", "0..3", False, 0, 3, False), ("r_0_3i", "0..=3", False, 0, 3, True), ("r_3_0", "3..0", False, 3, 0, False),
    ("r_0_0", "0..0", False, 0, 0, False), ("r_neg", "-3..3", False, -3, 3, False), ("r_full", "..", False, None, None, False),
    ("r_from1", "1..", False, 1, None, False), ("r_to3", "..3", False, None, 3, False), ("r_to3i", "..=3", False, None, 3, True),
    ("r_0_maxi", f"0..={MX}", True, 0, I64MAX, True), ("r_min_max", f"{MN}..{MX}", True, I64MIN, I64MAX, False),
    ("r_max_maxi", f"{MX}..={MX}", True, I64MAX, I64MAX, True), ("r_min_0", f"{MN}..0", True, I64MIN, 0, False),
    ("r_i32", "2147483646..2147483649", False, 2147483646, 2147483649, False),
    ("r_toMaxi", f"..={MX}", True, None, I64MAX, True), ("r_max_1", f"{MX}..1", True, I64MAX, 1, False),
    ("r_min_mini", f"{MN}..={MN}", True, I64MIN, I64MIN, True),
]:
    add(name, src, "range" + (" big endless" if big else ""), ("R", rs, re_, incl))

add("fn_id", "|x| x", "fn")
add("fn_0", "|| 1", "fn")
add("fn_2", "|a, b| a", "fn")
add("fn_throw", "|x| throw 'e'", "fn")
add("fn_true", "|x| true", "fn")
add("fn_var", "|args...| args", "fn")
add("fn_less", "|a, b| a < b", "fn")

ITERS = [
    ("list", [], "[1, 2, 3].iter()"),
    ("tuple", [], "(1, 2, 3).iter()"),
    ("map", [], "{a: 1, b: 2}.iter()"),
    ("keys", [], "{a: 1, b: 2}.keys()"),
    ("range", [], "(0..3).iter()"),
    ("chars", [], "'héy'.chars()"),
    ("bytes", [], "'hé'.bytes()"),
    ("char_indices", [], "'hé😀'.char_indices()"),
    ("lines", [], "'a\\nb\\r\\nc'.lines()"),
    ("split", [], "'a,b,c'.split ','"),
    ("split_fn", [], "'a,b,c'.split |c| c == ','"),
    ("gen", ["f = ||", "  yield 1", "  yield 2"], "f()"),
    ("chain", [], "(1, 2).chain (3, 4)"),
    ("chunks", [], "(1, 2, 3).chunks 2"),
    ("each", [], "(1, 2, 3).each |x| x + 1"),
    ("each_throw", [], "(1, 2).each |x| throw 'e'"),
    ("enumerate", [], "(1, 2).enumerate()"),
    ("flatten", [], "((1, 2), (3,)).flatten()"),
    ("intersperse", [], "(1, 2, 3).intersperse 0"),
    ("keep", [], "(1, 2, 3).keep |x| x > 1"),
    ("peekable", [], "(1, 2, 3).peekable()"),
    ("reversed", [], "(1, 2, 3).reversed()"),
    ("skip", [], "(1, 2, 3).skip 1"),
    ("step", [], "(1, 2, 3).step 2"),
    ("take", [], "(1, 2, 3).take 2"),
    ("windows", [], "(1, 2, 3).windows 2"),
    ("zip", [], "(1, 2).zip (3, 4)"),
    ("once", [], "iterator.once 1"),
    ("repeat_n", [], "iterator.repeat 1, 3"),
    ("generate_n", [], "iterator.generate (|| 1), 3"),
    ("step_to", [], "1.step_to 5"),
    ("step_to_f", [], "1.5.step_to 4, 0.5"),
    ("cycle_take", [], "(1, 2).cycle().take 5"),
    ("pairs", [], "(('a', 1), ('b', 2)).iter()"),
]
for n, pre, fin in ITERS:
    add("it_" + n, "\n".join(pre + [fin]), "iter fresh")
    if n not in ("peekable", "each_throw"):
        add("itx_" + n, "\n".join(pre + ["i = " + fin, "i.consume()", "i"]), "iter exhausted")
add("itx_peekable", "i = (1, 2, 3).peekable()\ni.next()\ni.next()\ni.next()\ni.next()\ni", "iter exhausted")
add("it_list_partial", "i = [1, 2, 3].iter()\ni.next()\ni.next_back()\ni", "iter")

add("inf_repeat", "iterator.repeat 1", "iter endless")
add("inf_cycle", "(1, 2).cycle()", "iter endless")
add("inf_generate", "iterator.generate || 1", "iter endless")
add("inf_step_to", "0.step_to 9223372036854775807", "iter endless")

add("o_stdout", "io.stdout", "obj")
add("o_unimplemented", "koto.unimplemented", "obj")
add("@0", "@0", "alias")

INDEX = {p["name"]: i for i, p in enumerate(POOL)}
