"""C05  Accepted programs compile to well-formed code; limits are reported as errors; compilation
is deterministic.

T  theorems in coq/bc/C05Props.v: the decoder model inverts the encoder for every well-formed
   instruction of every opcode (over the layout table regenerated from instruction_reader.rs), unused
   opcodes decode to Error, and the verifier `wf_chunk` is sound for the abstract VM (no reachable
   state faults).
R  correspondence: the decoder model (vm_compute) against the real InstructionReader on the bytes the
   REAL compiler emitted (instruction by instruction, operands by field name).
D  the property's clauses on the implementation's output: `wf_chunk` (clauses 1-4) and `depths_ok`
   (clause 5), both proved sound, evaluated on every real chunk (depths_ok cross-checked against an
   independent Python dataflow over the real reader's instruction list); no panic / internal fault when
   compiling or running; size limits reported as compile errors exactly at the limit (calibrated
   65530..65540-byte backward and forward offsets, 249..513 locals); byte-identical recompilation of EVERY
   program in one process and across processes.
Open known class: C05d only (C05a/b/c/e are fixed in /repo and suppress nothing).
"""
import json
import os
import re
import sys

from vlib import common as C
from tools import k2v, k2v_bc

PID = "C05"
UNIT = "bc"

PINNED = [
    "encode_decode", "decode_unused_is_error", "decode_total_on_valid_ops", "encode_total", "varint_roundtrip", "varint_first_byte_roundtrip",
    "wf_chunk_sound", "wf_chunk_reach_instruction_start", "depths_ok_sound",
]

HEADER = ("From KV.bc Require Import Instr GenOps Decode AbsVM Wf Wf5 BcRun.\n"
          "From Coq Require Import List NArith. Import ListNotations.\nOpen Scope N_scope.\n")

BIG = 6000          # chunks above this many bytes: verifier + decoder are evaluated in separate shards


def coq_bytes(bs, per=1000):
    if not bs:
        return "(@nil N)"
    parts = ["[" + "; ".join(str(b) for b in bs[i:i + per]) + "]" for i in range(0, len(bs), per)]
    return "(" + " ++ ".join(parts) + ")"


# ---------------------------------------------------------------------------------------------
# model instruction -> the real reader's Instruction (variant, {field: value}), from the generated views


def model_view(info, entry):
    pc, tag = entry[0], entry[1]
    if tag != 0:
        return None
    op, used, args = entry[2], entry[3], entry[4:]
    name = info["ops"][op]
    arm = info["arms"][op]
    if arm is None:
        return None
    if "irregular" in arm:
        if name == "Function":
            f = dict(zip(["register", "arg_count", "optional_arg_count", "capture_count", "flags", "size"], args))
            return [pc, "Function", f, pc + used]
        if name == "StringPush":
            value, flags, extra = args[0], args[1], list(args[2:])
            if flags == 0:
                fo = -1
            else:
                sf = info["sf"]
                mw = extra.pop(0) if flags & sf["MIN_WIDTH"] else -1
                pr = extra.pop(0) if flags & sf["PRECISION"] else -1
                fc = extra.pop(0) if flags & sf["FILL_CHARACTER"] else -1
                rp = extra.pop(0) if flags & sf["REPRESENTATION"] else -1
                fo = [flags & 3, mw, pr, fc, rp]
            return [pc, "StringPush", {"value": value, "format_options": fo}, pc + used]
        return None
    f = {}
    for fname, v in arm["view"]:
        kind = v[0]
        if kind == "const":
            f[fname] = v[1]
        elif kind == "arg":
            f[fname] = args[v[1]]
        elif kind == "neg":
            f[fname] = -args[v[1]]
        elif kind == "i8":
            x = args[v[1]]
            f[fname] = x - 256 if x >= 128 else x
    return [pc, arm["variant"], f, pc + used]


def compare_streams(info, real, model):
    """real: harness output for one chunk; model: decode_all output. returns None or a description"""
    rins = real["instrs"]
    for k, m in enumerate(model):
        if m[1] != 0:
            # model says Error / panic at m[0]
            if real.get("reader_error") and real["reader_error"][0] == m[0] and k == len(rins):
                return None
            if real.get("reader_panic") and m[1] == 2:
                return None
            return f"model: reader error/panic (kind {m[1:]}) at ip {m[0]}; real reader: {rins[k] if k < len(rins) else 'end'}"
        if k >= len(rins):
            return f"model decodes an instruction at ip {m[0]}, the real reader stopped (error: {real.get('reader_error')})"
        mv = model_view(info, m)
        if mv != rins[k]:
            return f"instruction {k}: model {mv}, real reader {rins[k]}"
    if len(model) < len(rins):
        return f"model stops after {len(model)} instructions, real reader has {len(rins)}"
    if real.get("reader_error") or real.get("reader_panic"):
        return f"real reader error {real.get('reader_error') or real.get('reader_panic')}, model decodes to the end"
    return None


CONST_FIELDS = {"LoadFloat": ("constant", "f"), "LoadInt": ("constant", "i"), "LoadString": ("constant", "s"),
                "LoadNonLocal": ("constant", "s"), "Access": ("key", "s"), "TryAccess": ("key", "s"), "Debug": ("constant", "s"),
                "AssertType": ("type_string", "s"), "CheckType": ("type_string", "s")}


def constant_kinds(r):
    """C05 'every constant reference is in range and of the right kind', on the REAL reader's instructions and the
    real constant pool (kinds: f/i/s per constant)"""
    kinds = r.get("kinds", "")
    bad = []
    for ins in r.get("instrs", []):
        refs = []
        if ins[1] in CONST_FIELDS:
            fld, k = CONST_FIELDS[ins[1]]
            refs.append((ins[2][fld], k))
        elif ins[1] == "StringPush" and ins[2]["format_options"] != -1 and ins[2]["format_options"][3] != -1:
            refs.append((ins[2]["format_options"][3], "s"))
        for idx, k in refs:
            if idx >= len(kinds):
                bad.append(f"ip {ins[0]} {ins[1]}: constant {idx} out of range (pool has {len(kinds)})")
            elif kinds[idx] != k:
                bad.append(f"ip {ins[0]} {ins[1]}: constant {idx} is of kind '{kinds[idx]}', expected '{k}'")
            if len(bad) >= 5:
                return bad
    return bad


M61 = 2305843009213693951


def mix(h, x):
    return (h * 1000003 + x + 1) & M61


def expected_entry(info, code, ins):
    """the model's entry [pc, 0, op, used, args..] that corresponds to an instruction of the real reader
    (inverse of model_view; the opcode is the chunk's own byte at pc); None when they cannot correspond"""
    pc, variant, f, nxt = ins
    op = code[pc]
    arm = info["arms"][op]
    if arm is None:
        return None
    name = info["ops"][op]
    if "irregular" in arm:
        if name == "Function" and variant == "Function":
            args = [f[k] for k in ["register", "arg_count", "optional_arg_count", "capture_count", "flags", "size"]]
        elif name == "StringPush" and variant == "StringPush":
            fo = f["format_options"]
            if fo == -1:
                args = [f["value"], 0]
            else:
                sf = info["sf"]
                flags = fo[0] | (sf["MIN_WIDTH"] if fo[1] != -1 else 0) | (sf["PRECISION"] if fo[2] != -1 else 0) \
                    | (sf["FILL_CHARACTER"] if fo[3] != -1 else 0) | (sf["REPRESENTATION"] if fo[4] != -1 else 0)
                args = [f["value"], flags] + [x for x in fo[1:] if x != -1]
        else:
            return None
        return [pc, 0, op, nxt - pc] + args
    if arm["variant"] != variant:
        return None
    n = 1 + max([v[1] for _, v in arm["view"] if v[0] != "const"], default=-1)
    args = [None] * n
    for fname, v in arm["view"]:
        x = f.get(fname)
        if v[0] == "const":
            if x != v[1]:
                return None
        elif v[0] == "arg":
            args[v[1]] = x
        elif v[0] == "neg":
            args[v[1]] = -x
        elif v[0] == "i8":
            args[v[1]] = x % 256
    if any(a is None or a < 0 for a in args):
        return None
    return [pc, 0, op, nxt - pc] + args


def expected_digest(info, real):
    h = 7
    for ins in real["instrs"]:
        e = expected_entry(info, real["bytes"], ins)
        if e is None:
            return None
        for x in e:
            h = mix(h, x)
        h = mix(h, 4294967295)
    return h


# ---------------------------------------------------------------------------------------------
# clause 5 on the real reader's instruction list: builder / try depth dataflow

FALL_NO = {"Jump", "JumpBack", "Return", "Throw"}


def clause5(instrs):
    """forward dataflow over (sequence builders, string builders, try depth) per function body.
    returns list of problems (strings)"""
    at = {i[0]: k for k, i in enumerate(instrs)}
    problems = []
    # function body extents
    # function bodies are entered only from Function instructions that are themselves reachable
    entries = [0]
    skip_to = {i[0]: i[3] + i[2]["size"] for i in instrs if i[1] == "Function"}
    for entry in entries:       # grows while iterating
        state = {entry: (0, 0, 0)}
        work = [entry]
        while work:
            pc = work.pop()
            if pc not in at:
                continue
            ins = instrs[at[pc]]
            name, f, nxt = ins[1], ins[2], ins[3]
            sq, st, tr = state[pc]
            succ = []
            if name == "Function" and nxt not in entries:
                entries.append(nxt)
            if name == "SequenceStart":
                sq += 1
            elif name in ("SequencePush", "SequencePushN"):
                if sq < 1:
                    problems.append(f"ip {pc}: {name} with no sequence builder on this path")
            elif name in ("SequenceToList", "SequenceToTuple"):
                if sq < 1:
                    problems.append(f"ip {pc}: {name} with no sequence builder on this path")
                sq = max(0, sq - 1)
            elif name == "StringStart":
                st += 1
            elif name == "StringPush":
                if st < 1:
                    problems.append(f"ip {pc}: StringPush with no string builder on this path")
            elif name == "StringFinish":
                if st < 1:
                    problems.append(f"ip {pc}: StringFinish with no string builder on this path")
                st = max(0, st - 1)
            elif name == "TryStart":
                tr += 1
                succ.append(nxt + f["catch_offset"])
            elif name == "TryEnd":
                if tr < 1:
                    problems.append(f"ip {pc}: TryEnd with no catch handler on this path")
                tr = max(0, tr - 1)
            elif name == "Return":
                if (sq, st) != (0, 0):        # the catch stack belongs to the frame and goes with it
                    problems.append(f"ip {pc}: Return with (sequence, string, try) depth {(sq, st, tr)}")
            if name == "Jump":
                succ.append(nxt + f["offset"])
            elif name == "JumpBack":
                succ.append(nxt - f["offset"])
            elif name in ("JumpIfTrue", "JumpIfFalse", "JumpIfNull"):
                succ.append(nxt + f["offset"])
            elif name in ("IterNext", "CheckType", "TryAccess", "TryAccessString"):
                succ.append(nxt + f["jump_offset"])
            if name not in FALL_NO:
                succ.append(skip_to.get(pc, nxt))
            for s in succ:
                new = (sq, st, tr)
                if s in state:
                    if state[s] != new:
                        problems.append(f"ip {s}: joined with depths {state[s]} and {new} (from ip {pc})")
                else:
                    state[s] = new
                    work.append(s)
    return problems


# ---------------------------------------------------------------------------------------------
# case generators

TOKEN_RE = re.compile(r"""\s+|\#[^\n]*|'(?:[^'\\\n]|\\.)*'|"(?:[^"\\\n]|\\.)*"|[A-Za-z_][A-Za-z0-9_]*|\d+(?:\.\d+)?|\.\.=|\.\.|[-+*/%^<>=!]=|->|[^\s]""")


def repo_programs():
    progs = []     # (origin, src)
    files = []
    for root, dirs, fs in os.walk(C.REPO):
        dirs[:] = sorted(d for d in dirs if d not in ("target", ".git"))
        for f in sorted(fs):
            files.append(os.path.join(root, f))
    for p in files:
        rel = os.path.relpath(p, C.REPO)
        try:
            text = open(p, encoding="utf-8").read()
        except Exception:
            continue
        if p.endswith(".koto"):
            progs.append(("repo-koto", text))
        elif p.endswith(".md"):
            for m in re.finditer(r"```koto[^\n]*\n(.*?)```", text, re.S):
                lines = []
                for line in m.group(1).split("\n"):
                    if line.startswith("check!"):
                        continue
                    if line.startswith("print! "):
                        line = "print " + line[len("print! "):]
                    lines.append(line)
                progs.append(("repo-doc", "\n".join(lines)))
        elif p.endswith(".rs") and ("/tests/" in rel or rel.endswith("tests.rs")):
            for m in re.finditer(r'r#"(.*?)"#', text, re.S):
                if "\n" in m.group(1):
                    progs.append(("repo-rust-test", m.group(1)))
            for m in re.finditer(r'"((?:[^"\\]|\\.)*)"', text, re.S):
                s = m.group(1)
                if "\n" in s and len(s) < 4000:
                    s = s.replace("\\n", "\n").replace('\\"', '"').replace("\\\\", "\\")
                    s = re.sub(r"\\\n\s*", "", s)
                    progs.append(("repo-rust-test", s))
    seen = set()
    out = []
    for o, s in progs:
        if s not in seen and s.strip():
            seen.add(s)
            out.append((o, s))
    return out


def mutants(rng, src, count):
    toks = [m.group(0) for m in TOKEN_RE.finditer(src)]
    idx = [i for i, t in enumerate(toks) if not t.isspace() and not t.startswith("#")]
    out = []
    if len(idx) < 2:
        return out
    for _ in range(count):
        kind = rng.below(3)
        t = list(toks)
        i = rng.choice(idx)
        if kind == 0:
            t[i] = ""
        elif kind == 1:
            t[i] = t[i] + " " + t[i]
        else:
            j = idx[(idx.index(i) + 1) % len(idx)]
            t[i], t[j] = t[j], t[i]
        out.append("".join(t))
    return out


class Gen:
    """seeded generator of small programs covering every statement kind"""

    def __init__(self, rng):
        self.r = rng
        self.vars = ["a", "b", "c", "d", "e"]
        self.in_loop = False

    def atom(self):
        r = self.r
        k = r.below(14)
        if k < 3:
            return r.choice(self.vars)
        if k < 5:
            return str(r.below(300))
        if k == 5:
            return str(r.below(1000)) + "." + str(r.below(100))
        if k == 6:
            return r.choice(["true", "false", "null"])
        if k == 7:
            return "'" + r.choice(["x", "hello", "", "{%s}" % r.choice(self.vars), "{%s:>8.3}" % r.choice(self.vars),
                                   "{%s:_^10}" % r.choice(self.vars), "{%s:?}" % r.choice(self.vars),
                                   "{%s:x}" % r.choice(self.vars), "{%s + 1:e}" % r.choice(self.vars)]) + "'"
        if k == 8:
            return str(-r.below(300))
        if k == 9:
            return str(100000 + r.below(100000))
        if k == 10:
            return "(%s..%s)" % (r.below(5), 5 + r.below(5))
        if k == 11:
            return "(%s..=%s)" % (r.below(5), 5 + r.below(5))
        return "(%s)" % r.choice(self.vars)

    def expr(self, d=0):
        r = self.r
        if d > 2:
            return self.atom()
        k = r.below(24)
        e = lambda: self.expr(d + 1)
        if k < 5:
            return self.atom()
        if k < 8:
            return "%s %s %s" % (e(), r.choice(["+", "-", "*", "/", "%", "^", "<", "<=", ">", ">=", "==", "!=", "and", "or"]), e())
        if k == 8:
            return "[%s]" % ", ".join(e() for _ in range(r.below(5)))
        if k == 9:
            return "(%s,)" % ", ".join(e() for _ in range(1 + r.below(4)))
        if k == 10:
            return "{%s}" % ", ".join("%s: %s" % (r.choice(["x", "y", "z", "'k w'"]), e()) for _ in range(r.below(4)))
        if k == 11:
            return "f(%s)" % ", ".join(e() for _ in range(r.below(4)))
        if k == 12:
            return "(|x, y = %s| x + y + %s)(%s)" % (self.atom(), r.choice(self.vars), e())
        if k == 13:
            return "not %s" % e()
        if k == 14:
            return "-(%s)" % e()
        if k == 15:
            return "%s[%s]" % (r.choice(self.vars), r.choice(["0", "1..", "..2", "..", "-1", e()]))
        if k == 16:
            return "%s.%s" % (r.choice(self.vars), r.choice(["x", "size()", "first()", "to_list()", "'k w'"]))
        if k == 17:
            return "%s?.%s" % (r.choice(self.vars), r.choice(["x", "y?.z", "size()"]))
        if k == 18:
            return "if %s then %s else %s" % (e(), e(), e())
        if k == 19:
            return "(%s -> f)" % e()
        if k == 20:
            return "%s and %s or %s" % (e(), e(), e())
        if k == 21:
            return "[%s, (%s)]" % (e(), r.choice((["break", "continue", "break 3"] if self.in_loop else []) +
                                                 ["return 1", "throw 'x'", "f 1"]))
        if k == 22:
            return "'{%s}'" % r.choice(["a", "a + b", "f(1)", "[1, 2]"])
        return "(%s, %s)" % (e(), e())

    def block(self, ind, d, n=None, loop=False):
        n = n or 1 + self.r.below(3)
        saved = self.in_loop
        self.in_loop = loop
        out = "".join(self.stmt(ind, d, loop) for _ in range(n))
        self.in_loop = saved
        return out

    def stmt(self, ind, d, loop=False):
        r = self.r
        p = "  " * ind
        k = r.below(30) if d < 3 else r.below(9)
        v = r.choice(self.vars)
        e = self.expr
        if k < 3:
            return f"{p}{v} = {e()}\n"
        if k == 3:
            # expression statement: its value is discarded unless it ends the block
            return f"{p}{r.choice(DISCARD_EXPRS)[1]}\n" if r.chance(1, 2) else f"{p}({e()})\n"
        if k == 4:
            return f"{p}{v} {r.choice(['+=', '-=', '*=', '/=', '%=', '^='])} {e()}\n"
        if k == 5:
            return f"{p}{r.choice(self.vars)}, {r.choice(self.vars)} = {e()}, {e()}\n"
        if k == 6:
            return f"{p}f {e()}, {e()}\n"
        if k == 7:
            return f"{p}print {e()}\n"
        if k == 8:
            if loop:
                return p + r.choice(["break\n", "continue\n", f"break {e()}\n"])
            return f"{p}{v} = {e()}\n"
        if k == 9:
            s = f"{p}if {e()}\n" + self.block(ind + 1, d + 1, loop=loop)
            if r.chance(1, 2):
                s += f"{p}else if {e()}\n" + self.block(ind + 1, d + 1, loop=loop)
            if r.chance(1, 2):
                s += f"{p}else\n" + self.block(ind + 1, d + 1, loop=loop)
            return s
        if k == 10:
            return f"{p}while {e()}\n" + self.block(ind + 1, d + 1, loop=True)
        if k == 11:
            return f"{p}until {e()}\n" + self.block(ind + 1, d + 1, loop=True)
        if k == 12:
            return f"{p}loop\n" + self.block(ind + 1, d + 1, loop=True) + f"{p}  break\n"
        if k == 13:
            tgt = r.choice([v, f"{v}, {r.choice(self.vars)}", f"({v}, _)", "_"])
            return f"{p}for {tgt} in {e()}\n" + self.block(ind + 1, d + 1, loop=True)
        if k == 14:
            arms = ""
            for _ in range(1 + r.below(3)):
                pat = r.choice(["0", "1 or 2", "'x'", "(x, y)", "(x, ...)", "(first, rest...)", "[1, ...]", "null",
                                "z if z > 3", "(1, (y, _))", "n: Number", "s: String"])
                arms += f"{p}  {pat} then\n" + self.block(ind + 2, d + 2, loop=loop)
            arms += f"{p}  else\n" + self.block(ind + 2, d + 2, loop=loop)
            return f"{p}{v} = match {e()}\n" + arms
        if k == 15:
            arms = ""
            for _ in range(1 + r.below(3)):
                arms += f"{p}  {e()} then\n" + self.block(ind + 2, d + 2, loop=loop)
            arms += f"{p}  else\n" + self.block(ind + 2, d + 2, loop=loop)
            return f"{p}switch\n" + arms
        if k == 16:
            args = r.choice(["", "x", "x, y", "x, y = 2", "x, ys...", "(x, y), z", "_, x", "x: Number", "x, (y, (z, ...))"])
            ret = r.choice(["", "", " -> Any"])
            s = f"{p}f = |{args}|{ret}\n" + self.block(ind + 1, d + 1)
            if r.chance(1, 2):
                s += f"{p}  return {e()}\n"
            return s
        if k == 17:
            return f"{p}{v} = |n| {r.choice(self.vars)} + {r.choice(self.vars)} + n\n"
        if k == 18:
            s = f"{p}try\n" + self.block(ind + 1, d + 1, loop=loop)
            if r.chance(1, 3):
                s += f"{p}catch err: String\n" + self.block(ind + 1, d + 1, loop=loop)
            s += f"{p}catch err\n" + self.block(ind + 1, d + 1, loop=loop)
            if r.chance(1, 2):
                s += f"{p}finally\n" + self.block(ind + 1, d + 1, loop=loop)
            return s
        if k == 19:
            return f"{p}throw {e()}\n"
        if k == 20:
            return f"{p}g = ||\n{p}  yield {e()}\n{p}  for i in 0..3\n{p}    yield i\n"
        if k == 21:
            return f"{p}let {v}: {r.choice(['Number', 'String', 'Any', 'List?', 'Iterable', 'Callable'])} = {e()}\n"
        if k == 22:
            return f"{p}export {v} = {e()}\n" if ind == 0 else f"{p}{v} = {e()}\n"
        if k == 23:
            return f"{p}{v} =\n{p}  @+: |other| self\n{p}  @meta name: {e()}\n{p}  @index: |i| i\n{p}  x: {e()}\n"
        if k == 24:
            return f"{p}{v}.x = {e()}\n{p}{v}[0] = {e()}\n"
        if k == 25:
            return f"{p}debug {e()}\n"
        if k == 26:
            return f"{p}{r.choice(['from list import first, last', 'import string', 'from number import pi as p'])}\n" \
                if ind == 0 else f"{p}assert {e()}\n"
        if k == 27:
            return f"{p}{v} = {e()}\n{p}  .to_tuple()\n"
        if k == 28:
            return f"{p}{v} = (1, 2, 3)\n{p}x, y, z = {v}\n" if r.chance(1, 2) else f"{p}x, y = f()\n"
        return f"{p}@main = ||\n{p}  {e()}\n" if ind == 0 else f"{p}return {e()}\n" if False else f"{p}{v} = {e()}\n"

    def program(self):
        pre = "a = 1\nb = [1, 2, 3]\nc = {x: 1, y: {z: 2}}\nd = 'text'\ne = (1, 2)\nf = |xs...| xs\n"
        return pre + self.block(0, 0, n=2 + self.r.below(6))


# every expression kind, to be placed where its value is DISCARDED (compiled with no result register)
# and where it is used.  Free names: a (number), b (list), c (map), d (string), f (variadic function).
DISCARD_EXPRS = [
    ("interp-expr", "'{a}'"), ("interp-lit-expr", "'v: {a}'"), ("interp-expr-lit", "'{a} b'"),
    ("interp-3", "'x{a}y{d}z'"), ("interp-5", "'{a}-{b}-{c}-{d}-{a}'"), ("interp-fmt", "'{a:>8.3} w'"),
    ("interp-fill", "'p {a:_^10} q'"), ("interp-debug", "'{b:?} !'"), ("interp-hex", "'n={a:x}'"),
    ("interp-exp", "'{a:e}|{a:<6}|'"), ("interp-call", "'a{f(1)}b'"), ("interp-nested", "'a{'i{a}j'}b'"),
    ("interp-expr-op", "'s{a + 1}t{b.size()}'"), ("interp-dq", '"q{a}r"'), ("plain-string", "'abc'"), ("raw-string", "r'a{b}'"),
    ("string-index", "'{a}z'[0]"), ("string-chain", "'w{a}'.size()"), ("string-plus", "'l{a}' + 'r{d}'"),
    ("list", "[a, f(1), 3]"), ("list-1", "[a]"), ("list-empty", "[]"), ("list-nested", "[[a, b], [f(a)], 'e{a}']"),
    ("tuple", "(a, f(2))"), ("tuple-1", "(a,)"), ("tuple-nested", "((a, 1), (f(d), '{a}!'))"),
    ("map", "{x: a, y: f(1)}"), ("map-empty", "{}"), ("map-nested", "{k: {m: [a, 'v{a}']}, 'q r': (1, 2)}"),
    ("range", "a..10"), ("range-incl", "0..=a"), ("range-from", "a.."), ("range-to", "..a"), ("range-full", ".."),
    ("call", "f(a, 2)"), ("call-nested", "f(f(a), [f(1)], 'c{a}')"), ("call-bare", "f a, 2"), ("call-instance", "b.size()"),
    ("chain", "c.y.z"), ("chain-opt", "c?.y?.z"), ("chain-call", "c.y.keys().to_list()"), ("index", "b[0]"), ("slice", "b[1..]"),
    ("pipe", "a -> f"), ("arith", "a + 1 * 2"), ("neg", "-a"), ("not", "not a"), ("compare", "a < 2"),
    ("compare-chain", "0 < a < 5"), ("compare-chain-3", "0 <= a < 5 <= 9"), ("equal", "a == 1"), ("and", "a and b"), ("or", "a or b"),
    ("and-or", "a and b or d"), ("and-strings", "'x{a}' and 'y{a}'"), ("if-inline", "if a then 'y{a}' else 'n'"),
    ("function", "|x| x + a"), ("function-string", "|| 'in{a}'"), ("number", "42"), ("float", "1.5"), ("id", "a"),
    ("null", "null"), ("bool", "true"), ("self-access", "c.x"), ("number-const", "100000"),
]

# statement forms around an expression E (the forms themselves are used as discarded statements)
DISCARD_BLOCKS = [
    ("if-stmt", "{p}if a\n{p}  {E}\n{p}  {E}\n{p}else\n{p}  {E}\n"),
    ("match-stmt", "{p}match a\n{p}  1 then\n{p}    {E}\n{p}    {E}\n{p}  2 or 3 then {E}\n{p}  else\n{p}    {E}\n"),
    ("switch-stmt", "{p}switch\n{p}  a == 1 then\n{p}    {E}\n{p}    {E}\n{p}  else {E}\n"),
    ("try-stmt", "{p}try\n{p}  {E}\n{p}  {E}\n{p}catch err\n{p}  {E}\n{p}  err\n{p}finally\n{p}  {E}\n{p}  {E}\n"),
    ("for-stmt", "{p}for i in 0..2\n{p}  {E}\n{p}  {E}\n"),
    ("while-stmt", "{p}n = 0\n{p}while n < 2\n{p}  {E}\n{p}  n += 1\n"),
    ("until-stmt", "{p}n = 0\n{p}until n > 1\n{p}  n += 1\n{p}  {E}\n"),
    ("for-unpack-stmt", "{p}for k, v in c\n{p}  {E}\n{p}  v\n"),
]

DISCARD_PRE = "a = 1\nb = [1, 2, 3]\nc = {x: 1, y: {z: 2}}\nd = 'text'\nf = |xs...| xs\n"

# positions: S is one or more complete statements (already indented with {p})
DISCARD_POSITIONS = [
    ("main-nonlast", "", "{S}a\n"),
    ("main-twice", "", "{S}{S}a\n"),
    ("main-last", "", "{S}"),
    ("fn-nonlast", "  ", "g = |a|\n{S}  a\nprint g 3\n"),
    ("fn-last", "  ", "g = |a|\n  a\n{S}print g 3\n"),
    ("fn-in-string", "  ", "g = ||\n{S}  2\nprint 'a{g()}b'\n"),
    ("fn-in-list", "  ", "g = ||\n{S}  2\nprint [1, g(), (g(), 'k{g()}')]\n"),
    ("generator", "  ", "g = ||\n{S}  yield 1\n{S}  yield 2\nprint g().to_list()\n"),
    ("nested-fn", "    ", "g = ||\n  h = ||\n{S}    3\n  h()\nprint g()\n"),
    ("for-body", "  ", "for i in 0..2\n{S}  i\n"),
    ("while-body", "  ", "n = 0\nwhile n < 2\n{S}  n += 1\n"),
    ("if-branch", "  ", "if a == 1\n{S}  a\nelse\n{S}  2\n"),
    ("match-arm", "    ", "z = match a\n  1 then\n{S}    2\n  else\n{S}    3\nz\n"),
    ("try-body", "  ", "try\n{S}  throw 'x'\ncatch err\n{S}  err\nfinally\n{S}  0\n"),
    ("map-block-fn", "    ", "m =\n  get: ||\n{S}    1\nprint m.get()\n"),
    ("export-main", "", "{S}export q = 1\n"),
]

DISCARD_VALUE_POSITIONS = [
    ("assign", "z = {E}\nz\n"), ("call-arg", "print f({E}, 1)\n"), ("fn-result", "g = || {E}\nprint g()\n"),
    ("list-element", "z = [1, {E}]\n"), ("interpolated", "z = 'v{{{E}}}w'\n"), ("condition", "if {E}\n  1\n"),
    ("throw", "try\n  throw {E}\ncatch err\n  err\n"), ("map-value", "z = {{k: {E}}}\n"), ("last", "{E}\n"),
]


def discard_cases(tier, rng):
    """(tag, src): each expression kind as a discarded statement in every kind of position (and in value
    position); quick tier: every string kind everywhere, the other kinds at four seeded positions each"""
    out = []
    stmts = [(n, "{p}" + e + "\n") for n, e in DISCARD_EXPRS]
    for bn, bt in DISCARD_BLOCKS:
        inner = ["'s{a}t'", "[a, 'u{a}']", "f('w{a}', a)", "a < 2"] if tier != "quick" else ["f('s{a}t', [a])"]
        for k, e in enumerate(inner):
            stmts.append((f"{bn}-{k}", bt.replace("{E}", e)))
    for name, st in stmts:
        is_string = "'" in st or '"' in st
        poss = DISCARD_POSITIONS if (tier != "quick" or is_string) else \
            [DISCARD_POSITIONS[rng.below(len(DISCARD_POSITIONS))] for _ in range(4)]
        for pn, ind, tmpl in poss:
            body = st.replace("{p}", ind)
            out.append((f"{name}@{pn}", DISCARD_PRE + tmpl.replace("{S}", body)))
    for name, e in DISCARD_EXPRS:
        vps = DISCARD_VALUE_POSITIONS if tier != "quick" else [DISCARD_VALUE_POSITIONS[rng.below(len(DISCARD_VALUE_POSITIONS))]]
        for pn, tmpl in vps:
            if "{" in e and pn == "interpolated" and "'" in e:
                continue        # nested quotes of the same kind
            out.append((f"{name}@value-{pn}", DISCARD_PRE + tmpl.replace("{{", "\x00").replace("}}", "\x01")
                        .replace("{E}", e).replace("\x00", "{").replace("\x01", "}")))
    return out


def size_scaled(tier):
    out = []     # (tag, src)
    for n in list(range(249, 261)) + [300, 510, 511, 512, 513, 767, 65791]:
        out.append((f"locals-{n}", "".join(f"x{i} = {i}\n" for i in range(n)) + "x0\n"))
    for n in [250, 253, 254, 255, 256, 257, 511, 512]:
        out.append((f"fn-locals-{n}", "f = ||\n" + "".join(f"  x{i} = {i}\n" for i in range(n)) + "  x0\nf()\n"))
    for n in [250, 253, 254, 255, 256, 257]:
        out.append((f"call-args-{n}", "f = |xs...| xs\nf " + ", ".join(str(i % 200) for i in range(n)) + "\n"))
        out.append((f"fn-args-{n}", "f = |" + ", ".join(f"a{i}" for i in range(n)) + "| a0\n"))
    for n in [120, 126, 127, 128, 129, 250, 253, 254, 255, 256]:
        out.append((f"nested-calls-{n}", "f = |x| x\n" + "f(" * n + "1" + ")" * n + "\n"))
        out.append((f"nested-arith-{n}", "x = 1\ny = " + "(x + " * n + "1" + ")" * n + "\n"))
        out.append((f"nested-lists-{n}", "y = " + "[1, " * n + "2" + "]" * n + "\n"))
    for n in [250, 255, 256, 257, 300]:
        out.append((f"list-literal-{n}", "y = [" + ", ".join(f"x{i % 3}" for i in range(n)) + "]\n"
                    if False else "a = 1\ny = [" + ", ".join("a" for _ in range(n)) + "]\n"))
        out.append((f"tuple-assign-{n}", ", ".join(f"v{i}" for i in range(n)) + " = " + ", ".join("1" for _ in range(n)) + "\n"))
        out.append((f"captures-{n}", "".join(f"c{i} = {i}\n" for i in range(min(n, 200))) +
                    "f = || " + " + ".join(f"c{i}" for i in range(min(n, 200))) + "\n"))
    return out


FILL = {6: "  x = x + 1\n", 3: "  x = 2\n", 2: "  x = 1\n"}      # compiled sizes, verified by calibration


def filler(total):
    """statements compiling to exactly `total` bytes (total >= 12)"""
    q = total // 6 - 1
    rem = total - 6 * q
    parts = {6: [6], 7: [2, 2, 3], 8: [6, 2], 9: [6, 3], 10: [6, 2, 2], 11: [6, 3, 2]}[rem]
    return FILL[6] * q + "".join(FILL[k] for k in parts)


LOOP_KINDS = {
    "loop": ("x = 0\nloop\n", "  if x > 0\n    break\nx\n"),
    "while": ("x = 0\nwhile x < 1\n", "x\n"),
    "until": ("x = 0\nuntil x > 0\n", "x\n"),
    "for": ("x = 0\nfor i in 0..1\n", "x\n"),
}
FWD_KINDS = {
    "if": ("x = 0\nif x == 0\n", "x\n"),
    "fn": ("f = |x|\n", "  x\nf 0\n"),
}


def calibration_cases():
    out = []
    for kind, (pre, post) in list(LOOP_KINDS.items()) + list(FWD_KINDS.items()):
        out.append({"origin": "calibration", "tag": kind, "src": pre + filler(60) + post, "reps": 1})
        out.append({"origin": "calibration", "tag": kind + "+5", "src": pre + filler(65) + post, "reps": 1})
    return out


def calibrate(results):
    """overhead = (largest backward / forward offset of the kind) - body bytes, from two probes per kind;
    returns {kind: overhead} or raises ValueError when the filler sizes are not what FILL says"""
    ovh = {}
    it = iter(results)
    for kind in list(LOOP_KINDS) + list(FWD_KINDS):
        r60, r65 = next(it), next(it)
        names = ("JumpBack",) if kind in LOOP_KINDS else ("JumpIfFalse", "Function")
        def off(r):
            v = [i[2].get("offset", i[2].get("size")) for i in r.get("instrs", []) if i[1] in names]
            if not v:
                raise ValueError(f"calibration probe for `{kind}` has no {names} instruction")
            return max(v)
        o60, o65 = off(r60), off(r65)
        if o65 - o60 != 5:
            raise ValueError(f"calibration of `{kind}`: 5 more filler bytes changed the offset by {o65 - o60}")
        ovh[kind] = o60 - 60
    return ovh


def jump_scaled(tier, ovh):
    """programs whose backward (loop/while/until/for) and forward (if, function size) u16 offsets are
    exactly 65530..65540 (quick: 65535 and 65536)"""
    out = []
    targets = range(65535, 65537) if tier == "quick" else range(65530, 65541)
    for kind, (pre, post) in LOOP_KINDS.items():
        for t in targets:
            out.append({"tag": f"{kind}-back-{t}", "src": pre + filler(t - ovh[kind]) + post, "intended": t,
                        "kind": "back", "expect": "compiled" if t <= 65535 else "compile-error"})
    for kind, (pre, post) in FWD_KINDS.items():
        for t in (targets if tier != "quick" else (65535, 65536)):
            out.append({"tag": f"{kind}-fwd-{t}", "src": pre + filler(t - ovh[kind]) + post, "intended": t,
                        "kind": "fwd", "expect": "compiled" if t <= 65535 else "compile-error"})
    # the C05a witness: must now be a compile error
    out.append({"tag": "loop-body-14000", "src": "x = 0\nloop\n" + "  x = x + 1\n" * 14000 + "  if x > 20000\n    break\nx\n",
                "expect": "compile-error"})
    for nints in ([118, 16374] if tier == "quick" else [100, 118, 123, 16360, 16374, 16379, 16380, 16381, 16500, 40000]):
        out.append(many_constants(nints))
    return out


def many_constants(nints):
    """a program whose constant pool has `nints` distinct integer constants first, then constants of every kind
    (int, float, string, identifier of a non-local, type-hint string, map key) interned right after them, so that
    for nints near 127 / 16383 the late constant indices straddle a var-u32 byte boundary.  Its value lists what
    every late load produced: it must equal the literals written (expect_result, canonical rendering)."""
    import struct
    base = 1000000
    lines = ["y = ["] + [f"  {base + i}," for i in range(nints)] + ["]"]
    lines += [
        "late_int = 7000001",
        "late_float = 12345.5",
        "late_str = 'zebra_late'",
        "export late_exported = 9000009",
        "f = || late_exported",
        "let typed: Number = 8000008",
        "m = {stripes_late: 4200042}",
        "g = |s: String| s",
        "other = 'quagga_late'",
        f"(y[{nints // 2}], y[0], y[{nints - 1}], late_int, late_float, late_str, f(), typed, m.stripes_late, g(other), 7000001, 'zebra_late')",
    ]
    fl = "d%016x" % struct.unpack("<Q", struct.pack("<d", 12345.5))[0]
    exp = f'T(i{base + nints // 2},i{base},i{base + nints - 1},i7000001,{fl},s"zebra_late",i9000009,i8000008,i4200042,' \
          f's"quagga_late",i7000001,s"zebra_late")'
    return {"tag": f"constants-{nints}", "src": "\n".join(lines) + "\n", "expect": "compiled", "expect_result": exp}


def gen_cases(tier, seed, ovh):
    rng = C.Rng(seed)
    cases = []
    cdir = os.path.join(C.VERIF, "corpus", PID)
    if os.path.isdir(cdir):
        for f in sorted(os.listdir(cdir)):
            for line in open(os.path.join(cdir, f), encoding="utf-8"):
                if line.strip():
                    d = json.loads(line)
                    cases.append({"origin": "corpus", "tag": d.get("tag", ""), "src": d["src"], "run": d.get("run", True),
                                  "reps": d.get("reps", 4), "expect": d.get("expect"), "limit_ms": 4000})
    progs = repo_programs()
    kotos = [p for p in progs if p[0] == "repo-koto"]
    others = [p for p in progs if p[0] != "repo-koto"]
    if tier == "quick":
        pick = kotos + [others[rng.below(len(others))] for _ in range(min(160, len(others)))] if others else kotos
    else:
        pick = progs
    for o, s in pick:
        cases.append({"origin": o, "src": s, "run": False, "reps": 2})
    small = [s for _, s in progs if 20 < len(s) < 1200]
    nmut = 300 if tier == "quick" else 12000
    for _ in range(nmut // 4 if small else 0):
        for m in mutants(rng, small[rng.below(len(small))], 4):
            cases.append({"origin": "mutant", "src": m, "run": False, "reps": 1})
    for tag, src in discard_cases(tier, rng):
        cases.append({"origin": "discard-position", "tag": tag, "src": src, "run": True, "reps": 2, "limit_ms": 500})
    g = Gen(rng)
    for _ in range(300 if tier == "quick" else 8000):
        cases.append({"origin": "generated", "src": g.program(), "run": True, "reps": 2, "limit_ms": 300})
    for tag, s in size_scaled(tier):
        m = re.fullmatch(r"(locals|fn-locals|fn-args|tuple-assign)-(\d+)", tag)
        expect = "compile-error" if m and int(m.group(2)) >= 255 else None
        cases.append({"origin": "size-scaled", "tag": tag, "src": s, "run": True, "reps": 2, "limit_ms": 3000, "expect": expect})
    for d in jump_scaled(tier, ovh):
        cases.append(dict(d, origin="jump-scaled", run=True, reps=1, limit_ms=4000))
    return cases


# ---------------------------------------------------------------------------------------------


def run_harness(binp, cases, tag, extra=None, shards=None):
    """runs kh_bc over the cases in parallel shards; returns list of results (None on failure)"""
    import concurrent.futures
    os.makedirs(os.path.join(C.BUILD, "cases"), exist_ok=True)
    n = shards or C.NPROC
    idx = list(range(len(cases)))
    parts = [idx[i::n] for i in range(n)]
    parts = [p for p in parts if p]
    files = []
    for k, part in enumerate(parts):
        cf = os.path.join(C.BUILD, "cases", f"c05-{tag}-{os.getpid()}-{k}.jsonl")
        with open(cf, "w") as f:
            for i in part:
                d = {"src": cases[i]["src"], "reps": cases[i].get("reps", 1), "run": cases[i].get("run", False),
                     "limit_ms": cases[i].get("limit_ms", 1000)}
                if extra:
                    d.update(extra)
                f.write(json.dumps(d) + "\n")
        files.append(cf)
    results = [None] * len(cases)

    def one(k):
        rc, out = C.sh([binp, files[k]], timeout=3000)
        lines = [l for l in out.splitlines() if l.startswith("{")]
        return k, rc, lines, out

    ok = True
    with concurrent.futures.ThreadPoolExecutor(max_workers=C.NPROC) as ex:
        for k, rc, lines, out in ex.map(one, range(len(parts))):
            if rc != 0 or len(lines) != len(parts[k]):
                ok = False
                continue
            for i, l in zip(parts[k], lines):
                results[i] = json.loads(l)
    for cf in files:
        try:
            os.remove(cf)
        except OSError:
            pass
    return ok, results


def known_class(case, r, what, detail=None):
    """decidable classes of inputs on which koto is known to violate C05 (known_findings.json, status open).
    C05a (unchecked backward jump offset), C05b (capture order), C05c (Frame::new overflow), C05e
    (chunks(0) in compile_make_sequence) and C05f (discarded function literal) are FIXED in /repo: they suppress nothing any more."""
    if what == "clause5":
        if re.search(r"\b(break|continue|return)\b", case["src"]):
            return "C05d"
        return None
    if what == "wf":
        # C05f (a discarded function literal compiled its body inline, without the Function instruction that
        # skips it) is FIXED in /repo (98ac504: the unused body is jumped over): it suppresses nothing any more
        return None
    return None


def missing_builder(info, bad5):
    """depths_ok rejected [ip, op, sequence depth, string depth, try depth] because a builder op runs with no
    builder open on its path (C05d, an early exit LEAVING a builder behind, never looks like this)"""
    if len(bad5) < 5 or bad5[1] >= 256:
        return False
    op = info["ops"][bad5[1]]
    return (op in ("StringPush", "StringFinish") and bad5[3] == 0) or \
        (op in ("SequencePush", "SequencePushN", "SequenceToList", "SequenceToTuple") and bad5[2] == 0)


C05_FAULT_RE = re.compile(r"Out of bounds access|index out of bounds|out of range for slice|Empty call stack|"
                          r"Unexpected opcode|Instruction access out of bounds|attempt to subtract with overflow")

KNOWN_TEXT = {
    "C05d": "C05d break/continue/return out of a try block or a half-built list/tuple/string leaves the try / "
            "builder depth unbalanced (clause 5)",
}


def run(tier, seed):
    chk = C.Check(PID, tier, seed, "proof")
    # ---- gen
    info = None
    try:
        info, _ = k2v_bc.gen_ops(os.path.join(C.COQ, UNIT, "GenOps.v"), os.path.join(C.BUILD, "gen", "bc.json"), strict=False)
        chk.oblige("gen:ops (k2v_bc: Op numbering, one operand layout + view per decoder arm, flag limits)", True)
        # the model of the pinned pieces is kept (so that a concrete disagreement can still be found)
        chk.oblige("gen:pins (source hashes of the hand-modelled Function / StringPush arms, read macros, flag checks)",
                   not info["pin_mismatch"], "; ".join(info["pin_mismatch"]))
        if info["pin_mismatch"]:
            chk.log("pinned source changed: " + "; ".join(info["pin_mismatch"]))
    except k2v.GenError as e:
        chk.oblige("gen:ops", False, str(e))
        chk.log(f"translator failed: {e}")

    # ---- T
    model_ok = False
    axioms = []
    if info:
        ok, log = C.coq_build(UNIT, ["BcRun.vo"])
        model_ok = ok
        if not ok:
            chk.log("model does not compile against the regenerated tables:\n" + log[-2500:])
        pr = C.check_props_file(UNIT, "C05Props", PINNED)
        hits = C.forbidden_scan(UNIT)
        if not pr["ok"]:
            chk.log("C05Props does not check:\n" + pr["log"][-3000:])
        for name in PINNED:
            good = pr["ok"] and name not in pr["missing"] and ("Print Assumptions " + name) not in pr["missing"] \
                and not pr["bad_axioms"] and not hits
            chk.oblige("thm:" + name, good)
        if hits:
            chk.log("forbidden constructs: " + "; ".join(hits))
        if pr["bad_axioms"]:
            chk.log("axioms outside the allowlist: " + ", ".join(pr["bad_axioms"]))
        axioms = pr["axioms"]
    else:
        for name in PINNED:
            chk.oblige("thm:" + name, False, "tables could not be regenerated")

    # ---- R + D
    binp, blog = C.build_harness("kh_bc")
    if not binp:
        chk.log("harness build failed:\n" + blog[-3000:])
        chk.violation("build", {"kind": "obligation", "correspondence": "kh_bc does not build against the koto checkout",
                                "log": blog[-3000:]}, no_input=True)
        return chk.finish("n/a")
    import time
    t0 = time.time()
    chk.log(f"build phase done at {t0 - chk.t0:.0f}s")
    # calibration: bytes of overhead between a loop / branch body and its u16 offset field
    cal = calibration_cases()
    okc, resc = run_harness(binp, cal, "cal", shards=4)
    try:
        if not okc:
            raise ValueError("calibration probes crashed the harness")
        ovh = calibrate(resc)
        chk.oblige("corr:size calibration (filler statements compile to 6/3/2 bytes; offset = body + fixed overhead)", True)
    except ValueError as e:
        chk.oblige("corr:size calibration", False, str(e))
        chk.log(f"calibration failed: {e}")
        ovh = {k: 12 for k in list(LOOP_KINDS) + list(FWD_KINDS)}
    cases = gen_cases(tier, seed, ovh)
    ok, res = run_harness(binp, cases, "a")
    chk.log(f"harness pass 1: {len(cases)} cases, {time.time() - t0:.0f}s")
    if not ok:
        bad = [i for i, r in enumerate(res) if r is None]
        chk.log(f"harness failed on {len(bad)} cases")
        chk.violation("harness", {"kind": "obligation", "correspondence": "kh_bc crashed (not a caught panic)",
                                  "first_case": cases[bad[0]]["src"][:2000] if bad else None}, no_input=True)
        return chk.finish("n/a")
    # second process: determinism across processes (images only)
    compiled = [i for i, r in enumerate(res) if "img" in r]
    ok2, res2 = run_harness(binp, [dict(cases[i], run=False, reps=1) for i in compiled], "b", extra={"no_dump": True},
                            shards=max(1, C.NPROC - 1))
    if not ok2:
        chk.oblige("det:second-process run", False)
    chk.log(f"harness pass 2 done at {time.time() - t0:.0f}s")

    dist = {}
    outcomes = {"parse-rejected": 0, "compile-error": 0, "compiled": 0, "panic": 0}
    failures = []       # (size, case index, what, detail)
    jump_offsets = []
    miscal = []
    py5 = {}             # case index -> problems found by the Python clause-5 dataflow
    other_panics = []
    run_fail = {}        # case index -> internal fault observed when the program was run
    known_wf = set()     # cases whose chunk the verifier rejects and that lie in a known class
    for i, (c, r) in enumerate(zip(cases, res)):
        dist[c["origin"]] = dist.get(c["origin"], 0) + 1
        exp = c.get("expect")
        if exp and not (("compile" in r and exp == "compile-error") or ("img" in r and exp == "compiled")):
            got = "parser rejects it" if "parse" in r else "panic" if "panic" in r else \
                "compile error: " + r.get("msg", "")[:120] if "compile" in r else "compiled silently"
            if "panic" not in r:       # panics are reported below
                failures.append((len(c["src"]), i, "limit-not-reported" if exp == "compile-error" else "unexpected-rejection",
                                 {"expected": exp, "got": got, "intended_offset": c.get("intended")}))
        if "parse" in r:
            outcomes["parse-rejected"] += 1
            continue
        if "panic" in r:
            outcomes["panic"] += 1
            failures.append((len(c["src"]), i, "panic", {"panic": r["panic"], "at": r.get("at"), "stage": r.get("stage")}))
            continue
        if "compile" in r:
            outcomes["compile-error"] += 1
            chk.count_case(c["src"], False)
            continue
        outcomes["compiled"] += 1
        chk.count_case(c["src"], len(r.get("instrs", [])) >= 8)
        if r.get("reader_panic"):
            failures.append((len(c["src"]), i, "reader-panic", {"reader_panic": r["reader_panic"]}))
        # determinism
        imgs = set(r["imgs"])
        j = compiled.index(i) if ok2 else None
        if ok2 and res2[j] and "img" in res2[j]:
            imgs.add(res2[j]["img"])
        elif ok2:
            imgs.add("other-process:" + json.dumps(res2[j])[:80])
        if len(imgs) > 1:
            failures.append((len(c["src"]), i, "nondeterministic", {"images": sorted(imgs)}))
        # running: internal faults
        rr = r.get("run")
        if rr:
            if "panic" in rr:
                # only the internal faults C05 lists; other VM panics belong to other properties' findings
                if C05_FAULT_RE.search(rr["panic"]):
                    run_fail[i] = ("run-panic", rr)
                else:
                    other_panics.append(f"{rr.get('at')}: {rr['panic'][:80]}")
            elif rr.get("result", "").startswith("EInternal"):
                run_fail[i] = ("run-internal-error", rr)
        # clause 5, independent Python dataflow on the real instruction list (cross-check of depths_ok)
        if r.get("instrs") and len(r["instrs"]) < 30000:
            py5[i] = clause5(r["instrs"])
        ck = constant_kinds(r)
        if ck:
            failures.append((len(c["src"]), i, "constant-kind", {"problems": ck, "run": r.get("run")}))
        if c.get("expect_result") and (r.get("run") or {}).get("result") != c["expect_result"]:
            failures.append((len(c["src"]), i, "loaded-values", {"expected": c["expect_result"], "run": r.get("run")}))
        if c["origin"] == "jump-scaled" and c.get("intended"):
            names = ("JumpBack",) if c["kind"] == "back" else ("JumpIfFalse", "Function")
            offs = [ins[2].get("offset", ins[2].get("size")) for ins in r.get("instrs", []) if ins[1] in names]
            if offs:
                jump_offsets.append(f"{c['tag'].split('-')[0]}:{max(offs)}")
                if max(offs) != c["intended"] and c["intended"] <= 65535:
                    miscal.append(f"{c['tag']}: offset {max(offs)}")

    chk.oblige("corr:size-scaled programs hit the intended u16 offsets exactly", not miscal, "; ".join(miscal[:5]))
    chk.log(f"D-predicates done at {time.time() - t0:.0f}s")
    # ---- model on the real bytes
    disagreements = []
    d5_disagree = []
    wf_fail = []
    todo = [i for i, r in enumerate(res) if "bytes" in r]
    if model_ok and info:
        small = [i for i in todo if len(res[i]["bytes"]) <= BIG]
        big = [i for i in todo if len(res[i]["bytes"]) > BIG]
        vals = {}
        try:
            terms = [f"bc_out {coq_bytes(res[i]['bytes'])} {res[i]['nconsts']}" for i in small]
            for i, v in zip(small, C.coq_eval(UNIT, HEADER, terms, tag="c05s", per_shard=40)):
                vals[i] = v
            chk.log(f"model on {len(small)} small chunks done at {time.time() - t0:.0f}s")
            terms = [f"bc_big {coq_bytes(res[i]['bytes'])} {res[i]['nconsts']}" for i in big]
            redo = []
            for i, v in zip(big, C.coq_eval(UNIT, HEADER, terms, tag="c05b", per_shard=1)):
                if res[i].get("reader_error") or res[i].get("reader_panic") or v[0] != expected_digest(info, res[i]):
                    redo.append(i)      # locate the difference with the full instruction list
                else:
                    vals[i] = (None, v[1])
            terms = [f"bc_out {coq_bytes(res[i]['bytes'])} {res[i]['nconsts']}" for i in redo]
            for i, v in zip(redo, C.coq_eval(UNIT, HEADER, terms, tag="c05c", per_shard=1)):
                vals[i] = v
            chk.log(f"model on {len(big)} big chunks ({len(redo)} re-decoded in full) done at {time.time() - t0:.0f}s")
            chk.oblige("corr:model-evaluates", True)
        except RuntimeError as e:
            chk.log(str(e)[-3000:])
            chk.oblige("corr:model-evaluates", False, str(e)[-300:])
        for i in todo:
            if i not in vals:
                continue
            # Coq prints ((a, b), c) as (a, b, c)
            decoded, (wf, bad, (d5, bad5)) = vals[i]
            if not d5 and wf:
                d5detail = {"verifier": "depths_ok = false (clause 5)", "first_rejected": dict(zip(
                    ["ip", "op", "sequence_depth", "string_depth", "try_depth"], bad5)),
                    "python_dataflow_says": py5.get(i, [])[:3]}
                if len(bad5) >= 2 and bad5[1] < 256:
                    d5detail["first_rejected"]["op"] = info["ops"][bad5[1]]
                k = None if missing_builder(info, bad5) else known_class(cases[i], res[i], "clause5")
                if k:
                    chk.known(KNOWN_TEXT[k])
                else:
                    d5detail["run"] = res[i].get("run")
                    wf_fail.append((len(cases[i]["src"]), i, "clause5", d5detail))
            if i in py5 and wf and bool(py5[i]) == d5:
                d5_disagree.append(f"{cases[i].get('tag') or cases[i]['origin']}: depths_ok={d5}, python dataflow: {py5[i][:2]}")
            why = compare_streams(info, res[i], decoded) if decoded is not None else None
            if why:
                disagreements.append((len(cases[i]["src"]), i, why))
            if not wf:
                bad_op = info["ops"][bad[1]] if len(bad) == 2 and bad[1] < 256 else "scan"
                detail = {"verifier": "wf_chunk = false", "first_rejected_ip": bad[0] if bad else None, "bad_op": bad_op,
                          "real_reader_says": next((ins for ins in res[i].get("instrs", []) if bad and ins[0] == bad[0]), None),
                          "run": res[i].get("run")}
                k = known_class(cases[i], res[i], "wf", detail)
                if k:
                    known_wf.add(i)
                    chk.known(KNOWN_TEXT[k])
                    chk.notes.append(f"{k} witness {cases[i].get('tag')}: wf_chunk rejects ip {detail['first_rejected_ip']}; "
                                     f"run: {json.dumps(res[i].get('run'))[:120]}")
                else:
                    wf_fail.append((len(cases[i]["src"]), i, "wf_chunk", detail))
        chk.oblige("corr:clause-5 check depths_ok (Coq) agrees with the independent Python dataflow on every chunk",
                   not d5_disagree, "; ".join(d5_disagree[:4]))
        chk.oblige("corr:decoder model vs koto_bytecode::InstructionReader (every instruction of every chunk)",
                   not disagreements, f"{len(disagreements)} chunks disagree")
    else:
        chk.oblige("corr:decoder model vs koto_bytecode::InstructionReader", False, "model unavailable")
    failures += wf_fail
    for i, (what, rr) in run_fail.items():
        if i in known_wf:
            chk.notes.append(f"run of {cases[i].get('tag')} (chunk rejected by wf_chunk, known class): {json.dumps(rr)[:200]}")
        else:
            failures.append((len(cases[i]["src"]), i, what, rr))

    # ---- var-u32 boundary values: bytes produced by the MODEL's encoder, read by the REAL reader
    if model_ok and info:
        vb = [0, 1, 127, 128, 129, 16383, 16384, 16385, 2097151, 2097152, 2097153, 268435455, 268435456, 4294967295]
        probes = []
        for v in vb:
            probes += [("LoadInt", f"Instr OP_LoadInt [3; {v}]", {"register": 3, "constant": v}),
                       ("LoadString", f"Instr OP_LoadString [3; {v}]", {"register": 3, "constant": v}),
                       ("MakeMap", f"Instr OP_MakeMap [3; {v}]", {"register": 3, "size_hint": v}),
                       ("CheckType", f"Instr OP_CheckType [3; {v}; 513]", {"value": 3, "allow_null": 0, "type_string": v, "jump_offset": 513}),
                       ("Access", f"Instr OP_Access [3; 4; {v}]", {"register": 3, "value": 4, "key": v}),
                       ("TryAccess", f"Instr OP_TryAccess [3; 4; {v}; 513]", {"register": 3, "value": 4, "key": v, "jump_offset": 513}),
                       ("SequenceStart", f"Instr OP_SequenceStart [{v}]", {"size_hint": v}),
                       ("StringStart", f"Instr OP_StringStart [{v}]", {"size_hint": v})]
        try:
            enc = C.coq_eval(UNIT, HEADER, [f"match encode ({t}) with Some bs => bs | None => [] end" for _, t, _ in probes],
                             tag="c05v", per_shard=200)
            cf = os.path.join(C.BUILD, "cases", f"c05-raw-{os.getpid()}.jsonl")
            with open(cf, "w") as f:
                for bs in enc:
                    f.write(json.dumps({"raw": bs}) + "\n")
            rc, out = C.sh([binp, cf], timeout=600)
            os.remove(cf)
            got = [json.loads(l) for l in out.splitlines() if l.startswith("{")]
            vbad = []
            for (name, term, fields), bs, g in zip(probes, enc, got):
                ins = g.get("instrs") or []
                if not bs or len(ins) != 1 or ins[0][1] != name or ins[0][2] != fields or ins[0][3] != len(bs):
                    vbad.append(f"{term}: model encoding {bs}, real reader yields {json.dumps(g)[:160]}")
            chk.oblige("corr:var-u32 boundary values (model encoder -> real InstructionReader), 14 values x 8 instruction forms",
                       len(got) == len(probes) and not vbad, "; ".join(vbad[:3]))
            if vbad:
                chk.log(f"{len(vbad)} var-u32 boundary probes disagree; first: {vbad[0]}")
        except RuntimeError as e:
            chk.oblige("corr:var-u32 boundary values", False, str(e)[-300:])

    # ---- verdict
    if failures:
        failures.sort(key=lambda x: (x[0], x[1]))
        size, i, what, detail = failures[0]
        kinds = {}
        for f in failures:
            kinds[f[2]] = kinds.get(f[2], 0) + 1
        chk.violation("input", {"kind": "input", "src": cases[i]["src"], "origin": cases[i]["origin"],
                                "tag": cases[i].get("tag"), "expect": cases[i].get("expect"), "expect_result": cases[i].get("expect_result"), "clause_failed": what, "detail": detail,
                                "others": kinds, "how_to_rerun": "./check C05 --replay <this file>"})
        chk.log(f"{len(failures)} inputs violate C05 ({kinds}); smallest ({what}): {cases[i]['src'][:200]!r} {json.dumps(detail)[:300]}")
    broken = [o for o in chk.obligations if not o[1]]
    if broken and not failures:
        payload = {"kind": "obligation", "broken": [o[0] + (": " + o[2] if o[2] else "") for o in broken]}
        if disagreements:
            disagreements.sort()
            _, i, why = disagreements[0]
            payload["smallest_disagreement"] = {"src": cases[i]["src"], "why": why, "bytes": res[i]["bytes"][:400]}
            payload["note"] = ("every real chunk passes the verifier, but the real InstructionReader no longer decodes "
                               "like the model the theorems are about")
            chk.log(f"{len(disagreements)} decoder disagreements; smallest: {why}")
        chk.violation("obligation", payload, no_input=True)

    tb = ["Coq 8.16.1 kernel (coqc); vm_compute for finite sweeps over the 256-entry opcode table and for evaluating the model",
          "axioms reported by Print Assumptions: " + (", ".join(axioms) if axioms else "none (closed under the global context)"),
          "tools/k2v_bc.py transcription of enum Op and of the decoder arms; the Function/StringPush arms and the read macros "
          "are hand-modelled and pinned by source hash",
          "coq/bc/AbsVM.v: the operand-role table (which operands index registers / constants / jump) and the successor "
          "relation are a hand abstraction of vm.rs (specification, tied only by running programs)",
          "kh_bc (Rust harness) and checks/c05.py (comparison, size calibration, determinism comparison)"]
    return chk.finish(
        rule="programs: committed corpus + /repo's .koto files, fenced koto doc examples and script literals of the Rust tests "
             "+ single-token delete/duplicate/swap neighbours + seeded generated programs over all statement kinds + size-scaled "
             "programs at each limit; non-trivial = compiled chunk has >= 8 instructions; distinct by source text",
        explanation="decoder/encoder and verifier-soundness theorems for all byte strings; exact decoder-model vs InstructionReader "
                    "equality on every real chunk; the proved verifier, the clause-5 dataflow, panic/internal-fault and "
                    "recompilation checks on the real compiler's output",
        trusted_base=tb,
        extra={"distribution": dist, "outcomes": outcomes, "exhaustive": False,
               "chunks_decoded_and_verified": len(todo), "decoder_disagreements": len(disagreements),
               "u16_offsets_reached_exactly": sorted(set(jump_offsets)),
               "offset_overhead_bytes": ovh,
               "cross_process_determinism_checked": len(compiled) if ok2 else 0,
               "vm_panics_outside_c05_fault_list": sorted(set(other_panics))[:20]})


def replay(path, args):
    data = json.load(open(path))
    src = data.get("src") or data.get("smallest_disagreement", {}).get("src")
    if src is None:
        print("replay file names an obligation, not an input:", json.dumps(data.get("broken")))
        return run("quick", data.get("seed", 1))
    info, _ = k2v_bc.gen_ops(os.path.join(C.COQ, UNIT, "GenOps.v"), os.path.join(C.BUILD, "gen", "bc.json"))
    binp, blog = C.build_harness("kh_bc")
    case = {"src": src, "run": True, "reps": 8, "limit_ms": 4000, "origin": "replay"}
    ok, res = run_harness(binp, [case], "r", shards=1)
    ok2, res2 = run_harness(binp, [dict(case, run=False)], "r2", extra={"no_dump": True}, shards=1)
    r = res[0]
    print(json.dumps({k: v for k, v in r.items() if k not in ("bytes", "instrs")})[:2000])
    bad = []
    exp = data.get("expect")
    if exp == "compile-error" and "img" in r:
        bad.append("a program exceeding a size limit compiled silently (expected a compile error)")
    if exp == "compiled" and "img" not in r and "panic" not in r:
        bad.append(f"a program within the limits was rejected: {r.get('msg', 'parse error')[:200]}")
    if "panic" in r and not known_class(case, r, "panic"):
        bad.append("panic while compiling")
    for pb in constant_kinds(r):
        bad.append("constant reference: " + pb)
    if data.get("expect_result") and (r.get("run") or {}).get("result") != data["expect_result"]:
        bad.append(f"loaded values differ from the literals written: expected {data['expect_result']}, got {r.get('run')}")
    if "img" in r:
        imgs = set(r["imgs"]) | ({res2[0].get("img")} if ok2 and res2[0] else set())
        if len(imgs) > 1 and not known_class(case, r, "nondet"):
            bad.append(f"nondeterministic compilation: {sorted(imgs)}")
        rr = r.get("run") or {}
        run_bad = None
        wf_known = False
        if ("panic" in rr and C05_FAULT_RE.search(rr["panic"])) or rr.get("result", "").startswith("EInternal"):
            run_bad = f"internal fault when run: {rr}"
        okb, _ = C.coq_build(UNIT, ["BcRun.vo"])
        if okb:
            v = C.coq_eval(UNIT, HEADER, [f"bc_out {coq_bytes(r['bytes'])} {r['nconsts']}"], tag="c05r")[0]
            why = compare_streams(info, r, v[0])
            if why:
                bad.append("decoder model disagrees: " + why)
            wf_ok, wf_bad, (d5, bad5) = v[1]
            if not d5 and (missing_builder(info, bad5) or not known_class(case, r, "clause5")):
                bad.append(f"depths_ok = false (clause 5): {bad5}")
            if not wf_ok:
                b = wf_bad
                d = {"bad_op": info["ops"][b[1]] if len(b) == 2 and b[1] < 256 else "scan"}
                if not known_class(case, r, "wf", d):
                    bad.append(f"wf_chunk = false (first rejected instruction at ip {b[0] if b else '?'}, {d['bad_op']})")
                else:
                    wf_known = True
                    print(f"  wf_chunk = false at ip {b[0]} ({d['bad_op']}): known class {known_class(case, r, 'wf', d)}")
        if run_bad and not wf_known:
            bad.append(run_bad)
    for b in bad:
        print("  " + b)
    if bad:
        print(f"VIOLATION property={PID} replay={path}")
        return 1
    print("no clause of C05 fails on this input")
    return 0
