"""C02  Functions, closures and generators bind and capture as documented.
Reference-semantics check (functions, argument forms, closures, pipes, recursion);
generators (`yield`) are outside the reference interpreter (stated in MANIFEST)."""
from checks import corecheck as K, coregen as G

PID = "C02"
PINNED = ["arg_binds_positionally", "arg_hint_checked", "ignored_arg_binds_nothing",
          "nested_arg_needs_matching_size", "nested_arg_needs_container"]


def known(r):
    return None


def run(tier, seed):
    return K.run_profile(PID, "C02Props", PINNED, G.FnGen, "fn", known,
                         "seeded generator: function definitions with plain/default/ignored/nested-unpacked/variadic "
                         "parameters, calls with every argument count around the arity, pipes, capture by copy, shared "
                         "lists through captures, recursion, closure factories; non-trivial = >= 4 lines with a verdict",
                         600, 8000, tier, seed)


def replay(path, args):
    r = K.replay_program(PID, path)
    return run("quick", 1) if r is None else r
