"""C06: theorems (T) and model-vs-implementation correspondence (R) for the modelled entry points."""
import re

from vlib import common as C
from checks import c06_pool as P

UNIT = "safe"

PINNED = [
    "abs_no_panic", "abs_exact", "shift_left_no_panic", "shift_right_no_panic", "shift_left_rejects",
    "shl_primitive_panics", "bitwise_no_panic", "flip_bits_no_panic", "to_int_no_panic", "lerp_no_panic",
    "arithmetic_no_panic", "rem_no_panic", "rem_assign_no_panic", "nrem_refuted", "step_to_no_panic",
    "step_to_refuted", "as_bounded_no_panic", "as_bounded_refuted", "contains_num_no_panic",
    "contains_range_no_panic", "intersection_no_panic", "union_no_panic", "size_no_panic", "size_refuted",
    "expanded_no_panic", "expanded_refuted", "indices_no_panic", "indices_in_bounds", "pop_front_no_panic",
    "pop_back_no_panic", "get_no_panic", "insert_no_panic", "remove_no_panic", "resize_no_panic",
    "first_last_pop_fill_no_panic", "extend_no_panic", "extend_refuted", "swap_no_panic", "swap_refuted",
]


def theorems(chk):
    ok, log = C.coq_build(UNIT, ["SafeRun.vo"])
    if not ok:
        chk.log("coq/safe does not build:\n" + log[-2500:])
    pr = C.check_props_file(UNIT, "C06Props", PINNED)
    hits = C.forbidden_scan(UNIT)
    if not pr["ok"]:
        chk.log("C06Props does not check:\n" + pr["log"][-2500:])
    for name in PINNED:
        good = pr["ok"] and name not in pr["missing"] and ("Print Assumptions " + name) not in pr["missing"] \
            and not pr["bad_axioms"] and not hits
        chk.oblige("thm:" + name, good)
    if hits:
        chk.log("forbidden constructs: " + "; ".join(hits))
    if pr["bad_axioms"]:
        chk.log("axioms outside the allowlist: " + ", ".join(pr["bad_axioms"]))
    return ok and pr["ok"], pr.get("axioms", [])


# ---------------------------------------------------------------- pool values as Coq terms

def z(n):
    return f"({n})"


def num(i):
    m = P.POOL[i]["model"]
    if m and m[0] == "I":
        return f"(I {z(m[1])})"
    if m and m[0] == "F":
        return f"(F {z(m[1])} {'true' if m[2] else 'false'})"
    return None


def intarg(i):
    m = P.POOL[i]["model"]
    return z(m[1]) if m and m[0] == "I" else None


def rng(i):
    m = P.POOL[i]["model"]
    if not m or m[0] != "R":
        return None
    s = "None" if m[1] is None else f"(Some {z(m[1])})"
    e = "None" if m[2] is None else f"(Some ({z(m[2])}, {'true' if m[3] else 'false'}))"
    return f"(rng {s} {e})"


def seq(kind):
    def f(i):
        m = P.POOL[i]["model"]
        if not m or m[0] != kind:
            return None
        if len(m) > 2:
            return "(ints [" + "; ".join(z(x) for x in m[2]) + "])"
        return f"(anys {m[1]})"
    return f


def anyarg(i):
    return ""          # the value itself does not matter to the model


def alias(i):
    # second argument of extend / swap: the receiver itself or another container of the same kind
    if P.POOL[i]["name"] == "@0":
        return "true"
    return None


def other_list(i):
    return "false" if "list" in P.POOL[i]["tags"] and "selfref" not in P.POOL[i]["tags"] else alias(i)


def other_map(i):
    return "false" if P.POOL[i]["tags"] == {"map"} else alias(i)


def plain_list(i):
    return "" if "list" in P.POOL[i]["tags"] else None


def plain_map(i):
    return "" if P.POOL[i]["tags"] == {"map"} else None


# (module, fn, form, [encoder per position], coq function, drive)
MODELLED = [
    ("number", "abs", "m", [num], "abs_model"),
    ("number", "and", "m", [num, num], "and_model"),
    ("number", "or", "m", [num, num], "or_model"),
    ("number", "xor", "m", [num, num], "xor_model"),
    ("number", "shift_left", "m", [num, num], "shift_left_model"),
    ("number", "shift_right", "m", [num, num], "shift_right_model"),
    ("number", "flip_bits", "m", [num], "flip_bits_model"),
    ("number", "to_int", "m", [num], "to_int_model"),
    ("number", "lerp", "m", [num, num, num], "lerp_model"),
    ("number", "step_to", "m", [intarg, intarg, intarg], "step_to_new_model"),
    ("op", "add", "f", [num, num], "add_model"),
    ("op", "subtract", "f", [num, num], "sub_model"),
    ("op", "multiply", "f", [num, num], "mul_model"),
    ("op", "divide", "f", [num, num], "div_model"),
    ("op", "remainder", "f", [num, num], "rem_model"),
    ("op", "remainder_assign", "f", [num, num], "rem_assign_model"),
    ("op", "add_assign", "f", [num, num], "add_model"),
    ("op", "multiply_assign", "f", [num, num], "mul_model"),
    ("range", "contains", "m", [rng, intarg], "contains_num_model"),
    ("range", "contains", "m", [rng, rng], "contains_range_model"),
    ("range", "intersection", "m", [rng, rng], "intersection_model"),
    ("range", "union", "m", [rng, rng], "union_model"),
    ("range", "expanded", "m", [rng, intarg], "expanded_model"),
    ("koto", "size", "f", [rng], "size_v"),
    ("list", "get", "m", [seq("L"), num], "get_v {0} {1} VNull"),
    ("tuple", "get", "m", [seq("T"), num], "get_v {0} {1} VNull"),
    ("list", "insert", "m", [seq("L"), num, anyarg], "insert_v {0} {1}"),
    ("list", "remove", "m", [seq("L"), num], "remove_v"),
    ("list", "resize", "m", [seq("L"), num], "resize_v"),
    ("list", "first", "m", [seq("L")], "first_v"),
    ("list", "last", "m", [seq("L")], "last_v"),
    ("list", "pop", "m", [seq("L")], "pop_v"),
    ("tuple", "first", "m", [seq("T")], "first_v"),
    ("tuple", "last", "m", [seq("T")], "last_v"),
    ("list", "extend", "m", [plain_list, other_list], "extend_v {1}"),
    ("list", "swap", "m", [plain_list, other_list], "swap_v {1}"),
    ("map", "extend", "m", [plain_map, other_map], "extend_v {1}"),
]

BIG_FILTER = {("list", "resize"), ("number", "step_to")}   # step_to: iterating 2^63 steps is not attempted


def jobs(tier, seed, first_id):
    out = []
    jid = first_id
    for k, (module, fn, form, encs, coq) in enumerate(MODELLED):
        pools = []
        for pos, enc in enumerate(encs):
            idx = [i for i, p in enumerate(P.POOL) if enc(i) is not None]
            if (module, fn) == ("list", "resize") and pos == 1:
                idx = [i for i in idx if "big" not in P.POOL[i]["tags"]]
            pools.append(idx)
        total = 1
        for p in pools:
            total *= len(p)
        cap = 300 if tier == "quick" else 6000
        jid += 1
        out.append({"mode": "calls", "id": jid, "module": module, "fn": fn, "form": form, "pools": pools,
                    "sample": {"n": cap, "seed": seed * 65537 + k} if total > cap else None,
                    "all": True, "drive": False, "cost": min(total, cap), "modelled": k})
    return out


WHY = {1: r"attempt to (add|subtract|multiply|negate) with overflow", 2: r"attempt to shift (left|right) with overflow",
       3: r"divisor of zero|divide by zero", 4: r"already mutably borrowed", 5: r"already borrowed", 6: r"index|out of bounds"}


def impl_class(l):
    """(class, value) of what the real function did"""
    if "panic" in l:
        return (6, l["panic"])
    o = l["o"]
    if o.startswith("e:"):
        return (5, 0)
    v = o[2:]
    if re.fullmatch(r"i-?\d+", v):
        return (0, int(v[1:]))
    if v.startswith("d"):
        return (1, 0)
    if v in ("t", "f"):
        return (2, 1 if v == "t" else 0)
    if v == "n":
        return (3, 0)
    return (4, 0)


def agree(model, impl):
    mc, mv = model
    ic, iv = impl
    if mc == 6:
        return ic == 6 and re.search(WHY[mv], iv) is not None
    if ic == 6:
        return False
    if mc == 5 or ic == 5:
        return mc == ic
    if mc == 4:
        return True                       # some value
    if mc == 0:
        return ic == 0 and iv == mv
    return mc == ic and (mc != 2 or mv == iv)


def compare(chk, bylines, byid):
    """evaluates the models on exactly the argument tuples the implementation was run on"""
    terms, keys = [], []
    for jid, ls in sorted(bylines.items()):
        j = byid[jid]
        if "modelled" not in j:
            continue
        module, fn, form, encs, coq = MODELLED[j["modelled"]]
        for l in ls:
            args = [enc(i) for enc, i in zip(encs, l["a"])]
            if "{" in coq:
                t = coq.format(*args)
            else:
                t = coq + " " + " ".join(args)
            terms.append(f"enc ({t})")
            keys.append((j, l))
    header = "From KV.safe Require Import SafeBase NumCore RangeCore ListCore SafeRun.\nRequire Import ZArith List.\n" \
             "Import ListNotations.\nOpen Scope Z_scope.\n"
    try:
        vals = C.coq_eval(UNIT, header, terms, tag="c06", per_shard=400)
    except RuntimeError as e:
        chk.log(str(e)[-2500:])
        chk.oblige("corr:model-evaluates", False)
        return []
    dis = []
    per_fn = {}
    predicted_panics = 0
    for (j, l), v in zip(keys, vals):
        impl = impl_class(l)
        name = f"{j['module']}.{j['fn']}"
        per_fn[name] = per_fn.get(name, 0) + 1
        if v[0] == 6:
            predicted_panics += 1
        if not agree((v[0], v[1]), impl):
            dis.append({"module": j["module"], "fn": j["fn"], "form": j["form"],
                        "args": [P.POOL[i]["name"] for i in l["a"]],
                        "arg_sources": [P.POOL[i]["src"] for i in l["a"]],
                        "model_says": v, "impl_says": l.get("o") or {"panic": l.get("panic"), "at": l.get("at")}})
    dis.sort(key=lambda d: (len(d["args"]), sum(len(a) for a in d["arg_sources"])))
    chk.oblige("corr:model-vs-core-library outcome class (value / error / panic, integer results exact)", not dis,
               f"{len(dis)} disagreements" + (f"; first: {dis[0]['module']}.{dis[0]['fn']} {dis[0]['args']} model "
                                               f"{dis[0]['model_says']} impl {dis[0]['impl_says']}" if dis else ""))
    chk.coverage["correspondence_cases"] = len(terms)
    chk.coverage["correspondence_cases_per_function"] = per_fn
    chk.coverage["correspondence_predicted_panics_confirmed"] = predicted_panics if not dis else None
    if dis:
        chk.log(f"{len(dis)} model/implementation disagreements; smallest: {dis[0]}")
    return dis
