"""C15  Strings stay valid text; indexing, splitting and formatting are exact.

T  theorems in coq/str/C15Props.v about implementation-shaped models of StringSlice / KString,
   the VM's Str index/slice arms, the string iterators, core_lib string functions, escape codes
   and format options (all strings, all offsets)
R  correspondence: the same tables computed by the model (vm_compute) and by koto's crates
   (harness/src/bin/kh_str.rs), compared exactly
D  C15's clauses evaluated directly on the implementation's outputs with Python's own
   bytes/str definitions (never through the Coq model)
"""
import itertools
import json
import os
import re
import sys

from vlib import common as C

PID = "C15"
UNIT = "str"

PINNED = [
    "str_get_valid_text", "with_bounds_sliced_valid", "wf_as_str_valid", "slice_valid_or_error",
    "slice_valid_or_error_full_refuted", "range_incl_max_refuted", "with_bounds_beyond_end_refuted",
    "split_empty_pattern_stuck", "size_hint_never_panics", "to_list_exhausted_is_empty", "chars_concat",
    "char_indices_tile", "split_join", "lines_spec", "escape_total", "escape_unicode_value", "escape_overflow_refuted",
    "format_spec_parse_total", "strip_prefix_spec", "strip_suffix_spec", "repeat_len", "trim_is_end_after_start", "trim_matches_laws", "replace_spec", "replace_length_law", "replace_empty_pattern_spec", "contains_starts_ends_spec", "continuation_skips_crlf", "format_fill_count", "format_fill_count_refuted",
]

ALPHABET = ["a", "é", "€", "😀", "́", "\r", "\n", " "]
EXTRA = ["b", "\t", "‍", "🇩", "🇪", "한", "ᄀ", "ᅡ", "x", ",", "0", "ß", " ", "　", "A"]
PATS = ["", "a", " ", "é", "\n", "\r\n", "aa", "́", "€"]
CONTEXTS = [("é", "€b"), ("", "a"), ("a", "́"), ("😀", "")]

KNOWN = {
    "C15a": "C15a KString::with_bounds on a whole (Inner::Full) string is unchecked: indexing / slicing / unpacking a "
            "string that owns its buffer (e.g. the result of repeat, replace, to_uppercase, interpolation) inside a "
            "multi-byte character returns a string with malformed UTF-8 via get_unchecked, e.g. (\"é\".repeat 1)[0]",
    "C15b": "C15b KRange::as_bounded_range overflows on ..=i64::MAX: \"abc\"[..=9223372036854775807] panics "
            "(range.rs: attempt to add with overflow)",
    "C15d": "C15d \"abc\".split \"\" yields the empty string for ever (the cursor never advances)",
    "C15e": "C15e StringSlice::with_bounds / split check the bounds against the shared buffer, not against the "
            "slice: with_bounds(0..len+k) on a slice returns bytes of the neighbouring data (API level; the VM clamps "
            "indices so scripts cannot reach it)",
}


def b(s):
    return list(s.encode("utf-8"))


# ---------------------------------------------------------------------------
# case generation


def gen_str_cases(tier, seed):
    cases = []
    cdir = os.path.join(C.VERIF, "corpus", PID)
    if os.path.isdir(cdir):
        for f in sorted(os.listdir(cdir)):
            for line in open(os.path.join(cdir, f), encoding="utf-8"):
                line = line.strip()
                if line and not line.startswith("#"):
                    c = json.loads(line)
                    if c.get("kind", "str") == "str":
                        c["origin"] = "corpus"
                        cases.append(c)
    pats = [b(p) for p in PATS]

    def mk(origin, text, variant, ctx, tables="sui", pad=0):
        pre, post = CONTEXTS[ctx % len(CONTEXTS)]
        return {"kind": "str", "origin": origin, "variant": variant, "pad": pad, "pre": b(pre), "s": b(text),
                "post": b(post), "pats": pats, "tables": tables}

    # quick: every string of length <= 2 in both representations, a seeded quarter of length 3 and a seeded
    # 1/64 of length 4; thorough: everything up to length 4 and a 1/8 sample of length 5
    kfull = 2 if tier == "quick" else 4
    kmax = 4 if tier == "quick" else 5
    n = 0
    for k in range(0, kmax + 1):
        stride = 1 if k <= kfull else (4 if k == 3 else 64) if tier == "quick" else 8
        for t in itertools.product(ALPHABET, repeat=k):
            text = "".join(t)
            n += 1
            if k <= kfull:
                # both representations for slicing/unpacking; iterators on alternating representations
                cases.append(mk("exhaustive", text, n % 2, n, "suio"))
                cases.append(mk("exhaustive", text, 1 - n % 2, n, "su"))
                if k <= 1:
                    cases.append(mk("exhaustive-large", text, 2, n, pad=70000))
            elif (n + seed) % stride == 0:
                cases.append(mk(f"exhaustive-len{k}-sample-1/{stride}", text, (n // stride) % 2, n // stride, "suio"))
    rng = C.Rng(seed)
    n_rand = 40 if tier == "quick" else 6000
    for i in range(n_rand):
        ln = 3 + rng.below(8)
        text = "".join(rng.choice(ALPHABET + EXTRA) if rng.chance(1, 3) else rng.choice(ALPHABET) for _ in range(ln))
        v = rng.below(3)
        cases.append(mk("random", text, v if v < 2 or rng.chance(1, 6) else 1, rng.below(4), tables="suio" if ln <= 6 else "uio",
                        pad=70000))
    for c in cases:
        if c["variant"] != 2:
            c["pad"] = 0
    return cases


# pattern-taking functions: bordered (self-overlapping) patterns and subjects built from overlapping runs

BORDERED = ["aa", "aba", "-=-", "éé", "abab", "aaa", "é́é́", "aéa", "\r\n\r", "😀😀"]
PLAIN = ["ab", "a", "é", "́", "abc"]
REPS = ["", "x", "éa"]


def gen_pat_cases(tier, seed):
    """kind str, tables 'po': per case a subject and the patterns tried on it"""
    rng = C.Rng(seed + 555)
    cases = []
    n = 0

    def add(origin, subject, pats):
        nonlocal n
        n += 1
        pre, post = CONTEXTS[n % len(CONTEXTS)]
        cases.append({"kind": "str", "origin": origin, "variant": n % 2, "pad": 0, "pre": b(pre), "s": b(subject),
                      "post": b(post), "pats": [b(q) for q in pats], "reps": [b(q) for q in REPS], "tables": "po"})

    # (a) subjects made of k copies of a bordered pattern +- a proper prefix / suffix of it +- a separator
    for pat in BORDERED + PLAIN[:1]:
        chars = list(pat)
        subjects = set()
        for k in range(0, 4):
            run = pat * k
            subjects.add(run)
            for j in range(1, len(chars)):
                pre_, suf_ = "".join(chars[:j]), "".join(chars[j:])
                subjects.add(run + pre_)
                subjects.add(suf_ + run)
                subjects.add(suf_ + run + pre_)
            for sep in ["|", chars[0], "é"]:
                subjects.add(run + sep + run)
                subjects.add(sep + run)
                subjects.add(run + sep)
        for m in range(1, 8):
            subjects.add(chars[0] * m)          # odd / even runs of the first character
        subjects = sorted(subjects)
        if tier == "quick":
            subjects = [x for x in subjects if len(x) <= 7 or rng.chance(1, 3)]
        others = ["", pat + pat, pat + chars[0], chars[0], "".join(chars[:-1]) or "a"]
        for sub in subjects:
            add("pattern-runs", sub, [pat] + others[:(2 if tier == "quick" else 5)] + [sub + "a"])   # incl. longer than subject
    # (b) exhaustive subjects over {a, b, é} x every pattern over the same alphabet up to length 3 (and the empty one)
    alpha = ["a", "b", "é"]
    allp = [""] + ["".join(q) for k in (1, 2, 3) for q in itertools.product(alpha, repeat=k)]
    bordered3 = [q for q in allp if len(q) >= 2 and any(q[:j] == q[-j:] for j in range(1, len(q)))]
    kex = 3 if tier == "quick" else 6
    for k in range(0, 7):
        for tup in itertools.product(alpha, repeat=k):
            sub = "".join(tup)
            if k <= kex:
                add("pattern-exhaustive", sub, allp)
            elif tier == "quick":
                # longer subjects: a seeded sample, bordered patterns only (that is where overlap matters)
                if rng.chance(1, 8 if k == 4 else 24 if k == 5 else 60):
                    add("pattern-exhaustive-sample", sub, bordered3)
    return cases


# ---------------------------------------------------------------------------
# D-predicates: python's own definitions


def boundaries(s):
    """character boundaries of a valid UTF-8 byte string"""
    out = {0}
    off = 0
    for ch in s.decode("utf-8"):
        off += len(ch.encode("utf-8"))
        out.add(off)
    return out


def is_utf8(bs):
    try:
        bytes(bs).decode("utf-8")
        return True
    except UnicodeDecodeError:
        return False


def expect_get(s, bnd, a, bb):
    """std str::get(a..b) on the string itself: [0]+bytes or None"""
    if 0 <= a <= bb <= len(s) and a in bnd and bb in bnd:
        return [0] + list(s[a:bb])
    return None


def clamp(x, lo, hi):
    return lo if x < lo else hi if x > hi else x


def expect_range(s, bnd, a, bb, incl):
    """documented KRange::indices: start clamped to 0..=len, end to start..=len; a slice through a
    character is an error"""
    L = len(s)
    lo = -(2 ** 63) if a is None else a
    hi = (2 ** 63 - 1) if bb is None else bb + (1 if incl else 0)
    hi = max(hi, lo)
    st = clamp(lo, 0, L)
    en = clamp(hi, st, L)
    r = expect_get(s, bnd, st, en)
    return r if r is not None else [2]


def slice_labels(L):
    labs = []
    for a in range(0, L + 2):
        for bb in range(0, L + 2):
            labs.append(("api", a, bb))
    for n in range(-1, L + 2):
        labs.append(("idx", n))
    for a in range(-1, L + 2):
        for bb in range(-1, L + 2):
            labs.append(("rng", a, bb, False))
            labs.append(("rng", a, bb, True))
    for a in range(-1, L + 2):
        labs.append(("from", a))
    for bb in range(-1, L + 2):
        labs.append(("to", bb, False))
        labs.append(("to", bb, True))
    labs += [("full",), ("to", 2 ** 63 - 1, True), ("rng", -(2 ** 63), 2 ** 63 - 1, False), ("rng", 0, 2 ** 63 - 1, True)]
    return labs


def label_src(lab):
    k = lab[0]
    if k == "api":
        return f"KString::with_bounds({lab[1]}..{lab[2]})"
    if k == "idx":
        return f"s[{lab[1]}]"
    if k == "rng":
        return f"s[{lab[1]}..{'=' if lab[3] else ''}{lab[2]}]"
    if k == "from":
        return f"s[{lab[1]}..]"
    if k == "to":
        return f"s[..{'=' if lab[2] else ''}{lab[1]}]"
    return "s[..]"


def d_slice(case, table):
    """returns (failures, known ids)"""
    s = bytes(case["s"])
    L = len(s)
    bnd = boundaries(s)
    fails, known = [], set()
    labs = slice_labels(L)
    if len(labs) != len(table):
        return [f"slice table has {len(table)} entries, expected {len(labs)}"], known
    for lab, got in zip(labs, table):
        k = lab[0]
        if k == "api":
            exp = expect_get(s, bnd, lab[1], lab[2]) or [1]
        elif k == "idx":
            n = lab[1]
            exp = (expect_get(s, bnd, n, n + 1) or [2]) if 0 <= n < L else [2]
        elif k == "rng":
            exp = expect_range(s, bnd, lab[1], lab[2], lab[3])
        elif k == "from":
            exp = expect_range(s, bnd, lab[1], None, False)
        elif k == "to":
            exp = expect_range(s, bnd, None, lab[1], lab[2])
        else:
            exp = [0] + list(s)
        if got == exp:
            continue
        # classify
        if got[0] == 3 and case["variant"] == 0:
            known.add("C15a")
            continue
        if got == [4] and (k in ("to", "rng")) and lab[-1] is True and lab[-2] == 2 ** 63 - 1:
            known.add("C15b")
            continue
        if k == "api" and case["variant"] != 0 and lab[2] > L and got[0] in (0, 1) and exp == [1]:
            if got[0] == 0:
                known.add("C15e")
            continue
        if case["variant"] == 0 and got == [0] and exp in ([1], [2]):
            # empty unchecked slice at a non-boundary: malformed bounds, but the text is (vacuously) valid
            known.add("C15a")
            continue
        fails.append(f"{label_src(lab)} gave {got}, the std definition gives {exp}")
    return fails, known


UNPACK = [  # (exact?, n, [ops]) in the order of StrRun.unpack_table
    (True, 2, [("ti", 0), ("ti", 1)]),
    (True, 3, [("ti", 0), ("ti", 1), ("ti", 2)]),
    (False, 1, [("ti", 0), ("sf", 1)]),
    (False, 2, [("ti", 0), ("ti", 1), ("sf", 2)]),
    (False, 1, [("st", -1), ("ti", -1)]),
    (False, 2, [("st", -2), ("ti", -2), ("ti", -1)]),
    (False, 3, [("ti", 0), ("ti", 1), ("ti", 2), ("sf", 3)]),
]
UNPACK_SRC = ["|(a, b)|", "|(a, b, c)|", "|(a, rest...)|", "|(a, b, rest...)|", "|(first..., z)|", "|(first..., y, z)|",
              "|(a, b, c, rest...)|"]


def split_groups(table, marker_len=1):
    groups = [[]]
    for e in table:
        if e[0] == 5 and len(e) == marker_len:
            groups.append([])
        else:
            groups[-1].append(e)
    return groups


def d_unpack(case, table):
    s = bytes(case["s"])
    L = len(s)
    bnd = boundaries(s)
    fails, known = [], set()
    groups = split_groups(table)
    if len(groups) != len(UNPACK):
        return [f"unpack table has {len(groups)} groups"], known
    for (exact, n, ops), got, src in zip(UNPACK, groups, UNPACK_SRC):
        if (L != n) if exact else (L < n):
            exp = [[2]]
        else:
            exp = []
            for op, i in ops:
                j = i if i >= 0 else L + i
                if op == "ti":
                    exp.append(expect_get(s, bnd, j, j + 1) or [1])
                elif op == "sf":
                    exp.append(expect_get(s, bnd, j, L) or [1])
                else:
                    exp.append(expect_get(s, bnd, 0, j) or [1])
        if got == exp:
            continue
        if case["variant"] == 0 and len(got) == len(exp) and all(g == e or g[0] == 3 or (g == [0] and e == [1])
                                                                 for g, e in zip(got, exp)):
            known.add("C15a")
            continue
        fails.append(f"f = {src} ...; f s gave {got}, expected {exp}")
    return fails, known


def ref_lines(s):
    if not s:
        return []
    parts = s.split(b"\n")
    term = [True] * (len(parts) - 1) + [False]
    if parts[-1] == b"":
        parts.pop()
        term.pop()
    return [p[:-1] if t and p.endswith(b"\r") else p for p, t in zip(parts, term)]


PRED_PY = [lambda c: c == b" ", lambda c: c == "é".encode(), lambda c: len(c) > 1, lambda c: True, lambda c: False,
           lambda c: c == b"\n"]


def ref_split_with(s, gb, pred):
    """documented behaviour of split with a predicate: pieces between matching clusters; like
    split(pattern), a match at the very end is followed by an empty piece"""
    pieces = []
    cur = 0
    for i, j in zip(gb, gb[1:]):
        if pred(s[i:j]):
            pieces.append(s[cur:i])
            cur = j
    pieces.append(s[cur:])
    return pieces


def d_iter(case, table, gb):
    s = bytes(case["s"])
    L = len(s)
    fails, known = [], set()
    groups = split_groups(table, 2)[1:]
    heads = [e for e in table if e[0] == 5 and len(e) == 2 and e[1] >= 100]
    # every group: items..., [5, fin], (hint)
    # NOTE split_groups(…, 2) also splits at the [5, fin] markers; regroup by the >=100 markers instead
    groups = []
    for e in table:
        if e[0] == 5 and len(e) == 2 and e[1] >= 100:
            groups.append((e[1], []))
        else:
            groups[-1][1].append(e)
    pi = 0
    wi = 0
    for kind, g in groups:
        name = {100: "bytes", 101: "char_indices", 102: "chars", 103: "chars (from the back)", 104: "lines", 105: "split",
                106: "split (predicate)"}[kind]
        pat = None
        if kind == 105:
            pat = bytes(case["pats"][pi])
            pi += 1
            name = f"split {pat!r}"
        if kind == 106:
            pred = PRED_PY[wi]
            name = f"split (predicate #{wi})"
            wi += 1
        if g == [[4]]:
            fails.append(f"{name}: next() panicked")
            continue
        items = []
        fin = None
        hint = None
        for e in g:
            if e[0] == 5 and len(e) == 2 and fin is None:
                fin = e[1]
            elif fin is None:
                items.append(e)
            else:
                hint = e
        if any(e[0] in (3, 4) for e in items) and kind >= 102:
            fails.append(f"{name}: yields a malformed string / panics: {items}")
            continue
        if not fin:
            if kind == 105 and pat == b"":
                known.add("C15d")
            else:
                fails.append(f"{name}: not finished after {L + 3} calls of next()")
            continue
        if hint == [4]:
            # to_list / to_tuple ask the iterator for its size_hint first
            fails.append(f"{name}: size_hint of the exhausted iterator panics (to_list on it would panic)")
        if kind == 100:
            if [e[0] for e in items] != list(s):
                fails.append(f"bytes gave {items}")
        elif kind == 101:
            exp = [[7, i, j] for i, j in zip(gb, gb[1:])]
            if items != exp:
                fails.append(f"char_indices gave {items}, cluster ranges are {exp}")
            pos = 0
            for _, i, j in items:
                if i != pos or j <= i:
                    fails.append(f"char_indices ranges do not tile 0..{L}: {items}")
                    break
                pos = j
            else:
                if pos != L:
                    fails.append(f"char_indices ranges do not tile 0..{L}: {items}")
        elif kind in (102, 103):
            ps = [bytes(e[1:]) for e in items]
            if kind == 103:
                ps = ps[::-1]
            if b"".join(ps) != s:
                fails.append(f"{name}: concatenation {b''.join(ps)!r} is not the string")
            if ps != [s[i:j] for i, j in zip(gb, gb[1:])]:
                fails.append(f"{name}: pieces {ps} are not the grapheme clusters")
        elif kind == 104:
            ps = [bytes(e[1:]) for e in items]
            if ps != ref_lines(s):
                fails.append(f"lines gave {ps}, expected {ref_lines(s)}")
        elif kind == 105:
            ps = [bytes(e[1:]) for e in items]
            if pat.join(ps) != s:
                fails.append(f"{name}: pieces {ps} re-joined give {pat.join(ps)!r}")
            if ps != s.split(pat):
                fails.append(f"{name}: pieces {ps}, std split gives {s.split(pat)}")
        elif kind == 106:
            ps = [bytes(e[1:]) for e in items]
            exp = ref_split_with(s, gb, pred)
            if ps != exp:
                # documented difference candidates are reported, see known class below
                if exp and exp[-1] == b"" and ps == exp[:-1]:
                    known.add("C15f")
                else:
                    fails.append(f"{name}: pieces {ps}, expected {exp}")
    return fails, known


def d_ops(case, table):
    """starts_with / ends_with / contains / strip_prefix / strip_suffix per pattern, then repeat 0..2,
    against python's bytes methods"""
    s = bytes(case["s"])
    fails = []
    exp = []
    for p in case["pats"]:
        p = bytes(p)
        exp += [[6, int(s.startswith(p))], [6, int(s.endswith(p))], [6, int(p in s)],
                ([0] + list(s[len(p):])) if s.startswith(p) else [1],
                ([0] + list(s[:len(s) - len(p)])) if s.endswith(p) else [1]]
    exp += [[0] + list(s * n) for n in range(3)]
    names = ["starts_with", "ends_with", "contains", "strip_prefix", "strip_suffix"]
    if len(table) != len(exp):
        return [f"ops table has {len(table)} entries, expected {len(exp)}"]
    for n, (g, e) in enumerate(zip(table, exp)):
        if g != e:
            what = f"{names[n % 5]} {bytes(case['pats'][n // 5])!r}" if n < 5 * len(case["pats"]) else f"repeat {n - 5 * len(case['pats'])}"
            fails.append(f"{what} gave {g}, expected {e}")
    return fails


def ref_trim_start(s, p):
    while p and s.startswith(p):
        s = s[len(p):]
    return s


def ref_trim_end(s, p):
    while p and s.endswith(p):
        s = s[:len(s) - len(p)]
    return s


def d_pat(case, table):
    """trim / trim_start / trim_end / replace / split per pattern against python's own definitions:
    strip leading repetitions, then trailing repetitions of what is left; leftmost non-overlapping replace/split"""
    s = bytes(case["s"])
    text = s.decode("utf-8")
    fails, known = [], set()
    pos = 0
    L = len(s)
    for pl in case["pats"]:
        p = bytes(pl)
        ptxt = p.decode("utf-8")
        exp = [[0] + list(ref_trim_end(ref_trim_start(s, p), p)), [0] + list(ref_trim_start(s, p)), [0] + list(ref_trim_end(s, p))]
        for rl in case["reps"]:
            exp.append([0] + list(text.replace(ptxt, bytes(rl).decode("utf-8")).encode("utf-8")))
        names = ["trim", "trim_start", "trim_end"] + [f"replace(.., {bytes(rl)!r})" for rl in case["reps"]]
        got = table[pos:pos + len(exp)]
        pos += len(exp)
        for nm, g, e in zip(names, got, exp):
            if g != e:
                shown = repr(bytes(g[1:])) if g and g[0] == 0 else repr(g)
                fails.append(f"{text!r}.{nm} with pattern {ptxt!r} gave {shown}, expected {bytes(e[1:])!r}")
        # split group: [5,105], items, [5,fin], hint
        if pos >= len(table) or table[pos] != [5, 105]:
            fails.append(f"pattern table out of step at entry {pos}")
            return fails, known
        pos += 1
        items = []
        fin = None
        while pos < len(table) and not (table[pos][0] == 5 and len(table[pos]) == 2):
            items.append(table[pos])
            pos += 1
        if pos < len(table):
            fin = table[pos][1]
            pos += 1
        if items == [[4]]:
            fails.append(f"{text!r}.split {ptxt!r}: next() panicked")
            continue
        if not fin:
            if p == b"":
                known.add("C15d")
            else:
                fails.append(f"{text!r}.split {ptxt!r}: not finished after {L + 3} calls of next()")
            continue
        hint = table[pos] if pos < len(table) else None
        pos += 1
        if hint == [4]:
            fails.append(f"{text!r}.split {ptxt!r}: size_hint of the exhausted iterator panics")
        ps = [bytes(e[1:]) for e in items]
        if any(e[0] != 0 for e in items) or ps != s.split(p):
            fails.append(f"{text!r}.split {ptxt!r} gave {items if any(e[0] != 0 for e in items) else ps}, expected {s.split(p)}")
    return fails, known


KNOWN["C15g"] = ("C15g a formatted field can have fewer grapheme clusters than the requested width when the fill "
                 "character (or the value) combines with its neighbour, e.g. '{x:\\u{301}<5}' with the fill U+0301 has 1-2 clusters")
KNOWN["C15h"] = ("C15h '\\u{100000041}' (more than 8 hex digits) panics the parser: `code *= 16` overflows a u32 "
                 "(parser.rs escape_string_character); without overflow checks it would wrap and denote 'A'")
KNOWN["C15f"] = ("C15f split with a predicate drops the final empty piece when the last cluster matches "
                 "(\"a,\".split(|c| c == ',') gives (\"a\") while \"a,\".split(\",\") gives (\"a\", \"\")); the empty string gives no "
                 "piece at all")

# ---------------------------------------------------------------------------
# format grid: fill x alignment x width x precision x representation x values

FMT_FILLS = [None, "*", "é", "́", "0"]
FMT_ALIGN = [None, "<", "^", ">"]
FMT_WIDTH = [None, 0, 1, 5, 12]
FMT_PREC = [None, 0, 2]
FMT_REPR = [None, "?", "x", "X", "b", "o", "e", "E"]
FMT_VALUES = [("42", True), ("-7", True), ("-9223372036854775808", True), ("1.5", True), ("'ab'", False), ("'é€'", False),
              ("'á'", False), ("(1, 'x')", False), ("''", False), ("'😀a😀'", False)]


def gen_fmt_cases(tier, seed):
    cases = []
    rng = C.Rng(seed + 77)
    grid = list(itertools.product(FMT_FILLS, FMT_ALIGN, FMT_WIDTH, FMT_PREC, FMT_REPR, range(len(FMT_VALUES))))
    want = 600 if tier == "quick" else len(grid)
    for n, (fill, al, w, prec, rp, vi) in enumerate(grid):
        if not rng.chance(want, len(grid)):
            continue
        if fill is not None and al is None and fill != "0":
            continue       # a fill character needs an alignment
        if fill == "0" and (al is not None or w is None):
            continue
        tail = ("" if prec is None else f".{prec}") + (rp or "")
        head = ("" if fill is None or fill == "0" else fill) + (al or "") + ("0" if fill == "0" else "") + ("" if w is None else str(w))
        full = ":" + head + tail if head + tail else ""
        bare = ":" + tail if tail else ""
        value, is_num = FMT_VALUES[vi]
        cases.append({"kind": "fmt", "origin": "format-grid", "value": value, "full": full, "bare": bare, "fill": fill, "align": al,
                      "width": w, "is_num": is_num})
    return cases


# values whose byte length, code-point count and grapheme count all differ: (koto literal, utf-8 byte length)
WIDE_VALUES = [("'日本語'", 9), ("'é'", 2), ("'e\\u{301}x'", 4), ("'👨‍👩‍👧'", 18), ("'🇩🇪'", 8),
               ("'a\\r\\nb'", 4), ("'한́a'", 6)]
WIDE_FILLS = [None, "*", "é", "́"]


def gen_fmt_wide_cases(tier, seed):
    """value x EVERY width in 0..byte_len+2 x all alignments x fill in {none, ASCII, multi-byte, combining}"""
    cases = []
    for value, blen in WIDE_VALUES:
        for w in range(0, blen + 3):
            for al in FMT_ALIGN:
                for fill in WIDE_FILLS:
                    if fill is not None and al is None:
                        # a fill character needs an alignment; use the zero flag slot for one more default-alignment case
                        if fill != "*":
                            continue
                        full, f2 = f":0{w}", "0"
                    else:
                        full, f2 = ":" + (fill or "") + (al or "") + str(w), fill
                    cases.append({"kind": "fmt", "origin": "format-wide", "value": value, "full": full, "bare": "", "fill": f2,
                                  "align": al, "width": w, "is_num": False})
    return cases


def fmt_expected(c, r):
    """the documented result, from the implementation's own rendering without a width and unicode-segmentation's
    cluster count of it (computed in the harness): fill copies = width - clusters, placed by the alignment"""
    w = c["width"] or 0
    n = max(0, w - r["g_bare"])
    al = c["align"]
    if al == "<" or (al is None and not c["is_num"]):
        l, rr = 0, n
    elif al == ">" or al is None:
        l, rr = n, 0
    else:
        l, rr = n // 2, n - n // 2
    fill = (" " if c["fill"] is None else c["fill"]).encode("utf-8")
    return list(fill * l + bytes(r["bare"]) + fill * rr), n


def d_fmt(c, r):
    """C15's clauses on one formatted field -> (failures, known ids)"""
    fails, known = [], set()
    src = f"x = {c['value']}; '{{x{c['full']}}}'"
    if "panic" in r:
        return [f"{src} panics: {r['panic']}"], known
    if "full" not in r or "bare" not in r:
        if ("full" in r) != ("bare" in r):
            fails.append(f"{src}: only one of the interpolations with / without width is accepted: {r}")
        return fails, known
    w = c["width"] or 0
    if not is_utf8(r["full"]):
        fails.append(f"{src} is not valid UTF-8: {r['full']}")
        return fails, known
    exp, n = fmt_expected(c, r)
    if r["full"] != exp:
        fails.append(f"{src} gave {bytes(r['full'])!r}; with {r['g_bare']} clusters in the value, width {w} needs {n} fill "
                     f"copies around the unchanged value: {bytes(exp)!r}")
    elif r["g_full"] < w:
        # exactly width - clusters(value) copies were added, yet there are fewer clusters: neighbours combined
        known.add("C15g")
    return fails, known


HEX9 = re.compile(r"^u\{[0-9a-fA-F]{9,}")


def d_esc(c, r):
    body = "".join(chr(x) for x in c["body"])
    if "panic" in r:
        if HEX9.match(body):
            return [], {"C15h"}      # narrowly: \u{ followed by more than 8 hex digits
        return [f"the literal '\\{body}' panics the parser: {r['panic']} at {r.get('at')}"], set()
    if r.get("esc", [0])[0] == 3:
        return [f"the literal '\\{body}' evaluates to malformed UTF-8: {r['esc']}"], set()
    return [], set()


# ---- string-literal escape family x line endings -------------------------------------------------------

WS_NOT_LF = set("\t\x0b\x0c\r \x85\xa0\u1680\u2028\u2029\u202f\u205f\u3000") | {chr(c) for c in range(0x2000, 0x200b)}


def ref_decode(body):
    """the documented decoding of a literal's body (python's own definition): returns text, or None for a
    syntax error.  Continuation = backslash, optional CR, LF, then the next line's leading whitespace is skipped;
    a backslash followed by a bare CR is rejected by the lexer."""
    out = []
    i = 0
    n = len(body)
    simple = {"n": "\n", "r": "\r", "t": "\t", "\\": "\\", "'": "'", '"': '"', "{": "{"}
    while i < n:
        c = body[i]
        if c != "\\":
            out.append(c)
            i += 1
            continue
        i += 1
        if i >= n:
            return None
        e = body[i]
        i += 1
        if e in simple:
            out.append(simple[e])
        elif e == "\n" or (e == "\r" and i < n and body[i] == "\n"):
            if e == "\r":
                i += 1
            while i < n and body[i] in WS_NOT_LF:
                i += 1
        elif e == "x":
            h = body[i:i + 2]
            if len(h) < 2 or any(ch not in "0123456789abcdefABCDEF" for ch in h) or int(h, 16) > 0x7f:
                return None
            out.append(chr(int(h, 16)))
            i += 2
        elif e == "u":
            if i >= n or body[i] != "{":
                return None
            j = i + 1
            while j < n and body[j] in "0123456789abcdefABCDEF":
                j += 1
            if j >= n or body[j] != "}" or j - (i + 1) > 8:
                return None
            v = int(body[i + 1:j] or "0", 16)
            if v > 0x10ffff or 0xd800 <= v <= 0xdfff:
                return None
            out.append(chr(v))
            i = j + 1
        else:
            return None
    return "".join(out)


LIT_ESCAPES = ["\\n", "\\r", "\\t", "\\\\", "\\'", '\\"', "\\{", "\\x41", "\\x7f", "\\u{e9}", "\\u{1F600}", "\\$", "\\q"]
LIT_INDENT = ["", " ", "    ", "\t", " \t ", "  \t"]


def gen_lit_cases(tier, seed):
    """escape kinds x quote x line ending (LF / CRLF / mixed) x continuation indentation, also as segments of an
    interpolated string"""
    rng = C.Rng(seed + 31337)
    cases = []

    def add(origin, quote, body, interp, ending):
        # body uses LF; the whole SOURCE is then written with the chosen line ending
        lit = quote + body + quote
        src = ("z = 'Z'\n" if interp else "") + lit + "\n"
        if ending == "crlf":
            src = src.replace("\n", "\r\n")
            body2 = body.replace("\n", "\r\n")
        elif ending == "mixed":
            parts = src.split("\n")
            src = "".join(p + ("\r\n" if i % 2 == 0 else "\n") for i, p in enumerate(parts[:-1])) + parts[-1]
            # recompute the body as it appears in the source
            body2 = src[src.index(quote) + 1:src.rindex(quote)] if not interp else src[src.index(lit[0], src.index("Z'") + 2) + 1:src.rindex(quote)]
        else:
            body2 = body
        cases.append({"kind": "lit", "origin": origin, "src": [ord(ch) for ch in src], "body": body2, "quote": quote,
                      "interp": interp, "ending": ending})

    for quote in ("'", '"'):
        for ending in ("lf", "crlf", "mixed"):
            for interp in (False, True):
                mid = "{z}" if interp else ""
                # each escape kind alone, then followed by a continuation with each indentation
                for e in LIT_ESCAPES:
                    add("literal-escapes", quote, "a" + e + mid + "b", interp, ending)
                for ind in LIT_INDENT:
                    add("literal-continuation", quote, "foo\\\n" + ind + "bar" + mid, interp, ending)
                    add("literal-continuation", quote, "foo" + mid + "\\\n" + ind + "\\\n" + ind + "bar", interp, ending)
                    add("literal-continuation", quote, "a\n" + ind + "b\\\n" + ind + mid + "c\n", interp, ending)
                    e = rng.choice(LIT_ESCAPES[:11])
                    add("literal-continuation", quote, e + "\\\n" + ind + e + mid, interp, ending)
    return cases


def d_lit(c, r):
    """D-clause: the runtime bytes of the literal are the documented decoding of its source text"""
    if "panic" in r:
        return [f"the source {''.join(chr(x) for x in c['src'])!r} panics: {r['panic']} at {r.get('at')}"]
    body = c["body"]
    if c["interp"]:
        segs = body.split("{z}")
        decs = [ref_decode(x) for x in segs]
        exp = None if any(d is None for d in decs) else "Z".join(decs)
    else:
        exp = ref_decode(body)
    expv = [2] if exp is None else [0] + list(exp.encode("utf-8"))
    if r.get("lit") != expv:
        src = "".join(chr(x) for x in c["src"])
        got = repr(bytes(r["lit"][1:])) if r.get("lit", [9])[0] == 0 else repr(r.get("lit"))
        want = repr(exp.encode("utf-8")) if exp is not None else "a syntax error"
        return [f"the {c['ending'].upper()} source {src!r} evaluates to {got}, the literal denotes {want}"]
    return []


def d_fparse(c, r):
    if "panic" in r:
        spec = "".join(chr(x) for x in c["spec"])
        return [f"the format spec {spec!r} panics the parser: {r['panic']} at {r.get('at')}"]
    return []


def fmt_term(c, r):
    al = {None: "ADefault", "<": "ALeft", "^": "ACenter", ">": "ARight"}[c["align"]]
    fill = b(" " if c["fill"] is None else c["fill"])
    return (f"pad {al} {'true' if c['is_num'] else 'false'} {c['width'] or 0} {C.coq_list(fill)} "
            f"{C.coq_list(r['bare'])} {r['g_bare']}")


ESC_HEADS = ["n", "r", "t", "'", '"', "\\", "{", "x", "u", "q", "0", "\n", "\r", "\r\n", "U", "N", " "]
ESC_TAIL = list("09afAFgG {}") + ["\t", "\n", "é", " ", "́", "z"]
SAFE_REST = set("09afAFgGz} \t\né ́")


def gen_esc_cases(tier, seed):
    rng = C.Rng(seed + 4242)
    bodies = set()
    for h in ESC_HEADS:
        bodies.add(h)
        for a in ESC_TAIL:
            bodies.add(h + a)
            for b2 in ESC_TAIL:
                bodies.add(h + a + b2)
    # \xNN: all first digits x a spread of second digits; \u{...}: 0..10 hex digits, boundary values
    for a in "0123456789abcdefABCDEFg":
        for b2 in "07f8Fg":
            bodies.add("x" + a + b2 + "z")
    for hx in ["", "0", "41", "e9", "7f", "80", "7ff", "800", "d7ff", "d800", "dfff", "e000", "ffff", "10000", "1f600", "10ffff",
               "110000", "ffffff", "0000041", "00000041", "ffffffff", "100000041", "0000000041", "fffffffff", "1F600", "g", "4g"]:
        bodies.add("u{" + hx + "}z")
        bodies.add("u{" + hx)
        bodies.add("u{" + hx + "z")
    for _ in range(150 if tier == "quick" else 3000):
        n = rng.below(11)
        bodies.add("u{" + "".join(rng.choice("0123456789abcdefABCDEF") for _ in range(n)) + "}" + rng.choice(["", "z", " "]))
    bodies = sorted(bodies)
    if tier == "quick":
        keep = [x for x in bodies if len(x) <= 2 or x[0] in "xu" or rng.chance(1, 4)]
        bodies = keep
    return [{"kind": "esc", "origin": "escapes", "body": [ord(c) for c in x]} for x in bodies]


def esc_expect(model):
    """model encoding -> (expected implementation result, comparable?)"""
    if model[0] == 0:
        rest = "".join(chr(c) for c in model[2:])
        if not set(rest) <= SAFE_REST:
            return None
        return [0] + list((chr(model[1]) + rest).encode("utf-8"))
    if model[0] == 1:
        rest = "".join(chr(c) for c in model[1:])
        if not set(rest) <= SAFE_REST:
            return None
        return [0] + list(rest.encode("utf-8"))
    return [model[0]]


FP_CHARS = list("<^>0123456789.?boxXeE*_ a") + ["é", "́", "😀", "\t"]


def gen_fparse_cases(tier, seed):
    rng = C.Rng(seed + 99)
    specs = set()
    for fill in ["", "*", "é", "é", "0", "<", "x", "e", "😀", "á́", ".", "?"]:
        for al in ["", "<", "^", ">"]:
            for zero in ["", "0"]:
                for w in ["", "0", "5", "12", "007", "4294967295", "4294967296", "99999999999999999999999"]:
                    for pr in ["", ".0", ".2", ".", ".x", ".4294967296"]:
                        for rp in ["", "?", "x", "X", "b", "o", "e", "E", "z", "xx"]:
                            specs.add(fill + al + zero + w + pr + rp)
    specs = sorted(specs)
    want = 2500 if tier == "quick" else 40000
    pick = [x for x in specs if rng.chance(want, len(specs))]
    for _ in range(600 if tier == "quick" else 20000):
        pick.append("".join(rng.choice(FP_CHARS) for _ in range(1 + rng.below(6))))
    return [{"kind": "fparse", "origin": "format-spec", "spec": [ord(c) for c in x]} for x in pick]


def coq_ll(xs):
    return "[" + "; ".join(C.coq_list(x) for x in xs) + "]"


def str_terms(c, r):
    pre = f"(repeat 120 {c['pad']} ++ {C.coq_list(c['pre'])})" if c["pad"] else C.coq_list(c["pre"])
    args = f"{c['variant']} {pre} {C.coq_list(c['s'])} {C.coq_list(c['post'])}"
    ts = []
    for tab in c["tables"]:
        if tab == "s":
            ts.append(("slice", f"slice_table {args}"))
        elif tab == "u":
            ts.append(("unpack", f"unpack_table {args}"))
        elif tab == "i":
            ts.append(("iter", f"iter_table {args} {C.coq_list(r['gb'])} {coq_ll(c['pats'])}"))
        elif tab == "o":
            ts.append(("ops", f"ops_table {args} {coq_ll(c['pats'])}"))
        elif tab == "p":
            ts.append(("pat", f"pat_table {args} {coq_ll(c['pats'])} {coq_ll(c['reps'])}"))
    return ts


def hash_table(table):
    a = b = 0
    for e in table:
        for x in e:
            a += x + 1
            b += a
        a += 100003
        b += a
    return [a, b]


def norm_model(entry):
    """model tag 3 (unchecked access) with in-buffer bytes that happen to be valid text is observed as a
    plain string on the implementation"""
    return entry


def same_entry(m, i):
    if m == i:
        return True
    if m and i and m[0] == 3 and i[0] == 0 and m[1:] == i[1:] and is_utf8(m[1:]):
        return True
    return False


def run_harness(binp, cases, tag):
    os.makedirs(os.path.join(C.BUILD, "cases"), exist_ok=True)
    cf = os.path.join(C.BUILD, "cases", f"c15-{tag}-{os.getpid()}.jsonl")
    with open(cf, "w") as f:
        for c in cases:
            f.write(json.dumps({k: v for k, v in c.items() if k != "origin"}) + "\n")
    rc, out = C.sh([binp, cf], timeout=3600)
    os.remove(cf)
    lines = [json.loads(l) for l in out.splitlines() if l.startswith("{")]
    if rc != 0 or len(lines) != len(cases):
        return None, out
    return lines, out


def case_text(c):
    return bytes(c["s"]).decode("utf-8")


def run(tier, seed):
    chk = C.Check(PID, tier, seed, "proof")
    # ---- T
    ok, log = C.coq_build(UNIT, ["StrRun.vo"])
    model_ok = ok
    if not ok:
        chk.log("model does not compile:\n" + log[-2000:])
    axioms = []
    if PINNED:
        pr = C.check_props_file(UNIT, "C15Props", PINNED)
        hits = C.forbidden_scan(UNIT)
        if not pr["ok"]:
            chk.log("C15Props does not check:\n" + pr["log"][-2500:])
        for name in PINNED:
            good = pr["ok"] and name not in pr["missing"] and ("Print Assumptions " + name) not in pr["missing"] \
                and not pr["bad_axioms"] and not hits
            chk.oblige("thm:" + name, good)
        if hits:
            chk.log("forbidden constructs: " + "; ".join(hits))
        if pr["bad_axioms"]:
            chk.log("axioms outside the allowlist: " + ", ".join(pr["bad_axioms"]))
        axioms = pr["axioms"]

    # ---- R + D
    binp, blog = C.build_harness("kh_str")
    if not binp:
        chk.log("harness build failed:\n" + blog[-3000:])
        chk.violation("build", {"kind": "obligation", "correspondence": "kh_str does not build against the koto checkout",
                                "log": blog[-3000:]}, no_input=True)
        return chk.finish("n/a")

    cases = gen_str_cases(tier, seed) + gen_pat_cases(tier, seed)
    impl, out = run_harness(binp, cases, "str")
    if impl is None:
        chk.log(f"harness run failed: {out[-1500:]}")
        chk.violation("harness", {"kind": "obligation", "correspondence": "kh_str crashed", "log": out[-2000:]}, no_input=True)
        return chk.finish("n/a")

    dist = {}
    d_fail = []
    skipped = 0
    terms = []
    owners = []
    for i, (c, r) in enumerate(zip(cases, impl)):
        dist[c["origin"]] = dist.get(c["origin"], 0) + 1
        if "skip" in r:
            skipped += 1
            continue
        if "panic" in r:
            d_fail.append((i, [f"harness-level panic: {r['panic']} at {r.get('at')}"]))
            continue
        fails, known = [], set()
        if "slice" in r:
            f, k = d_slice(c, r["slice"])
            fails += f
            known |= k
        if "unpack" in r:
            f, k = d_unpack(c, r["unpack"])
            fails += f
            known |= k
        if "iter" in r:
            f, k = d_iter(c, r["iter"], r["gb"])
            fails += f
            known |= k
        if "ops" in r:
            fails += d_ops(c, r["ops"])
        if "pat" in r:
            f, k = d_pat(c, r["pat"])
            fails += f
            known |= k
        for k in known:
            chk.known(KNOWN[k])
        if fails:
            d_fail.append((i, fails))
        text = case_text(c)
        chk.count_case(json.dumps([c["variant"], c["s"], c["pre"], c["post"]]), len(set(text)) >= 2 and len(c["s"]) > len(text))
        for name, t in str_terms(c, r):
            terms.append(t)
            owners.append((i, name))

    disagreements = []
    if model_ok:
        header = "From KV.str Require Import StrBase StrModel StrRun.\nOpen Scope N_scope.\n"
        try:
            vals = C.coq_eval(UNIT, header, [f"hash_table ({t})" for t in terms], tag="c15", per_shard=110)
        except RuntimeError as e:
            chk.log(str(e)[-3000:])
            vals = None
        if vals is None:
            chk.oblige("corr:model-evaluates", False)
        else:
            bad = [n for n, ((i, name), v) in enumerate(zip(owners, vals)) if v != hash_table(impl[i][name])]
            bad.sort(key=lambda n: (len(cases[owners[n][0]]["s"]), cases[owners[n][0]]["variant"]))
            # re-evaluate (a few of) the mismatching tables in full to name the entry
            full = C.coq_eval(UNIT, header, [terms[n] for n in bad[:8]], tag="c15f", per_shard=1) if bad else []
            for n, v in zip(bad[:8], full):
                i, name = owners[n]
                it = impl[i][name]
                first = next((j for j, (m, x) in enumerate(zip(v, it)) if m != x), min(len(v), len(it)))
                disagreements.append((i, name, first, v[first] if first < len(v) else None,
                                      it[first] if first < len(it) else None))
            for n in bad[8:]:
                disagreements.append((owners[n][0], owners[n][1], -1, None, None))
            chk.oblige("corr:model-vs-koto slicing/unpacking/iterator tables identical", not disagreements,
                       f"{len(disagreements)} disagreements")
    else:
        chk.oblige("corr:model-vs-koto slicing/unpacking/iterator tables identical", False, "model unavailable")

    # ---- format grid: model of the padding in run_string_push vs the real interpolation
    other_fail = []        # (size key, case, failures, implementation's answer) for the non-str case kinds
    other_disagreements = []
    fcases = gen_fmt_cases(tier, seed) + gen_fmt_wide_cases(tier, seed)
    fimpl, fout = run_harness(binp, fcases, "fmt")
    if fimpl is None:
        chk.oblige("corr:format padding model vs koto", False, "harness failed on the format grid")
    else:
        live = [(c, r) for c, r in zip(fcases, fimpl) if "full" in r and "bare" in r]
        for c in fcases:
            dist[c["origin"]] = dist.get(c["origin"], 0) + 1
        dist["format-grid-rejected-spec"] = len(fcases) - len(live)
        for c, r in zip(fcases, fimpl):
            fails, known = d_fmt(c, r)
            for k in known:
                chk.known(KNOWN[k])
            if fails:
                other_fail.append(((c["width"] or 0, len(c["value"])), c, fails, r))
            if "full" in r:
                chk.count_case(json.dumps([c["value"], c["full"]]), (c["width"] or 0) > r.get("g_bare", 0))
        if model_ok and live:
            header = "From KV.str Require Import StrBase FmtModel.\nOpen Scope N_scope.\n"
            try:
                fvals = C.coq_eval(UNIT, header, [fmt_term(c, r) for c, r in live], tag="c15fmt", per_shard=200)
                mism = [(c, r, v) for (c, r), v in zip(live, fvals) if v != r["full"]]
                chk.oblige("corr:format padding model vs koto", not mism, f"{len(mism)} disagreements")
                for c, r, v in mism[:1]:
                    other_disagreements.append(("format", c, v, r["full"]))
                    chk.log(f"format disagreement: x = {c['value']}, '{{x{c['full']}}}': model {bytes(v)!r} impl {bytes(r['full'])!r}")
            except RuntimeError as e:
                chk.log(str(e)[-2000:])
                chk.oblige("corr:format padding model vs koto", False, "model evaluation failed")

    # ---- format-spec parser: model of StringFormatOptions::parse vs the real parser
    pcases = gen_fparse_cases(tier, seed)
    pimpl, pout = run_harness(binp, pcases, "fparse")
    if pimpl is None:
        chk.oblige("corr:format-spec parser model vs koto", False, "harness failed on the format specs")
    else:
        dist["format-spec"] = len(pcases)
        # D (independent of the model): no format spec panics the parser
        for c, r in zip(pcases, pimpl):
            fails = d_fparse(c, r)
            if fails:
                other_fail.append(((len(c["spec"]), 0), c, fails, r))
        pvals = None
        if model_ok:
            header = "From KV.str Require Import StrBase FmtParse.\nOpen Scope N_scope.\n"
            try:
                pvals = C.coq_eval(UNIT, header, [f"enc_pres (parse (fun _ => {r.get('g', 1)}%nat) {C.coq_list(c['spec'])})"
                                                  for c, r in zip(pcases, pimpl)], tag="c15fp", per_shard=400)
            except RuntimeError as e:
                chk.log(str(e)[-2000:])
        if pvals is None:
            chk.oblige("corr:format-spec parser model vs koto", False, "model evaluation failed")
        else:
            mism = []
            lexer_split = 0
            for c, r, m in zip(pcases, pimpl, pvals):
                if "panic" in r:
                    continue
                spec = "".join(chr(x) for x in c["spec"])
                chk.count_case("fparse:" + spec, r["fparse"][0] == 0 and len(spec) >= 2)
                if r["fparse"] == [8]:
                    lexer_split += 1
                    continue
                if r["fparse"] != m:
                    mism.append((c, r["fparse"], m))
            dist["format-spec-not-one-expression"] = lexer_split
            chk.oblige("corr:format-spec parser model vs koto", not mism, f"{len(mism)} disagreements")
            for c, got, m in mism[:1]:
                other_disagreements.append(("format-spec", c, m, got))
                chk.log(f"format-spec disagreement: spec {c['spec']}: model {m}, koto {got}")

    # ---- escape codes: model of escape_string_character vs the real parser
    ecases = gen_esc_cases(tier, seed)
    eimpl, eout = run_harness(binp, ecases, "esc")
    if eimpl is None:
        chk.oblige("corr:escape model vs koto parser", False, "harness failed on the escape cases")
    else:
        dist["escapes"] = len(ecases)
        # D (independent of the model): an escape never panics and never yields malformed text
        for c, r in zip(ecases, eimpl):
            fails, known = d_esc(c, r)
            for k in known:
                chk.known(KNOWN[k])
            if fails:
                other_fail.append(((len(c["body"]), 0), c, fails, r))
        evals = None
        if model_ok:
            header = "From KV.str Require Import StrBase EscModel.\nOpen Scope N_scope.\n"
            try:
                evals = C.coq_eval(UNIT, header, [f"enc_eres (escape {C.coq_list(c['body'])})" for c in ecases], tag="c15esc",
                                   per_shard=300)
            except RuntimeError as e:
                chk.log(str(e)[-2000:])
        if evals is None:
            chk.oblige("corr:escape model vs koto parser", False, "model evaluation failed")
        else:
            mism = []
            for c, r, m in zip(ecases, eimpl, evals):
                got = [4] if "panic" in r else r["esc"]
                body = "".join(chr(x) for x in c["body"])
                chk.count_case("esc:" + body, m[0] in (0, 1))
                exp = esc_expect(m)
                if exp is None or got[0] == 3:
                    continue
                if got == [2] and exp != [2] and (body.startswith("\r") and not body.startswith("\r\n")):
                    continue      # the lexer rejects a bare CR line continuation before the parser sees it
                if got != exp:
                    mism.append((c, got, exp))
            chk.oblige("corr:escape model vs koto parser", not mism, f"{len(mism)} disagreements")
            for c, got, exp in mism[:1]:
                other_disagreements.append(("escape", c, exp, got))
                chk.log(f"escape disagreement: body {c['body']}: model expects {exp}, koto gives {got}")

    # ---- string literals: escape kinds x quotes x line endings (LF / CRLF / mixed) x continuation indentation
    lcases = gen_lit_cases(tier, seed)
    limpl, lout = run_harness(binp, lcases, "lit")
    if limpl is None:
        chk.oblige("corr:literal decoding model vs koto", False, "harness failed on the literal cases")
    else:
        dist["literals"] = len(lcases)
        for c, r in zip(lcases, limpl):
            fails = d_lit(c, r)
            chk.count_case("lit:" + json.dumps(c["src"]), "\\" in c["body"])
            if fails:
                other_fail.append(((len(c["src"]), 0), c, fails, r))
        lvals = None
        plain = [(c, r) for c, r in zip(lcases, limpl) if not c["interp"] and "panic" not in r]
        if model_ok:
            header = "From KV.str Require Import StrBase EscModel.\nOpen Scope N_scope.\n"
            try:
                lvals = C.coq_eval(UNIT, header, [f"enc_decode {C.coq_list([ord(ch) for ch in c['body']])}" for c, r in plain],
                                   tag="c15lit", per_shard=300)
            except RuntimeError as e:
                chk.log(str(e)[-2000:])
        if lvals is None:
            chk.oblige("corr:literal decoding model vs koto", False, "model evaluation failed")
        else:
            mism = []
            for (c, r), m in zip(plain, lvals):
                mexp = [0] + list("".join(chr(x) for x in m[1:]).encode("utf-8")) if m[0] == 0 else [m[0]]
                if r["lit"] != mexp:
                    mism.append((c, r["lit"], mexp))
            chk.oblige("corr:literal decoding model vs koto", not mism, f"{len(mism)} disagreements")
            for c, got, m in mism[:1]:
                other_disagreements.append(("literal", c, m, got))
                chk.log(f"literal disagreement: body {c['body']!r}: model {m}, koto {got}")

    # ---- verdict: a failing clause (or a panic) on ANY case kind is an input violation with that case as replay
    def size_key(x):
        return (len(cases[x[0]]["s"]), cases[x[0]]["variant"])

    all_fail = [((len(cases[i]["s"]), cases[i]["variant"]), cases[i], fails, None) for i, fails in d_fail] + other_fail
    if all_fail:
        all_fail.sort(key=lambda x: (x[0], json.dumps(x[1], sort_keys=True)))
        _, c, fails, r = all_fail[0]
        payload = {"kind": "input", "case": dict(c), "predicate_failed": fails[:10], "others": len(all_fail) - 1,
                   "how_to_rerun": "./check C15 --replay <this file>"}
        if c.get("kind", "str") == "str":
            payload["case_text"] = case_text(c)
        if r is not None:
            payload["impl_says"] = r
        chk.violation("input", payload)
        what = repr(case_text(c)) + f" variant {c['variant']}" if c.get("kind", "str") == "str" else json.dumps(
            {k: v for k, v in c.items() if k in ("kind", "value", "full", "spec", "body", "ending")}, ensure_ascii=False)
        chk.log(f"{len(all_fail)} inputs violate C15 on the implementation; smallest: {what}: {fails[:2]}")
    broken = [o for o in chk.obligations if not o[1]]
    if broken and not all_fail:
        payload = {"kind": "obligation", "broken": [o[0] + (": " + o[2] if o[2] else "") for o in broken]}
        if disagreements:
            disagreements.sort(key=size_key)
            i, name, pos, m, x = disagreements[0]
            c = cases[i]
            payload.update({"smallest_disagreement": {"case": c, "case_text": case_text(c), "table": name, "entry": pos,
                                                      "model_says": m, "impl_says": x},
                            "note": "every clause of C15 holds on the implementation's own output for every explored "
                                    "input, but the output no longer matches the model the theorems are about"})
            chk.log(f"{len(disagreements)} model/impl disagreements; smallest: {case_text(c)!r} variant {c['variant']} "
                    f"table {name} entry {pos}: model {m} impl {x}")
        elif other_disagreements:
            name, c, m, x = other_disagreements[0]
            payload.update({"smallest_disagreement": {"case": c, "table": name, "model_says": m, "impl_says": x}})
        chk.violation("obligation", payload, no_input=True)

    tb = ["Coq 8.16.1 kernel (coqc); vm_compute for evaluating the model",
          "axioms reported by Print Assumptions: " + (", ".join(axioms) if axioms else "none (closed under the global context)"),
          "std::str primitives (is_char_boundary, get, find, trim, replace, repeat) are modelled by their documented "
          "definitions; unicode-segmentation is an oracle (Section variables with the partition hypothesis; a table per "
          "input in the correspondence, inputs whose suffix/prefix segmentation is unstable are dropped)",
          "kh_str (Rust harness) and checks/c15.py (comparison, D-predicates)"]
    return chk.finish(
        rule="strings: committed corpus + exhaustive over {a, é, €, 😀, U+0301, CR, LF, space} up to length k, each as a "
             "whole string and as a slice of a shared buffer (16-bit and large bounds) + seeded random strings; per string: "
             "all with_bounds(a..b), s[n], s[a..b], s[a..=b], s[a..], s[..b], s[..=b] for -1..len+1, 7 unpacking patterns, "
             "bytes/char_indices/chars/reversed chars/lines/split x 9 patterns/split x 6 predicates incl. the exhausted "
             "iterator's size_hint; non-trivial = multi-byte and >= 2 distinct characters",
        explanation="theorems over the models for all strings and offsets; exact model-vs-implementation table equality; "
                    "C15's clauses evaluated on the implementation's results with Python's own definitions",
        trusted_base=tb,
        extra={"distribution": dist, "dropped_by_oracle_check": skipped, "exhaustive": False,
               "model_impl_disagreements": len(disagreements)})


def replay(path, args):
    data = json.load(open(path))
    c = data.get("case") or data.get("smallest_disagreement", {}).get("case")
    if c is None:
        print("replay file names an obligation, not an input:", json.dumps(data.get("broken")))
        return run("quick", data.get("seed", 1))
    binp, blog = C.build_harness("kh_str")
    if c.get("kind") == "lit":
        impl, out = run_harness(binp, [c], "replay")
        r = impl[0] if impl else {"panic": "harness crashed"}
        print(json.dumps(r))
        fails = d_lit(c, r)
        for f in fails:
            print("  " + f)
        if fails:
            print(f"VIOLATION property={PID} replay={path}")
            return 1
        print("no clause of C15 fails on this input")
        return 0
    if c.get("kind") in ("fparse", "esc", "fmt"):
        impl, out = run_harness(binp, [c], "replay")
        r = impl[0] if impl else {"panic": "harness crashed"}
        print(json.dumps(r, ensure_ascii=False))
        fails = d_fparse(c, r) if c["kind"] == "fparse" else d_esc(c, r)[0] if c["kind"] == "esc" else d_fmt(c, r)[0]
        for f in fails:
            print("  " + f)
        if fails:
            print(f"VIOLATION property={PID} replay={path}")
            return 1
        print("no clause of C15 fails on this input")
        return 0
    impl, out = run_harness(binp, [c], "replay")
    if impl is None:
        print(out[-2000:])
        print(f"VIOLATION property={PID} replay={path}")
        return 1
    r = impl[0]
    fails = []
    if "panic" in r:
        fails.append(f"panic: {r['panic']}")
    if "slice" in r:
        fails += d_slice(c, r["slice"])[0]
    if "unpack" in r:
        fails += d_unpack(c, r["unpack"])[0]
    if "iter" in r:
        fails += d_iter(c, r["iter"], r["gb"])[0]
    if "ops" in r:
        fails += d_ops(c, r["ops"])
    if "pat" in r:
        fails += d_pat(c, r["pat"])[0]
    for f in fails[:20]:
        print("  " + f)
    if fails:
        print(f"VIOLATION property={PID} replay={path}")
        return 1
    print("no clause of C15 fails on this input")
    return 0
