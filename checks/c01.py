"""C01  Core evaluation: operators, assignment, containers and control flow.

T  pinned laws of the reference semantics (coq/core/C01Props.v); the compiler
   simulation theorem (coq/comp) and operator-precedence theorems (coq/syn) are
   separate components run from here when present
R  reference semantics (Gallina, vm_compute) vs the real compiler+VM on generated
   programs: canonical result value and printed output
D  metamorphic clauses evaluated on the implementation alone: the same program
   wrapped in a function body / preceded by many live locals / printed with
   minimal parentheses yields the same outcome
"""
import importlib
import json
import os

from vlib import common as C
from checks import coregen as G
from checks import corecheck as K

PID = "C01"
# component checks contributing obligations to this property (registered here once they are complete)
COMPONENTS = ["checks.c01_comp"]
PINNED = ["int_add_wraps", "int_sub_wraps", "int_mul_wraps", "wrap64_range", "wrap64_id", "wrap64_congr",
          "div_always_float", "falsy_only_null_false", "and_short_circuits", "or_short_circuits",
          "chain_stops_at_false", "if_without_else_is_null"]


def mentions(e, x):
    if isinstance(e, tuple):
        if e and e[0] == "id" and e[1] == x:
            return True
        return any(mentions(c, x) for c in e)
    if isinstance(e, list):
        return any(mentions(c, x) for c in e)
    return False


def result_positions(e):
    """sub-expressions that receive the enclosing construct's result register"""
    k = e[0]
    out = [e]
    if k in ("if", "switch"):
        for _, b in e[1]:
            out += result_positions(b)
        if e[2] is not None:
            out += result_positions(e[2])
    elif k == "block" and e[1]:
        out += result_positions(e[1][-1])
    elif k in ("while", "until"):
        out += result_positions(e[2])
    elif k == "loop":
        out += result_positions(e[1])
    elif k == "for":
        out += result_positions(e[3])
    return out


def known_c01a(e):
    """known finding C01a (result-register aliasing): an assignment `x = rhs` whose
    rhs — in a position that receives the assignment's result register — is an
    and/or or a comparison chain with >= 2 operators, or a match/switch/if whose
    branches are such, and that mentions x."""
    if isinstance(e, list):
        return any(known_c01a(c) for c in e)
    if not isinstance(e, tuple) or not e:
        return False
    if e[0] == "assign":
        x, rhs = e[1], e[3]
        for r in result_positions(rhs):
            if r[0] in ("and", "or") and mentions(r, x):
                return True
            if r[0] == "cmp" and len(r[2]) >= 2 and mentions(r, x):
                return True
    return any(known_c01a(c) for c in e if isinstance(c, (tuple, list)))


def wrap_in_function(ast):
    return ("block", [("assign", 9000, None, ("fn", [], None, None, ast)), ("call", ("id", 9000), [])])


def with_extra_locals(ast, n):
    pre = [("assign", 9100 + i, None, ("int", i % 7)) for i in range(n)]
    return ("block", pre + (ast[1] if ast[0] == "block" else [ast]))


def has_fn(e):
    if isinstance(e, tuple):
        return (bool(e) and isinstance(e[0], str) and e[0] in ("fn", "return")) or any(has_fn(c) for c in e)
    if isinstance(e, list):
        return any(has_fn(c) for c in e)
    return False


def load_corpus():
    out = []
    d = os.path.join(C.VERIF, "corpus", PID)
    if os.path.isdir(d):
        for f in sorted(os.listdir(d)):
            if f.endswith(".json"):
                for item in json.load(open(os.path.join(d, f))):
                    out.append(("corpus:" + item.get("name", f), to_tuple(item["ast"])))
    return out


def to_tuple(x):
    """JSON arrays -> AST tuples (lists stay lists where the AST has lists)"""
    if isinstance(x, list):
        if x and isinstance(x[0], str) and x[0].islower() and x[0].isalpha():
            return tuple([x[0]] + [to_tuple(c) for c in x[1:]])
        return [to_tuple(c) for c in x]
    return x


def run(tier, seed):
    chk = C.Check(PID, tier, seed, "proof")
    ok, log = C.coq_build(K.UNIT, ["SemRun.vo"])
    if not ok:
        chk.log("reference semantics does not compile:\n" + log[-2000:])
    pr = C.check_props_file(K.UNIT, "C01Props", PINNED)
    hits = C.forbidden_scan(K.UNIT)
    for name in PINNED:
        good = pr["ok"] and name not in pr["missing"] and ("Print Assumptions " + name) not in pr["missing"] \
            and not pr["bad_axioms"] and not hits
        chk.oblige("thm:" + name, good)
    if not pr["ok"]:
        chk.log("C01Props does not check:\n" + pr["log"][-2000:])

    # components (compiler simulation, precedence) when present
    for modname in COMPONENTS:
        mod = importlib.import_module(modname)
        mod.run_component(chk, tier, seed)

    rng = C.Rng(seed)
    n = 500 if tier == "quick" else 6000
    base = load_corpus()
    for i in range(n):
        g = G.Gen(rng, "core")
        base.append(("gen", g.program(2 + rng.below(6), 1 + rng.below(3))))
    res = K.run_programs(chk, base, "c01")
    if res is None:
        return chk.finish("n/a")

    bad = []
    known_hit = []
    dist = {"value": 0, "thrown": 0, "error": 0, "fuel": 0, "unsupported": 0}
    for r in res:
        kind = r["kind"]
        dist[["value", "thrown", "error", "fuel", "unsupported", "unsupported"][kind]] += 1
        im = r["impl"]
        if im.get("result") == "ECompile" and kind in (0, 1, 2) and not r["origin"].startswith("corpus"):
            # the generator printed something the parser/compiler rejects: not a verdict about koto
            chk.notes.append("generator produced a rejected program: " + im.get("msg", "")[:80]) if len(chk.notes) < 5 else None
            continue
        chk.count_case(r["src"], kind == 0 and r["src"].count("\n") >= 3)
        if not K.agree(kind, r["body"], r["out"], im):
            if known_c01a(r["ast"]):
                known_hit.append(r)
            else:
                bad.append(r)
    if known_hit:
        chk.known("C01a assignment to an already-assigned variable from and/or or a comparison chain that reads the "
                  "variable: `x = y and x` yields y's value (result register written before the operand is read)")

    # metamorphic clauses on the implementation alone
    meta_src = []
    sample = [r for r in res if r["kind"] == 0 and r["impl"].get("result") not in (None, "ECompile")
              and not has_fn(r["ast"])][: (150 if tier == "quick" else 1500)]
    variants = []
    for r in sample:
        variants.append((r, "in-function", wrap_in_function(r["ast"]), False))
        variants.append((r, "60-extra-locals", with_extra_locals(r["ast"], 60), False))
        variants.append((r, "200-extra-locals", with_extra_locals(r["ast"], 200), False))
        variants.append((r, "minimal-parens", r["ast"], True))
    meta_bad = []
    for minimal in (False, True):
        vs = [v for v in variants if v[3] == minimal]
        if not vs:
            continue
        rr = K.run_programs(chk, [(v[1], v[2]) for v in vs], "c01m", minimal_parens=minimal)
        if rr is None:
            continue
        for v, r2 in zip(vs, rr):
            base_r = v[0]
            chk.count_case(r2["src"], True)
            same = (r2["impl"].get("result") == base_r["impl"].get("result")
                    and r2["impl"].get("out") == base_r["impl"].get("out"))
            if not same and not known_c01a(base_r["ast"]):
                meta_bad.append((v[1], base_r, r2))

    if bad:
        bad.sort(key=lambda r: len(r["src"]))
        r = bad[0]
        chk.violation("input", {
            "kind": "input", "program": r["src"], "reference_says": [r["kind"], r["body"], r["out"]],
            "impl_says": r["impl"], "predicate_failed": "result/output differs from the reference semantics",
            "others": len(bad) - 1, "ast": r["ast"]})
        chk.log(f"{len(bad)} programs disagree with the reference semantics; smallest:\n{r['src']}"
                f"reference: {r['kind']} {r['body']} {r['out']!r}\nimpl: {r['impl']}")
    if meta_bad:
        meta_bad.sort(key=lambda t: len(t[2]["src"]))
        what, b, v = meta_bad[0]
        chk.violation("context", {
            "kind": "input", "program": b["src"], "variant": what, "variant_program": v["src"],
            "impl_says_plain": b["impl"], "impl_says_variant": v["impl"],
            "predicate_failed": "the outcome depends on the surrounding code / parenthesisation"})
        chk.log(f"{len(meta_bad)} context variants change the outcome; smallest ({what}):\n{v['src']}")
    broken = [o for o in chk.obligations if not o[1]]
    if broken and not (bad or meta_bad):
        chk.violation("obligation", {"kind": "obligation", "broken": [o[0] + (": " + o[2] if o[2] else "") for o in broken]},
                      no_input=True)
    tb = ["Coq 8.16.1 kernel; vm_compute evaluates the reference interpreter",
          "axioms (Flocq's, via the float operations of Sem): " + ", ".join(pr["axioms"]),
          "checks/coregen.py prints each AST both as Gallina and as Koto text (a printer mismatch shows as a "
          "disagreement on the unchanged tree)",
          "kh_run harness: canonical value rendering, error classes"]
    return chk.finish(
        rule="seeded generator of core programs (arithmetic incl. boundary ints, comparison chains, and/or, (compound) "
             "assignment, lists/tuples/maps/ranges, indexing, if/switch, while/until/for/loop with break/continue values) "
             "+ committed corpus; each also in 4 context variants; non-trivial = terminates with a value and has >= 4 lines",
        explanation="reference semantics vs implementation on generated programs; context-independence and "
                    "precedence as metamorphic clauses on the implementation",
        trusted_base=tb,
        extra={"distribution": dist, "reference_disagreements": len(bad), "context_disagreements": len(meta_bad),
               "known_class_hits": len(known_hit)})


def replay(path, args):
    data = json.load(open(path))
    src = data.get("variant_program") or data.get("program")
    if not src:
        print("replay file names an obligation:", data.get("broken"))
        return run("quick", data.get("seed", 1))
    binp, _ = C.build_harness("kh_run")
    cf = os.path.join(C.BUILD, "cases", "c01-replay.jsonl")
    os.makedirs(os.path.dirname(cf), exist_ok=True)
    with open(cf, "w") as f:
        f.write(json.dumps({"src": src, "limit_ms": 2000}) + "\n")
        if data.get("variant_program"):
            f.write(json.dumps({"src": data["program"], "limit_ms": 2000}) + "\n")
    rc, out = C.sh([binp, cf])
    lines = [json.loads(l) for l in out.splitlines() if l.startswith("{")]
    print(src)
    print("impl:", lines)
    if data.get("variant_program"):
        same = lines[0].get("result") == lines[1].get("result") and lines[0].get("out") == lines[1].get("out")
    else:
        ref = data["reference_says"]
        same = K.agree(ref[0], ref[1], ref[2], lines[0])
    if not same:
        print(f"VIOLATION property={PID} replay={path}")
        return 1
    print("the implementation now agrees")
    return 0
