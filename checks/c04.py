"""C04  Errors unwind to the right handler; finally always runs."""
from checks import corecheck as K, coregen as G

PID = "C04"
PINNED = ["finally_provides_value", "finally_runs_on_uncaught_throw", "finally_runs_on_return",
          "catch_receives_thrown_value", "typed_catch_falls_through", "error_in_catch_still_runs_finally"]

ABRUPT = ("throw", "return", "break", "continue", "call", "index", "neg")


def contains_kind(e, kinds):
    if isinstance(e, tuple):
        return (bool(e) and isinstance(e[0], str) and e[0] in kinds) or any(contains_kind(c, kinds) for c in e)
    if isinstance(e, list):
        return any(contains_kind(c, kinds) for c in e)
    return False


def tries(e):
    if isinstance(e, tuple):
        if e and e[0] == "try":
            yield e
        for c in e:
            yield from tries(c)
    elif isinstance(e, list):
        for c in e:
            yield from tries(c)


def assigns_call_in_try(e):
    for t in tries(e):
        def walk(x):
            if isinstance(x, tuple):
                if x and x[0] == "assign" and isinstance(x[3], tuple) and x[3] and x[3][0] in ("call", "pipe"):
                    return True
                return any(walk(c) for c in x)
            if isinstance(x, list):
                return any(walk(c) for c in x)
            return False
        if walk(t[1]):
            return True
    return False


def fault_in_builder(e):
    """a throw / call / fault inside an interpolated string or a list/tuple literal"""
    if isinstance(e, tuple):
        if e and e[0] in ("interp", "list", "tuple") and contains_kind(list(e[1:]), ("throw", "call", "index")):
            return True
        return any(fault_in_builder(c) for c in e)
    if isinstance(e, list):
        return any(fault_in_builder(c) for c in e)
    return False


def known(r):
    k = known_a(r)
    if k:
        return k
    if r["impl"].get("result", "").replace("n", "") != r["body"].replace("n", "") or True:
        if assigns_call_in_try(r["ast"]) and r["kind"] == 0 and r["impl"].get("out") == r["out"]:
            return ("C04c `v = f()` inside try where f throws: the already-assigned variable v is null afterwards "
                    "(the call's result register is the variable's own register)")
    if fault_in_builder(r["ast"]) and list(tries(r["ast"])):
        return ("C07b an error raised while a string/sequence is under construction and then caught leaves the "
                "builder behind: `\"a{g()}b\"` with g catching its own interpolation error evaluates to `cb`")
    return None


def known_a(r):
    """C04a: a try with a finally block whose catch block can itself fail, or whose try/catch
    block is left by return/break/continue; symptom: a finally marker (4xxx/56xx) missing"""
    for t in tries(r["ast"]):
        if t[3] is None:
            continue
        abrupt_in_catch = any(contains_kind(cb, ABRUPT) or contains_kind(cb, ("bin",)) for _, _, cb in t[2])
        jumps = contains_kind(t[1], ("return", "break", "continue")) or \
            any(contains_kind(cb, ("return", "break", "continue")) for _, _, cb in t[2])
        if abrupt_in_catch or jumps:
            ref_out = r["out"]
            impl_out = r["impl"].get("out", "")
            if len(impl_out) < len(ref_out) or r["impl"].get("result") != None:
                return ("C04a finally is skipped when the catch block itself raises, or when return/break/continue "
                        "leaves the try or catch block")
    return None


def error_paths(chk, tier):
    """D-family independent of the reference interpreter: a fault (throw / bad index / type
    mismatch / failed assert / wrong argument count / failed access) raised at a site reached
    through plain calls, overloaded operators and protocols (@+ ... @^, @r+, @<, @==, @negate,
    @index, @call, @display, @size, @next), iterator-adaptor callbacks (each/keep/fold/sort) and
    generator bodies, under try/catch/finally shapes whose printed markers have exactly one
    documented order."""
    import json, os
    from vlib import common as C
    from checks import c04_paths as P
    cases = list(P.cases())
    if tier == "quick":
        cases = cases            # 576 scripts: cheap enough to run all
    binp, blog = C.build_harness("kh_run")
    if not binp:
        return
    cf = os.path.join(C.BUILD, "cases", f"c04p-{os.getpid()}.jsonl")
    os.makedirs(os.path.dirname(cf), exist_ok=True)
    with open(cf, "w") as f:
        for c in cases:
            f.write(json.dumps({"src": c["src"], "limit_ms": 3000}) + "\n")
    rc, out = C.sh([binp, cf], timeout=1800)
    os.remove(cf)
    outs = [json.loads(l) for l in out.splitlines() if l.startswith("{")]
    if rc != 0 or len(outs) != len(cases):
        chk.violation("harness", {"kind": "obligation", "correspondence": "kh_run crashed on the error-path family",
                                  "log": out[-1500:]}, no_input=True)
        return
    bad = []
    for c, o in zip(cases, outs):
        chk.count_case(c["src"], True)
        if "panic" in o or o.get("out") != c["expect_out"] or o.get("result") != "n":
            bad.append((c, o))
    chk.coverage["error_path_cases"] = len(cases)
    chk.coverage["error_path_failures"] = len(bad)
    if bad:
        bad.sort(key=lambda t: len(t[0]["src"]))
        c, o = bad[0]
        chk.violation("errorpath", {"kind": "input", "program": c["src"], "case": c["name"],
                                    "expected_output": c["expect_out"], "impl_says": o,
                                    "predicate_failed": "the error did not reach the innermost enclosing catch / finally "
                                                        "did not run exactly once / execution did not continue after the handler",
                                    "others": [b[0]["name"] for b in bad[1:20]]})
        chk.log(f"{len(bad)} error-path cases fail; smallest: {c['name']}\n{c['src']}impl: {o}")


def run(tier, seed):
    return K.run_profile(PID, "C04Props", PINNED, G.TryGen, "try", known,
                         "seeded generator: faults (throw of strings, type mismatch, bad index, non-negatable operand) "
                         "planted under nestings of try / typed catch / catch / finally up to depth 3, inside called "
                         "functions and functions whose body is a try, with print markers before and after each region and "
                         "container mutations around the throw point; non-trivial = >= 4 lines with a verdict",
                         500, 8000, tier, seed, size=(1, 3), extra=error_paths)


def replay(path, args):
    import json, os
    from vlib import common as C
    data = json.load(open(path))
    if "expected_output" in data:
        binp, _ = C.build_harness("kh_run")
        cf = os.path.join(C.BUILD, "cases", "c04-replay.jsonl")
        os.makedirs(os.path.dirname(cf), exist_ok=True)
        open(cf, "w").write(json.dumps({"src": data["program"], "limit_ms": 3000}) + "\n")
        rc, out = C.sh([binp, cf])
        o = json.loads([l for l in out.splitlines() if l.startswith("{")][0])
        print(data["program"])
        print("impl:", o)
        if "panic" in o or o.get("out") != data["expected_output"] or o.get("result") != "n":
            print(f"VIOLATION property={PID} replay={path}")
            return 1
        print("the implementation now behaves as documented")
        return 0
    r = K.replay_program(PID, path)
    return run("quick", 1) if r is None else r
