"""C04  Errors unwind to the right handler; finally always runs."""
from checks import corecheck as K, coregen as G

PID = "C04"
PINNED = ["finally_provides_value", "finally_runs_on_uncaught_throw", "finally_runs_on_return",
          "catch_receives_thrown_value", "typed_catch_falls_through", "error_in_catch_still_runs_finally"]

ABRUPT = ("throw", "return", "break", "continue", "call", "index", "neg")


def contains_kind(e, kinds):
    if isinstance(e, tuple):
        return (bool(e) and isinstance(e[0], str) and e[0] in kinds) or any(contains_kind(c, kinds) for c in e)
    if isinstance(e, list):
        return any(contains_kind(c, kinds) for c in e)
    return False


def tries(e):
    if isinstance(e, tuple):
        if e and e[0] == "try":
            yield e
        for c in e:
            yield from tries(c)
    elif isinstance(e, list):
        for c in e:
            yield from tries(c)


def assigns_call_in_try(e):
    for t in tries(e):
        def walk(x):
            if isinstance(x, tuple):
                if x and x[0] == "assign" and isinstance(x[3], tuple) and x[3] and x[3][0] in ("call", "pipe"):
                    return True
                return any(walk(c) for c in x)
            if isinstance(x, list):
                return any(walk(c) for c in x)
            return False
        if walk(t[1]):
            return True
    return False


def fault_in_builder(e):
    """a throw / call / fault inside an interpolated string or a list/tuple literal"""
    if isinstance(e, tuple):
        if e and e[0] in ("interp", "list", "tuple") and contains_kind(list(e[1:]), ("throw", "call", "index")):
            return True
        return any(fault_in_builder(c) for c in e)
    if isinstance(e, list):
        return any(fault_in_builder(c) for c in e)
    return False


def known(r):
    k = known_a(r)
    if k:
        return k
    if r["impl"].get("result", "").replace("n", "") != r["body"].replace("n", "") or True:
        if assigns_call_in_try(r["ast"]) and r["kind"] == 0 and r["impl"].get("out") == r["out"]:
            return ("C04c `v = f()` inside try where f throws: the already-assigned variable v is null afterwards "
                    "(the call's result register is the variable's own register)")
    if fault_in_builder(r["ast"]) and list(tries(r["ast"])):
        return ("C07b an error raised while a string/sequence is under construction and then caught leaves the "
                "builder behind: `\"a{g()}b\"` with g catching its own interpolation error evaluates to `cb`")
    return None


def known_a(r):
    """C04a: a try with a finally block whose catch block can itself fail, or whose try/catch
    block is left by return/break/continue; symptom: a finally marker (4xxx/56xx) missing"""
    for t in tries(r["ast"]):
        if t[3] is None:
            continue
        abrupt_in_catch = any(contains_kind(cb, ABRUPT) or contains_kind(cb, ("bin",)) for _, _, cb in t[2])
        jumps = contains_kind(t[1], ("return", "break", "continue")) or \
            any(contains_kind(cb, ("return", "break", "continue")) for _, _, cb in t[2])
        if abrupt_in_catch or jumps:
            ref_out = r["out"]
            impl_out = r["impl"].get("out", "")
            if len(impl_out) < len(ref_out) or r["impl"].get("result") != None:
                return ("C04a finally is skipped when the catch block itself raises, or when return/break/continue "
                        "leaves the try or catch block")
    return None


def run(tier, seed):
    return K.run_profile(PID, "C04Props", PINNED, G.TryGen, "try", known,
                         "seeded generator: faults (throw of strings, type mismatch, bad index, non-negatable operand) "
                         "planted under nestings of try / typed catch / catch / finally up to depth 3, inside called "
                         "functions and functions whose body is a try, with print markers before and after each region and "
                         "container mutations around the throw point; non-trivial = >= 4 lines with a verdict",
                         500, 8000, tier, seed, size=(1, 3))


def replay(path, args):
    r = K.replay_program(PID, path)
    return run("quick", 1) if r is None else r
