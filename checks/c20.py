"""C20  Data interchange round-trips.

T  theorems in coq/serde/C20Props.v about the impl-shaped model of crates/serde (all value trees, all
   data-model trees, all types of the modelled universe); the text crates are Section variables
R  correspondence: model (vm_compute) vs the real crates: SerializableKValue / KValueVisitor through a
   recording serializer / tree deserializer, to_koto_value / from_koto_value on a family of derived Rust
   types, json|yaml|toml to_string/from_string inside koto scripts and through the Rust API, the assumed
   codec contract (print then parse = identity up to integer width), Rust `as` casts
D  the property's clauses on the implementation's own output: first round trip = normal form, second round
   trip = identity, typed data unchanged, never a panic
"""
import json
import os
import struct
import time

from vlib import common as C

PID = "C20"
UNIT = "serde"

PINNED = [
    "kv_roundtrip", "normal_idem", "second_roundtrip", "text_roundtrip", "text_second_roundtrip",
    "class_normal_form", "typed_roundtrip", "de_total", "from_koto_total", "to_koto_total", "ser_total",
    "key_equality_numbers", "typed_u64_refuted", "typed_some_none_refuted", "typed_struct_key_refuted", "de_range_error_refuted",
]

KNOWN = {
    "C20a": "C20a to_koto_value rejects u64 / i128 / u128 values beyond the i64 range (e.g. u64::MAX): such Rust data "
            "does not round-trip",
    "C20b": "C20b Some(x) where x converts to null (Some(None), Some(()), Some(UnitStruct)) comes back as None",
    "C20c": "C20c a Rust map whose keys convert to a koto map / list (struct keys) is rejected by to_koto_value",
    "C20d": "C20d from_koto_value saturates an out-of-range number into a narrower integer type (300 -> u8 255, "
            "1.5 -> 1) instead of reporting an error (Error::OutOfU8RangeNumber / OutOfI64RangeNumber are dead code)",
}

FMTS = ["json", "yaml", "toml"]
KINDS = ["i8", "i16", "i32", "i64", "i128", "u8", "u16", "u32", "u64", "u128"]
KIND_RANGE = {"i8": (-2**7, 2**7 - 1), "i16": (-2**15, 2**15 - 1), "i32": (-2**31, 2**31 - 1),
              "i64": (-2**63, 2**63 - 1), "i128": (-2**127, 2**127 - 1), "u8": (0, 2**8 - 1),
              "u16": (0, 2**16 - 1), "u32": (0, 2**32 - 1), "u64": (0, 2**64 - 1), "u128": (0, 2**127 - 1)}
I64 = (-2**63, 2**63 - 1)


def fbits(x):
    return struct.unpack("<Q", struct.pack("<d", x))[0]


def f32bits(x):
    return struct.unpack("<I", struct.pack("<f", x))[0]


# ------------------------------------------------------------------------------------------------
# pools

STR_POOL = ["", "a", "key", "5", "true", "null", "~", "1.0", "-", "- a", "a: b", "# x", " lead", "trail ", "q\"s",
            "back\\slash", "new\nline", "tab\t", "\r", "\r\n", "\x00", "\x1b", "\x7f", "é", "한", "😀", "'", "''",
            "'''", '"""', "{", "}", "[", "]", "a.b", "a b", "\u2028", "\ufeff", "\u0085", "x" * 300, "0x10", ".inf",
            ".nan", "1e5", "y", "no", "=", "\\u0041", "\\n", "\\", "|", ">", "&a", "*a", "!t", "%", "@", "`", ",",
            "?", ": ", "a\n  b", "\n", "a\n", "\n\n", " ", "  ", "\t", "-1", "+1", "0o7", "1_000", "2001-01-01",
            "a\u0301", "\U0010ffff", "\ud7ff", "\ue000", "line1\nline2\n", "trailing\\", "a'b\"c", "\x08\x0c"]
TRICKY_CPS = [0, 1, 9, 10, 13, 27, 32, 34, 35, 39, 44, 45, 46, 48, 58, 61, 91, 92, 93, 96, 97, 123, 125, 126, 127,
              0x85, 0xA0, 0xE9, 0x2028, 0x2029, 0xD55C, 0xFEFF, 0xFFFD, 0x1F600, 0x10FFFF]
INT_POOL = [0, 1, -1, 5, 7, 127, 128, 255, 256, -128, -129, 65535, 2**31 - 1, 2**31, -2**31, 2**32, 2**53, 2**53 + 1,
            -2**53 - 1, 2**63 - 1, -2**63, 2**63 - 2, -2**63 + 1, 10**18, -10**18, 1234567890123456789]
FLOAT_POOL = [fbits(x) for x in [0.0, -0.0, 1.0, -1.5, 0.1, 0.5, 1e308, 1.7976931348623157e308, 5e-324, 2.2250738585072014e-308,
                                 2.225073858507201e-308, 1e21, 1e22, 1e-7, 1.5e-7, 123456789.125, 2.0**53, 2.0**63, -2.0**63,
                                 1e15, 1e16, 1e17, 3.141592653589793, -1e-300, 1e300, 0.30000000000000004, 9007199254740993.0,
                                 4.35, 1e23, 100.0, -7.0]]
NONFINITE = [0x7FF0000000000000, 0xFFF0000000000000, 0x7FF8000000000000]
KEYF_POOL = [fbits(x) for x in [0.5, -2.25, 1.5e-7, 1e21, 1e300]]


def cps(s):
    return [ord(c) for c in s]


def gen_str(rng):
    r = rng.below(10)
    if r < 6:
        return cps(rng.choice(STR_POOL))
    if r < 9:
        return [rng.choice(TRICKY_CPS) for _ in range(rng.below(7))]
    out = []
    for _ in range(rng.below(12)):
        c = rng.below(0x110000)
        if 0xD800 <= c < 0xE000:
            c = 0x41
        out.append(c)
    return out


def gen_int(rng):
    r = rng.below(10)
    if r < 5:
        return rng.choice(INT_POOL)
    if r < 8:
        return rng.below(2000) - 1000
    return rng.next() - 2**63


def gen_float_bits(rng, finite=True):
    r = rng.below(10)
    if r < 6:
        return rng.choice(FLOAT_POOL)
    if not finite and r == 6:
        return rng.choice(NONFINITE)
    while True:
        b = rng.next()
        if ((b >> 52) & 0x7FF) != 0x7FF:
            return b


# ------------------------------------------------------------------------------------------------
# koto value trees (kv JSON as understood by kh_serde)

def gen_kv(rng, depth, prof):
    """prof: dict(null, nonfinite, weird_keys, lists, unser)"""
    r = rng.below(100)
    if depth <= 0 or r < 45:
        k = rng.below(10)
        if k < 1 and prof.get("null", True):
            return ["n"]
        if k < 2:
            return ["b", bool(rng.below(2))]
        if k < 5:
            return ["i", gen_int(rng)]
        if k < 7:
            return ["d", gen_float_bits(rng, not prof.get("nonfinite"))]
        if k == 9 and prof.get("unser") and rng.below(4) == 0:
            return ["R"]
        return ["s", gen_str(rng)]
    if r < 72:
        n = rng.below(4)
        tag = "L" if prof.get("lists", True) and rng.below(2) else "T"
        return [tag, [gen_kv(rng, depth - 1, prof) for _ in range(n)]]
    return gen_map(rng, depth, prof)


def gen_key(rng, prof, depth=1):
    if prof.get("weird_keys") and rng.below(3) == 0:
        k = rng.below(6)
        if k == 0:
            return ["n"]
        if k == 1:
            return ["b", bool(rng.below(2))]
        if k == 2:
            return ["i", gen_int(rng)]
        if k == 3:
            return ["d", rng.choice(KEYF_POOL)]
        if k == 4 and depth > 0:
            return ["T", [gen_key(rng, prof, depth - 1) for _ in range(rng.below(3))]]
    return ["s", gen_str(rng)]


def gen_map(rng, depth, prof):
    n = rng.below(4)
    es = []
    seen = set()
    for _ in range(n):
        k = gen_key(rng, prof)
        kk = json.dumps(k)
        if kk in seen:          # an IndexMap cannot hold the same key twice
            continue
        seen.add(kk)
        es.append([k, gen_kv(rng, depth - 1, prof)])
    return ["M", es]


def kv_in_class(v, fmt, top=True):
    """the property's class, decided on the input alone (independent of the Coq model):
    null/bool/number(finite)/string/list/tuple/string-keyed maps; TOML: no null, a map at the top.
    (distinct display strings hold automatically for string keys of one map)"""
    t = v[0]
    if fmt == "toml" and top and t != "M":
        return False
    if t == "n":
        return fmt != "toml"
    if t in ("b", "i", "s"):
        return True
    if t == "d":
        return ((v[1] >> 52) & 0x7FF) != 0x7FF
    if t in ("L", "T"):
        return all(kv_in_class(x, fmt, False) for x in v[1])
    if t == "M":
        return all(k[0] == "s" and kv_in_class(x, fmt, False) for k, x in v[1])
    return False


def unordered(v):
    """koto's own map equality ignores the order of entries"""
    if isinstance(v, list) and v:
        if v[0] == "M":
            return ["M", sorted(([unordered(k), unordered(x)] for k, x in v[1]), key=json.dumps)]
        if v[0] in ("L", "T"):
            return [v[0], [unordered(x) for x in v[1]]]
    return v


def same_value(a, b):
    return a is not None and b is not None and unordered(a) == unordered(b)


def same_up_to_ulp(a, b):
    a, b = unordered(a), unordered(b)
    return _ulp(a, b)


def _ulp(a, b):
    """equal trees, except that float leaves may differ by one unit in the last place"""
    if isinstance(a, list) and isinstance(b, list):
        if len(a) == 2 and len(b) == 2 and a[0] == "d" and b[0] == "d":
            return abs(a[1] - b[1]) <= 1
        return len(a) == len(b) and all(_ulp(x, y) for x, y in zip(a, b))
    return a == b


def toml_tables_last(v):
    """TOML's printer writes plain values before tables; order-preserving only when they already are"""
    t = v[0]
    if t in ("L", "T"):
        return all(toml_tables_last(x) for x in v[1])
    if t == "M":
        seen = False
        for _, x in v[1]:
            tab = x[0] == "M" or (x[0] in ("L", "T") and x[1] and all(e[0] == "M" for e in x[1]))
            if tab:
                seen = True
            elif seen:
                return False
        return all(toml_tables_last(x) for _, x in v[1])
    return True


def py_normal(v):
    """normal form on the property's class: sequences become tuples"""
    t = v[0]
    if t in ("L", "T"):
        return ["T", [py_normal(x) for x in v[1]]]
    if t == "M":
        return ["M", [[k, py_normal(x)] for k, x in v[1]]]
    return v


# ------------------------------------------------------------------------------------------------
# Coq terms

def zt(n):
    return str(n) if n >= 0 else f"({n})"


def zlist(xs):
    return "[" + "; ".join(zt(int(x)) for x in xs) + "]"


def name_cps(s):
    return zlist(cps(s))


def kv_term(v):
    t = v[0]
    if t == "n":
        return "KNull"
    if t == "b":
        return "(KBool true)" if v[1] else "(KBool false)"
    if t == "i":
        return f"(KNum (NI {zt(v[1])}))"
    if t == "d":
        return f"(KNum (NF {v[1]}))"
    if t == "s":
        return f"(KStr {zlist(v[1])})"
    if t in ("L", "T"):
        return f"({'KList' if t == 'L' else 'KTuple'} [" + "; ".join(kv_term(x) for x in v[1]) + "])"
    if t == "M":
        return "(KMap [" + "; ".join(f"({kv_term(k)}, {kv_term(x)})" for k, x in v[1]) + "])"
    if t == "R":
        return "KRange"
    raise ValueError(t)


def dm_term(d):
    t = d[0]
    l = lambda xs: "[" + "; ".join(dm_term(x) for x in xs) + "]"
    f = lambda xs: "[" + "; ".join(f"({name_cps(n)}, {dm_term(x)})" for n, x in xs) + "]"
    if t == "unit":
        return "DUnit"
    if t == "bool":
        return "(DBool true)" if d[1] else "(DBool false)"
    if t == "int":
        return f"(DInt {d[1].upper()} {zt(int(d[2]))})"
    if t == "f32":
        return f"(DF32 {d[1]})"
    if t == "f64":
        return f"(DF64 {d[1]})"
    if t == "char":
        return f"(DChar {d[1]})"
    if t == "str":
        return f"(DStr {zlist(d[1])})"
    if t == "bytes":
        return f"(DBytes {zlist(d[1])})"
    if t == "none":
        return "DNone"
    if t == "some":
        return f"(DSome {dm_term(d[1])})"
    if t == "ustruct":
        return "DUStruct"
    if t == "nstruct":
        return f"(DNStruct {dm_term(d[1])})"
    if t == "seq":
        return f"(DSeq {l(d[1])})"
    if t == "tuple":
        return f"(DTuple {l(d[1])})"
    if t == "tstruct":
        return f"(DTStruct {l(d[1])})"
    if t == "map":
        return "(DMap [" + "; ".join(f"({dm_term(k)}, {dm_term(x)})" for k, x in d[1]) + "])"
    if t == "struct":
        return f"(DStruct {f(d[1])})"
    if t == "uvar":
        return f"(DUVar {name_cps(d[1])})"
    if t == "nvar":
        return f"(DNVar {name_cps(d[1])} {dm_term(d[2])})"
    if t == "tvar":
        return f"(DTVar {name_cps(d[1])} {l(d[2])})"
    if t == "svar":
        return f"(DSVar {name_cps(d[1])} {f(d[2])})"
    raise ValueError(t)


VK = {"unit": "VKUnit", "newtype": "VKNewtype", "tuple": "VKTuple", "struct": "VKStruct"}


def ty_term(t):
    k = t[0]
    simple = {"unit": "TUnit", "bool": "TBool", "f32": "TF32", "f64": "TF64", "char": "TChar", "string": "TString",
              "ustruct": "TUStruct"}
    if k in simple:
        return simple[k]
    if k == "int":
        return f"(TInt {t[1].upper()})"
    if k == "option":
        return f"(TOption {ty_term(t[1])})"
    if k == "vec":
        return f"(TVec {ty_term(t[1])})"
    if k == "tuple":
        return "(TTuple [" + "; ".join(ty_term(x) for x in t[1]) + "])"
    if k == "tstruct":
        return "(TTStruct [" + "; ".join(ty_term(x) for x in t[1]) + "])"
    if k == "nstruct":
        return f"(TNStruct {ty_term(t[1])})"
    if k == "map":
        return f"(TMap {ty_term(t[1])} {ty_term(t[2])})"
    if k == "struct":
        return "(TStruct [" + "; ".join(f"({name_cps(n)}, {ty_term(x)})" for n, x in t[1]) + "])"
    if k == "enum":
        return "(TEnum [" + "; ".join(f"({name_cps(n)}, ({VK[kind]}, {ty_term(x)}))" for n, kind, x in t[1]) + "])"
    raise ValueError(k)


def ty_definitions(types):
    """Coq definitions ty_<Name> for the registered Rust types; repeated sub-descriptors (the unfolded
    recursive enum) are defined once and referred to by name"""
    memo = {}
    out = []

    def go(t):
        k = t[0]
        if k in ("struct", "enum"):
            key = json.dumps(t)
            if key in memo:
                return memo[key]
            if k == "struct":
                body = "(TStruct [" + "; ".join(f"({name_cps(n)}, {go(x)})" for n, x in t[1]) + "])"
            else:
                body = "(TEnum [" + "; ".join(f"({name_cps(n)}, ({VK[kind]}, {go(x)}))" for n, kind, x in t[1]) + "])"
            name = f"tyd_{len(memo)}"
            memo[key] = name
            out.append(f"Definition {name} : ty := {body}.")
            return name
        if k == "option":
            return f"(TOption {go(t[1])})"
        if k == "vec":
            return f"(TVec {go(t[1])})"
        if k == "tuple":
            return "(TTuple [" + "; ".join(go(x) for x in t[1]) + "])"
        if k == "tstruct":
            return "(TTStruct [" + "; ".join(go(x) for x in t[1]) + "])"
        if k == "nstruct":
            return f"(TNStruct {go(t[1])})"
        if k == "map":
            return f"(TMap {go(t[1])} {go(t[2])})"
        return ty_term(t)

    for n, t in types:
        out.append(f"Definition ty_{n} : ty := {go(t)}.")
    return "\n".join(out) + "\n"


# ------------------------------------------------------------------------------------------------
# decoding the model's flat encodings

class Dec:
    def __init__(self, xs):
        self.xs = xs
        self.i = 0

    def take(self):
        x = self.xs[self.i]
        self.i += 1
        return x

    def s(self):
        n = self.take()
        return [self.take() for _ in range(n)]

    def name(self):
        return "".join(chr(c) for c in self.s())

    def kv(self):
        t = self.take()
        if t == 0:
            return ["n"]
        if t == 1:
            return ["b", bool(self.take())]
        if t == 2:
            return ["i", self.take()]
        if t == 3:
            return ["d", self.take()]
        if t == 4:
            return ["s", self.s()]
        if t in (5, 6):
            n = self.take()
            return ["L" if t == 5 else "T", [self.kv() for _ in range(n)]]
        if t == 7:
            n = self.take()
            return ["M", [[self.kv(), self.kv()] for _ in range(n)]]
        return ["R"]

    def dm(self):
        t = self.take()
        if t == 0:
            return ["unit"]
        if t == 1:
            return ["bool", bool(self.take())]
        if t == 2:
            k = KINDS[self.take()]
            return ["int", k, str(self.take())]
        if t == 3:
            return ["f32", self.take()]
        if t == 4:
            return ["f64", self.take()]
        if t == 5:
            return ["char", self.take()]
        if t == 6:
            return ["str", self.s()]
        if t == 7:
            return ["bytes", self.s()]
        if t == 8:
            return ["none"]
        if t == 9:
            return ["some", self.dm()]
        if t == 10:
            return ["ustruct"]
        if t == 11:
            return ["nstruct", self.dm()]
        if t in (12, 13, 14):
            n = self.take()
            return [{12: "seq", 13: "tuple", 14: "tstruct"}[t], [self.dm() for _ in range(n)]]
        if t == 15:
            n = self.take()
            return ["map", [[self.dm(), self.dm()] for _ in range(n)]]
        if t == 16:
            n = self.take()
            return ["struct", [[self.name(), self.dm()] for _ in range(n)]]
        if t == 17:
            return ["uvar", self.name()]
        if t == 18:
            return ["nvar", self.name(), self.dm()]
        if t == 19:
            nm = self.name()
            n = self.take()
            return ["tvar", nm, [self.dm() for _ in range(n)]]
        if t == 20:
            nm = self.name()
            n = self.take()
            return ["svar", nm, [[self.name(), self.dm()] for _ in range(n)]]
        raise ValueError(t)


def dec_res(xs, what):
    """-> ('ok', tree) | ('err', None) | ('panic', None)"""
    if xs[0] == 0:
        return ("err", None)
    if xs[0] == 2:
        return ("panic", None)
    d = Dec(xs[1:])
    return ("ok", d.kv() if what == "kv" else d.dm())


def impl_res(x):
    return ("err", None) if x is None else ("ok", x)


def canon_dm(d):
    """map entries: last wins, sorted (Rust map types do that themselves)"""
    if not isinstance(d, list) or not d:
        return d
    t = d[0]
    if t in ("some", "nstruct"):
        return [t, canon_dm(d[1])]
    if t in ("seq", "tuple", "tstruct"):
        return [t, [canon_dm(x) for x in d[1]]]
    if t == "map":
        m = {}
        for k, x in d[1]:
            m[json.dumps(canon_dm(k))] = canon_dm(x)
        return ["map", [[json.loads(k), m[k]] for k in sorted(m)]]
    if t == "struct":
        return [t, [[n, canon_dm(x)] for n, x in d[1]]]
    if t == "nvar":
        return [t, d[1], canon_dm(d[2])]
    if t == "tvar":
        return [t, d[1], [canon_dm(x) for x in d[2]]]
    if t == "svar":
        return [t, d[1], [[n, canon_dm(x)] for n, x in d[2]]]
    return d


def dm_same_up_to_ulp(a, b):
    if isinstance(a, list) and isinstance(b, list):
        if len(a) == 2 and len(b) == 2 and a[0] == "f64" and b[0] == "f64":
            return abs(a[1] - b[1]) <= 1
        return len(a) == len(b) and all(dm_same_up_to_ulp(x, y) for x, y in zip(a, b))
    return a == b


def erase_ints(d):
    if not isinstance(d, list) or not d:
        return d
    if d[0] == "int":
        return ["int", "i64", d[2]]
    return [d[0]] + [erase_any(x) for x in d[1:]]


def erase_any(x):
    if isinstance(x, list):
        if x and isinstance(x[0], str) and x[0] in DM_TAGS:
            return erase_ints(x)
        return [erase_any(y) for y in x]
    return x


DM_TAGS = {"unit", "bool", "int", "f32", "f64", "char", "str", "bytes", "none", "some", "ustruct", "nstruct", "seq",
           "tuple", "tstruct", "map", "struct", "uvar", "nvar", "tvar", "svar"}


# ------------------------------------------------------------------------------------------------
# data-model trees

def gen_dm(rng, depth):
    r = rng.below(100)
    if depth <= 0 or r < 40:
        k = rng.below(14)
        if k == 0:
            return ["unit"]
        if k == 1:
            return ["bool", bool(rng.below(2))]
        if k in (2, 3, 4):
            kind = rng.choice(KINDS)
            lo, hi = KIND_RANGE[kind]
            z = rng.choice([lo, hi, 0, 1, lo + 1, hi - 1, 2**63 - 1, 2**63, -2**63, -2**63 - 1, gen_int(rng)])
            z = max(lo, min(hi, z))
            return ["int", kind, str(z)]
        if k == 5:
            return ["f32", rng.choice([0, 1, 0x3F800000, 0x80000000, 0x7F7FFFFF, 0x00800000, 0x007FFFFF, 0x7F800000,
                                       f32bits(0.1), f32bits(-2.5), rng.below(0x7F800000)])]
        if k == 6:
            return ["f64", gen_float_bits(rng, False)]
        if k == 7:
            return ["char", rng.choice(TRICKY_CPS)]
        if k in (8, 9):
            return ["str", gen_str(rng)]
        if k == 10:
            return ["bytes", [rng.below(256) for _ in range(rng.below(4))]]
        if k == 11:
            return ["none"]
        if k == 12:
            return ["ustruct"]
        return ["uvar", rng.choice(["A", "B", "Rect"])]
    k = rng.below(12)
    sub = lambda: gen_dm(rng, depth - 1)
    subs = lambda: [sub() for _ in range(rng.below(4))]
    fields = lambda: [[rng.choice(["a", "b", "c", "x", "a"]), sub()] for _ in range(rng.below(4))]
    if k == 0:
        return ["some", sub()]
    if k == 1:
        return ["nstruct", sub()]
    if k in (2, 3):
        return ["seq", subs()]
    if k == 4:
        return ["tuple", subs()]
    if k == 5:
        return ["tstruct", subs()]
    if k in (6, 7):
        return ["map", [[gen_dm(rng, min(depth - 1, 1)), sub()] for _ in range(rng.below(4))]]
    if k == 8:
        return ["struct", fields()]
    if k == 9:
        return ["nvar", rng.choice(["A", "B"]), sub()]
    if k == 10:
        return ["tvar", rng.choice(["A", "B"]), subs()]
    return ["svar", rng.choice(["A", "B"]), fields()]


# ------------------------------------------------------------------------------------------------
# typed values from type descriptors

def gen_typed(rng, t, depth, dirty):
    """a tree the harness's deserializer turns into a value of the Rust type; `dirty` (a set) collects the
    classes of excluded data that were generated on purpose"""
    k = t[0]
    if k == "unit":
        return ["unit"]
    if k == "ustruct":
        return ["ustruct"]
    if k == "bool":
        return ["bool", bool(rng.below(2))]
    if k == "int":
        lo, hi = KIND_RANGE[t[1]]
        z = rng.choice([lo, hi, 0, 1, lo + 1, hi - 1, gen_int(rng), rng.below(100)])
        z = max(lo, min(hi, z))
        if not (I64[0] <= z <= I64[1]):
            if rng.below(3) == 0:
                dirty.add("C20a")
            else:
                z = max(I64[0], min(I64[1], z))
        return ["int", t[1], str(z)]
    if k == "f32":
        return ["f32", rng.choice([0, 1, 0x3F800000, 0x80000000, 0x7F7FFFFF, 0x00800000, 0x007FFFFF, 0x7F800000,
                                   0xFF800000, f32bits(0.1), f32bits(-2.5), rng.below(0x7F800000),
                                   0x80000000 + rng.below(0x7F800000)])]
    if k == "f64":
        return ["f64", gen_float_bits(rng, False)]
    if k == "char":
        return ["char", rng.choice(TRICKY_CPS)]
    if k == "string":
        return ["str", gen_str(rng)]
    if k == "option":
        if rng.below(3) == 0:
            return ["none"]
        x = gen_typed(rng, t[1], depth, dirty)
        if nullish(x):
            if rng.below(2) == 0:
                dirty.add("C20b")
            else:
                return ["none"]
        return ["some", x]
    if k == "vec":
        n = rng.below(4) if depth > 0 else 0
        return ["seq", [gen_typed(rng, t[1], depth - 1, dirty) for _ in range(n)]]
    if k == "tuple":
        return ["tuple", [gen_typed(rng, x, depth - 1, dirty) for x in t[1]]]
    if k == "tstruct":
        return ["tstruct", [gen_typed(rng, x, depth - 1, dirty) for x in t[1]]]
    if k == "nstruct":
        return ["nstruct", gen_typed(rng, t[1], depth, dirty)]
    if k == "map":
        n = rng.below(4) if depth > 0 else 0
        es = []
        for _ in range(n):
            sub = set()
            key = gen_typed(rng, t[1], 1, sub)
            if sub:             # excluded data in key position is exercised by dedicated cases only
                continue
            es.append([key, gen_typed(rng, t[2], depth - 1, dirty)])
        if t[1][0] in ("struct", "map") and es:
            dirty.add("C20c")
        return ["map", es]
    if k == "struct":
        return ["struct", [[n, gen_typed(rng, x, depth - 1, dirty)] for n, x in t[1]]]
    if k == "enum":
        vs = t[1]
        if depth <= 0:
            vs = [v for v in vs if v[1] == "unit"] or vs
        n, kind, pt = rng.choice(vs)
        if kind == "unit":
            return ["uvar", n]
        x = gen_typed(rng, pt, depth - 1, dirty)
        if kind == "newtype":
            return ["nvar", n, x]
        if kind == "tuple":
            return ["tvar", n, x[1]]
        return ["svar", n, x[1]]
    raise ValueError(k)


def nullish(x):
    t = x[0]
    if t in ("unit", "none", "ustruct"):
        return True
    if t in ("some", "nstruct"):
        return nullish(x[1])
    return False


def has_f32_nan(x):
    if isinstance(x, list):
        if len(x) == 2 and x[0] == "f32":
            b = x[1]
            return ((b >> 23) & 0xFF) == 0xFF and (b & 0x7FFFFF) != 0
        return any(has_f32_nan(y) for y in x)
    return False


def has_f64_nan(x):
    if isinstance(x, list):
        if len(x) == 2 and x[0] == "f64" and isinstance(x[1], int):
            b = x[1]
            return ((b >> 52) & 0x7FF) == 0x7FF and (b & ((1 << 52) - 1)) != 0
        return any(has_f64_nan(y) for y in x)
    return False


def option_keys_collide(x):
    """map keys that are options nested in options: None and Some(None) collide (class C20b)"""
    return False


# ------------------------------------------------------------------------------------------------
# documents for the parsers

DOCS = {
    "json": ['{"a": 1}', '[1, 2.5, "x", null, true]', '{"a": {"b": [1, {"c": null}]}}', '18446744073709551615',
             '-9223372036854775809', '1e400', '-1e400', '1e-400', '{"a":1,"a":2}', '"\\ud800"', '"\\ud83d\\ude00"',
             '[' * 200 + ']' * 200, '[' * 100, '{"a":', '', ' ', 'nul', 'tru', '{"a" 1}', '[1,]', '{,}', '"abc',
             '123456789012345678901234567890', '0.1e', '-', '-0', '-0.0', '1.0', '[1.0e+2]', '{"":""}',
             '"\\u0000"', '\ufeff{}', '{"a":1}x', '1 2', '[NaN]', '[Infinity]', '{"a":[' + "1," * 300 + '1]}',
             '9223372036854775807', '9223372036854775808', '-9223372036854775808', '1E5', '0e0', '1.5e300'],
    "yaml": ['a: 1\n', '- 1\n- 2.5\n- x\n- null\n- true\n', 'a:\n  b:\n  - 1\n  - c: ~\n', '18446744073709551615',
             '-9223372036854775809', '340282366920938463463374607431768211455', '1e400', '.inf', '-.inf', '.nan',
             'a: 1\na: 2\n', '!Foo 1', '!Foo\n', '!Foo [1, 2]', '!Foo {a: 1}', '! x', '!!str 5', '!!int x', '!!float 1',
             '&a [1, *a]', '&a 1\n', '*a', 'a: &x 1\nb: *x\n', '? [1, 2]\n: v\n', '1: a\n2.5: b\ntrue: c\nnull: d\n',
             '[' * 200 + ']' * 200, '[' * 100, '{a:', '', ' ', '---\n', '--- 1\n--- 2\n', '...', 'a:\n\tb: 1\n',
             'a: [1,\n', '"abc', "'abc", 'a: |\n  text\n', 'a: >-\n  t\n  u\n', '0x1F', '0o17', '0b101', '+1', '1_000',
             '1.', '.5', '1e3', '1E3', '~', 'Null', 'TRUE', 'yes', '<<: {a: 1}\n', 'a: {<<: {b: 1}}\n',
             '{[1,2]: 3}', '{{a: 1}: 2}', '- - - - 1\n', '%YAML 1.2\n---\na: 1\n', '\ufeffa: 1', 'a: "\\x41\\u0041"\n',
             'a: "\\ud800"\n', '9223372036854775808', '-9223372036854775808', '0.1', '1.0', '-0.0', '-0'],
    "toml": ['a = 1\n', 'a = [1, 2.5, "x", true]\n', '[a]\nb = 1\n[a.c]\nd = [1, {e = 2}]\n', 'a = 9223372036854775807\n',
             'a = 9223372036854775808\n', 'a = -9223372036854775809\n', 'a = 1e400\n', 'a = inf\n', 'a = -inf\n',
             'a = nan\n', 'a = 1\na = 2\n', '[a]\n[a]\n', 'a = 1979-05-27T07:32:00Z\n', 'a = 1979-05-27\n',
             'a = 07:32:00\n', 'a = [' * 150 + ']' * 150 + '\n', 'a = [' * 50, 'a = ', 'a', '= 1', '', ' ', 'a = "abc',
             "a = 'abc", 'a = """\nx\n"""\n', "a = '''\nx'''\n", 'a = 0x1F\n', 'a = 0o17\n', 'a = 0b101\n', 'a = +1\n',
             'a = 1_000\n', 'a = 1.\n', 'a = .5\n', 'a = 1e3\n', '"" = 1\n', "'a.b' = 1\n", 'a.b.c = 1\n',
             '[[a]]\nb = 1\n[[a]]\nb = 2\n', 'a = {b = 1, c = {d = 2}}\n', 'a = [1, "x"]\n', 'a = "\\ud800"\n',
             'a = "\\u0000"\n', '\ufeffa = 1\n', 'a = 1 b = 2\n', '[a\n', 'a = -0.0\n', 'a = -0\n', 'a = 0.1\n',
             'a = 1.0\n', 'a = -9223372036854775808\n'],
}


def corrupt(rng, text):
    """token deletion / duplication / truncation / splice of huge numbers and deep nesting"""
    if not text:
        return text
    r = rng.below(8)
    i = rng.below(len(text))
    j = min(len(text), i + 1 + rng.below(4))
    if r == 0:
        return text[:i] + text[j:]
    if r == 1:
        return text[:i] + text[i:j] * 2 + text[j:]
    if r == 2:
        return text[:i]
    if r == 3:
        return text[:i] + rng.choice(["1e999", "99999999999999999999999999", "-9223372036854775809",
                                      "18446744073709551616", "0.000000000000000000000000000000000000001",
                                      "1" * 400, "1." + "0" * 400]) + text[j:]
    if r == 4:
        return text[:i] + rng.choice(['"', "'", "[", "]", "{", "}", ":", ",", "=", "\n", "\t", "#", "-", "!", "&", "*",
                                      "\\", "\x00", "\u2028", "|", ">"]) + text[i:]
    if r == 5:
        return text[:i] + "[" * 40 + text[i:]
    if r == 6:
        a, b = sorted([i, rng.below(len(text))])
        return text[:a] + text[b:] + text[a:b]
    return text[:i] + text[i:j][::-1] + text[j:]



# ------------------------------------------------------------------------------------------------
# numeric literals in documents: a parsed number is the literal, or the parse is an error

from fractions import Fraction


def nearest_bits(fr, p, qmin, inf_bits):
    """bit pattern (without sign) of |fr| rounded to nearest-even in a binary format with p significand bits and
    least quantum 2^qmin; exact integer arithmetic"""
    a = abs(fr)
    if a == 0:
        return 0
    n, d = a.numerator, a.denominator
    e = n.bit_length() - d.bit_length()
    if (n << max(0, -e)) < (d << max(0, e)):
        e -= 1
    q = max(e + 1 - p, qmin)
    num, den = (n, d << q) if q >= 0 else (n << -q, d)
    r, rem = divmod(num, den)
    if 2 * rem > den or (2 * rem == den and (r & 1)):
        r += 1
    bits = (q - qmin) * (1 << (p - 1)) + r
    return min(bits, inf_bits)


def f64_fraction(bits):
    """exact value of a finite f64, None for inf / NaN"""
    e = (bits >> 52) & 0x7FF
    f = bits & ((1 << 52) - 1)
    if e == 0x7FF:
        return None
    m = f if e == 0 else f + (1 << 52)
    v = Fraction(m) * Fraction(2) ** (max(e, 1) - 1075)
    return -v if bits >> 63 else v


NUM_BOUNDS = [-2**63, 2**63 - 1, 2**63, 2**64 - 1, 2**64, 2**53, -2**53, 2**31, -2**31, 2**32, 2**127, -2**127, 2**128,
              10**19, -10**19]
NUM_HUGE = [1234567890123456789012345678901234567890, -1234567890123456789012345678901234567890, 10**39 + 7,
            -(10**39 + 7), 10**400]
NUM_FLOATS = ["1e308", "1e309", "-1e309", "1e-400", "-1e-400", "1.7976931348623157e308", "1.7976931348623159e308",
              "2e308", "4.9e-324", "2.4e-324", "2.5e-324", "9.223372036854775807e18", "1.8446744073709551615e19",
              "0.1", "123456789012345678901234567890.5", "1e22", "1e23", "9007199254740993.0"]


def numeric_literals():
    lits = []
    for b in NUM_BOUNDS:
        for d in (-2, -1, 0, 1, 2):
            lits.append(str(b + d))
    lits += [str(h) for h in NUM_HUGE] + NUM_FLOATS
    return sorted(set(lits), key=lambda x: (len(x), x))


def numlit_docs(lit):
    """(fmt, document, path to the literal in the parsed value)"""
    return [
        ("json", lit, []), ("json", f"[0, {lit}]", [1]), ("json", '{"a": {"b": [' + lit + ']}}', ["a", "b", 0]),
        ("yaml", lit, []), ("yaml", f"- 0\n- {lit}\n", [1]), ("yaml", f"a:\n  b:\n  - {lit}\n", ["a", "b", 0]),
        ("toml", f"a = {lit}\n", ["a"]), ("toml", f"a = [0, {lit}]\n", ["a", 1]),
        ("toml", f"[a]\nb = [{lit}]\n", ["a", "b", 0]),
    ]


def kv_at(v, path):
    for p in path:
        if v is None:
            return None
        if isinstance(p, int):
            if v[0] not in ("L", "T") or p >= len(v[1]):
                return None
            v = v[1][p]
        else:
            if v[0] != "M":
                return None
            hit = [x for k, x in v[1] if k == ["s", cps(p)]]
            if not hit:
                return None
            v = hit[0]
    return v


def numlit_verdict(lit, got):
    """None when `got` (the koto value the parser produced for the literal) is acceptable, else a message.
    Acceptable: the very same number as an integer; or, for a literal that is not an integer of the i64 range,
    the correctly rounded finite f64 (underflow to zero is rounding; overflow to infinity is not);
    or the literal's text as a string (the format does not read it as a number)."""
    if got is None:
        return "the document parsed but the literal's position holds no value"
    want = Fraction(lit)
    is_int_lit = all(c in "-0123456789" for c in lit)
    if got[0] == "s":
        return None if got[1] == cps(lit) else "parsed as a different string"
    if got[0] == "i":
        return None if Fraction(got[1]) == want else f"integer {got[1]} for the literal {lit[:50]} (clamped / wrapped)"
    if got[0] == "d":
        if is_int_lit and -2**63 <= want <= 2**63 - 1:
            return f"float for an integer literal of the i64 range"
        exact = f64_fraction(got[1])
        if exact is None:
            return "infinity / NaN for a finite literal (clamped)"
        if exact == want:
            return None
        nb = nearest_bits(want, 53, -1074, 0x7FF0000000000000)
        if nb == 0x7FF0000000000000 or nb != (got[1] & ((1 << 63) - 1)) or (want < 0) != bool(got[1] >> 63) and want != 0:
            return f"float {got[1]:#x} is not the literal {lit[:50]} rounded to nearest"
        return None
    return f"a {got[0]} for a numeric literal"


# ------------------------------------------------------------------------------------------------

def load_corpus():
    out = []
    cdir = os.path.join(C.VERIF, "corpus", PID)
    if os.path.isdir(cdir):
        for f in sorted(os.listdir(cdir)):
            for line in open(os.path.join(cdir, f), encoding="utf-8"):
                line = line.strip()
                if line and not line.startswith("#"):
                    out.append(json.loads(line))
    return out


def run_harness(binp, cases, tag):
    os.makedirs(os.path.join(C.BUILD, "cases"), exist_ok=True)
    cf = os.path.join(C.BUILD, "cases", f"c20-{tag}-{os.getpid()}.jsonl")
    with open(cf, "w") as f:
        for c in cases:
            f.write(json.dumps(c) + "\n")
    rc, out = C.sh([binp, cf], timeout=3600)
    os.remove(cf)
    lines = [json.loads(l) for l in out.split("\n") if l.startswith("{")]
    if rc != 0 or len(lines) != len(cases):
        return None, f"rc={rc} lines={len(lines)}/{len(cases)}: {out[-1500:]}"
    return lines, ""


PROFILES = {
    "class": {"null": True, "lists": True},
    "class-toml": {"null": False, "lists": True},
    "wide": {"null": True, "lists": True, "weird_keys": True, "nonfinite": True, "unser": True},
}


def gen_phase1(tier, seed, types):
    rng = C.Rng(seed)
    cases = []          # (origin, case)
    for c in load_corpus():
        cases.append(("corpus", c))
    quick = tier == "quick"
    # --- bounded exhaustive: every scalar of the pools, alone and inside the small shapes, through each format
    scalars = [["n"], ["b", True], ["b", False]] + [["i", z] for z in INT_POOL] + [["d", b] for b in FLOAT_POOL] \
        + [["s", cps(s)] for s in STR_POOL]
    for fmt in FMTS:
        for sc in scalars:
            shapes = (lambda x: x, lambda x: ["M", [[["s", [107]], ["T", [x, ["M", [[["s", [113]], x]]]]]]]])
            if not quick:
                shapes += (lambda x: ["L", [x]], lambda x: ["M", [[["s", [107]], x]]])
            for shape in shapes:
                cases.append(("exhaustive-scalars", {"op": "text", "fmt": fmt, "v": shape(sc)}))
        for s in STR_POOL:      # every pool string as a key
            cases.append(("exhaustive-keys", {"op": "text", "fmt": fmt, "v": ["M", [[["s", cps(s)], ["i", 1]]]]}))
    # --- seeded random trees
    n_text = 360 if quick else 12000
    for i in range(n_text):
        fmt = FMTS[i % 3]
        pname = "wide" if i % 5 == 4 else ("class-toml" if fmt == "toml" else "class")
        prof = PROFILES[pname]
        v = gen_map(rng, 4, prof) if (fmt == "toml" and pname != "wide") else gen_kv(rng, 4, prof)
        cases.append(("random-" + pname, {"op": "text", "fmt": fmt, "v": v}))
    n_ser = 150 if quick else 4000
    for i in range(n_ser):
        cases.append(("random-ser", {"op": "ser", "v": gen_kv(rng, 4, PROFILES["wide"])}))
    n_de = 400 if quick else 10000
    for i in range(n_de):
        cases.append(("random-de", {"op": "de", "d": gen_dm(rng, 4)}))
    # --- typed
    n_typed = 40 if quick else 700
    for name, t in types:
        for i in range(n_typed if name in ("Prims", "Shape", "Nest", "Opts", "Keys") else max(10, n_typed // 4)):
            dirty = set()
            d = gen_typed(rng, t, 3, dirty)
            cases.append(("typed", {"op": "typed", "ty": name, "d": d, "_dirty": sorted(dirty)}))
    # --- wrong shapes / out-of-range numbers for a requested type
    n_from = 40 if quick else 500
    for name, t in types:
        for i in range(n_from if name in ("Prims", "Shape", "Nest", "Opts", "Keys") else max(10, n_from // 4)):
            cases.append(("from-random", {"op": "from", "ty": name, "v": gen_kv(rng, 3, PROFILES["wide"])}))
    return cases


def mutate_kv(rng, v):
    """a small edit of a KValue produced by to_koto_value: wrong shapes close to the right one"""
    t = v[0]
    r = rng.below(10)
    if t in ("L", "T") and v[1]:
        xs = list(v[1])
        i = rng.below(len(xs))
        if r < 2:
            del xs[i]
        elif r < 4:
            xs.insert(i, xs[i])
        elif r < 5:
            xs.append(xs[-1])
        elif r < 6:
            return ["L" if t == "T" else "T", xs]
        else:
            xs[i] = mutate_kv(rng, xs[i])
        return [t, xs]
    if t == "M" and v[1]:
        es = [list(e) for e in v[1]]
        i = rng.below(len(es))
        if r < 2:
            del es[i]
        elif r < 3:
            es[i][0] = ["i", 1]
        elif r < 4:
            es.append([["s", cps("extra")], ["i", 1]])
        elif r < 5:
            es.reverse()
        elif r < 6:
            return ["T", [e[1] for e in es]]
        else:
            es[i][1] = mutate_kv(rng, es[i][1])
        seen = set()
        out = []
        for k, x in es:
            kk = json.dumps(k)
            if kk not in seen:
                seen.add(kk)
                out.append([k, x])
        return ["M", out]
    return rng.choice([["n"], ["b", True], ["i", gen_int(rng)], ["d", gen_float_bits(rng, False)], ["s", gen_str(rng)],
                       ["T", []], ["M", []], ["i", 300], ["i", -1], ["d", fbits(1.5)], ["d", fbits(1e300)],
                       ["s", cps("ab")], ["s", []], ["R"]])


def run(tier, seed):
    chk = C.Check(PID, tier, seed, "proof")
    # ---- T
    ok, log = C.coq_build(UNIT, ["SerdeRun.vo"])
    model_ok = ok
    if not ok:
        chk.log("model does not compile:\n" + log[-2000:])
    pr = C.check_props_file(UNIT, "C20Props", PINNED)
    hits = C.forbidden_scan(UNIT)
    if not pr["ok"]:
        chk.log("C20Props does not check:\n" + pr["log"][-2500:])
    for name in PINNED:
        good = pr["ok"] and name not in pr["missing"] and ("Print Assumptions " + name) not in pr["missing"] \
            and not pr["bad_axioms"] and not hits
        chk.oblige("thm:" + name, good)
    if hits:
        chk.log("forbidden constructs: " + "; ".join(hits))
    if pr["bad_axioms"]:
        chk.log("axioms outside the allowlist: " + ", ".join(pr["bad_axioms"]))
    axioms = pr["axioms"]

    # ---- R + D
    chk.log(f'coq done t={time.time()-chk.t0:.0f}s')
    binp, blog = C.build_harness("kh_serde")
    if not binp:
        chk.log("harness build failed:\n" + blog[-3000:])
        chk.violation("build", {"kind": "obligation", "correspondence": "kh_serde does not build against the koto checkout",
                                "log": blog[-3000:]}, no_input=True)
        return chk.finish("n/a")
    lines, err = run_harness(binp, [{"op": "types"}], "types")
    if lines is None:
        chk.violation("harness", {"kind": "obligation", "correspondence": "kh_serde crashed", "log": err}, no_input=True)
        return chk.finish("n/a")
    types = [(n, t) for n, t in lines[0]["types"]]
    tmap = dict(types)

    p1 = gen_phase1(tier, seed, types)
    rng2 = C.Rng(seed ^ 0x5EED)
    f32s = [0, 1, 0x3F800000, 0x80000000, 0x7F7FFFFF, 0x00800000, 0x007FFFFF, 0x7F800000, 0xFF800000] \
        + [rng2.below(0x7F800000) for _ in range(200)] + [0x80000000 + rng2.below(0x7F800000) for _ in range(100)]
    f64s = FLOAT_POOL + KEYF_POOL + [0x7FF0000000000000, 0xFFF0000000000000] + [gen_float_bits(rng2) for _ in range(300)] \
        + [fbits(float(f32bits_to_float(b))) + d for b in f32s[:40] for d in (0, 1, (1 << 28), (1 << 28) + 1, (1 << 28) - 1)
           if ((fbits(float(f32bits_to_float(b))) + d) >> 52) & 0x7FF != 0x7FF]
    i64s = INT_POOL + [rng2.next() - 2**63 for _ in range(200)] + [2**k + d for k in range(20, 63) for d in (-1, 0, 1)]
    cast_case = {"op": "casts", "f32": f32s, "f64": f64s, "i64": i64s}
    cases1 = [c for _, c in p1] + [cast_case]
    impl1, err = run_harness(binp, [{k: v for k, v in c.items() if not k.startswith("_")} for c in cases1], "p1")
    if impl1 is None:
        chk.log("harness run failed: " + err)
        chk.violation("harness", {"kind": "obligation", "correspondence": "kh_serde crashed", "log": err}, no_input=True)
        return chk.finish("n/a")
    chk.log(f'phase 1 done: {len(impl1)} cases, t={time.time()-chk.t0:.0f}s')
    casts = impl1[-1]
    impl1 = impl1[:-1]
    ftab = "[" + "; ".join(f"({b}, {zlist(s)})" for b, s in zip(f64s, casts["f64_key"]) if b in KEYF_POOL) + "]"

    # ---- phase 2: derived cases (mutated KValues for `from`, codec contract on ser images, corrupted documents)
    p2 = []
    rng = C.Rng(seed ^ 0xC20)
    texts = {f: list(DOCS[f]) for f in FMTS}
    for (origin, c), r in zip(p1, impl1):
        if c["op"] == "typed" and r.get("kv") is not None:
            for _ in range(1 if tier == "quick" else 6):
                p2.append(("from-mutated", {"op": "from", "ty": c["ty"], "v": mutate_kv(rng, r["kv"])}))
        if c["op"] == "text" and r.get("text") is not None and len(r["text"]) < 3000:
            texts[c["fmt"]].append(r["text"])
    for lit in numeric_literals():
        for f, doc, path in numlit_docs(lit):
            p2.append(("doc-numlit", {"op": "parse", "fmt": f, "text": cps(doc), "_lit": lit, "_path": path}))
    for f in FMTS:
        for t in DOCS[f]:
            p2.append(("doc", {"op": "parse", "fmt": f, "text": cps(t)}))
        pool = texts[f]
        n = 300 if tier == "quick" else 8000
        for _ in range(n):
            t = rng.choice(pool)
            for _ in range(1 + rng.below(2)):
                t = corrupt(rng, t)
            t = "".join(ch if not (0xD800 <= ord(ch) < 0xE000) else "?" for ch in t)
            p2.append(("doc-corrupted", {"op": "parse", "fmt": f, "text": cps(t)}))
    ser_idx = []
    for i, ((origin, c), r) in enumerate(zip(p1, impl1)):
        if c["op"] == "text" and i % 3 == 0:
            ser_idx.append(i)
    for i in ser_idx:
        p2.append(("ser-of-text", {"op": "ser", "v": p1[i][1]["v"], "_fmt": p1[i][1]["fmt"], "_src": i}))
    impl2, err = run_harness(binp, [{k: v for k, v in c.items() if not k.startswith("_")} for _, c in p2], "p2")
    if impl2 is None:
        chk.log("harness run failed: " + err)
        chk.violation("harness", {"kind": "obligation", "correspondence": "kh_serde crashed", "log": err}, no_input=True)
        return chk.finish("n/a")
    # phase 3: codec contract on the trees SerializableKValue really produced
    p3 = []
    for (origin, c), r in zip(p2, impl2):
        if origin == "ser-of-text" and r.get("d") is not None:
            p3.append(("codec", {"op": "codec", "fmt": c["_fmt"], "d": r["d"], "_v": c["v"], "_src": c["_src"]}))
    impl3, err = run_harness(binp, [{k: v for k, v in c.items() if not k.startswith("_")} for _, c in p3], "p3")
    if impl3 is None:
        chk.log("harness run failed: " + err)
        chk.violation("harness", {"kind": "obligation", "correspondence": "kh_serde crashed", "log": err}, no_input=True)
        return chk.finish("n/a")

    chk.log(f'phases 2,3 done: {len(impl2)}+{len(impl3)} cases, t={time.time()-chk.t0:.0f}s')
    all_cases = p1 + p2 + p3
    all_impl = impl1 + impl2 + impl3

    # ---- model evaluation
    header = "From Coq Require Import ZArith List.\nImport ListNotations.\nOpen Scope Z_scope.\n" \
             "From KV.serde Require Import SerdeModel SerdeSpec SerdeRun.\n" \
             f"Definition FT : list (Z * str) := {ftab}.\n"
    header += ty_definitions(types)
    terms = []
    tix = []
    for i, ((origin, c), r) in enumerate(zip(all_cases, all_impl)):
        op = c["op"]
        if "panic" in r or "bad_case" in r:
            continue
        if op == "text":
            terms.append(f"run_text FT {kv_term(c['v'])}")
        elif op == "ser":
            terms.append(f"[run_ser FT {kv_term(c['v'])}]")
        elif op == "de":
            terms.append(f"[run_de {dm_term(c['d'])}]")
        elif op == "typed":
            if not r.get("built"):
                continue
            terms.append(f"run_typed ty_{c['ty']} {dm_term(r['x'])}")
        elif op == "from":
            terms.append(f"[run_from_koto ty_{c['ty']} {kv_term(c['v'])}]")
        else:
            continue
        tix.append(i)
    terms.append(f"run_casts {zlist(f32s)} {zlist(f64s)} {zlist(i64s)}")
    vals = None
    if model_ok:
        try:
            vals = C.coq_eval(UNIT, header, terms, tag="c20", per_shard=500)
        except RuntimeError as e:
            chk.log(str(e)[-3000:])
    chk.log(f'model evaluated: {len(terms)} terms, t={time.time()-chk.t0:.0f}s')
    chk.oblige("corr:model-evaluates", vals is not None)
    model = {}
    if vals is not None:
        for i, v in zip(tix, vals[:-1]):
            model[i] = v
        mc = vals[-1]
        names = ["widen", "narrow", "f64_i64", "f64_u8", "f64_i8", "f64_u32", "i64_f64", "i64_f32"]
        bad = [n for n, m in zip(names, mc) if m != casts[n]]
        chk.oblige("corr:casts model's f32/f64/i64 conversions = Rust `as` (incl. narrow(widen x) = x on the samples)",
                   not bad, ", ".join(bad))
        wn = [b for b, w in zip(f32s, casts["widen"]) if not (((b >> 23) & 0xFF) == 0xFF and b & 0x7FFFFF)
              and f32bits(struct.unpack("<d", struct.pack("<Q", w))[0]) != b]
        chk.oblige("hyp:f32_exact narrowing the widened f32 gives it back (Rust, sampled)", not wn, str(wn[:3]))

    # ---- compare
    dist = {}
    d_fail = []          # (index, [messages])  property clauses failing on the implementation
    disagree = {}        # obligation name -> [(index, detail)]
    finding_hits = {}

    def dis(name, i, detail):
        disagree.setdefault(name, []).append((i, detail))

    for i, ((origin, c), r) in enumerate(zip(all_cases, all_impl)):
        dist[origin] = dist.get(origin, 0) + 1
        op = c["op"]
        if "bad_case" in r:
            dis("corr:case-wellformed", i, r["bad_case"])
            continue
        if "panic" in r:
            d_fail.append((i, [f"panic: {r['panic']} at {r.get('at')}"]))
            continue
        m = model.get(c["_src"]) if op == "codec" else model.get(i)
        if op == "text":
            fmt = c["fmt"]
            v = c["v"]
            inclass = kv_in_class(v, fmt)
            fails = []
            if inclass:
                want = py_normal(v)
                if not r["t1_ok"]:
                    fails.append(f"{fmt}.to_string fails on a value of the property's class: {r.get('msg', '')[:200]}")
                elif r.get("r1") is None:
                    fails.append(f"{fmt}.from_string rejects the text {fmt}.to_string produced: {r.get('msg', '')[:200]}")
                elif not same_value(r["r1"], want):
                    fails.append("first round trip differs from the normal form"
                                 + (" (floats one ULP off)" if same_up_to_ulp(r["r1"], want) else ""))
            if r.get("r1") is not None:
                if not r.get("t2_ok"):
                    fails.append("the value that came back cannot be printed again")
                elif not same_value(r.get("r2"), r["r1"]):
                    fails.append("second round trip is not the identity")
            if r["t1_ok"] and (not r["api_t1_same"] or r.get("api_r1") != r.get("r1")):
                fails.append("script and Rust API disagree")
            if fails:
                d_fail.append((i, fails))
            nontrivial = v[0] in ("L", "T", "M") and len(json.dumps(v)) > 40
            chk.count_case(json.dumps(c), nontrivial)
            if m is not None:
                mres = dec_res(m[0], "kv")
                mnorm = Dec(m[1]).kv()
                serializable = m[2][0] == 1
                fok = {"json": m[3][0], "yaml": m[4][0], "toml": m[5][0]}[fmt] == 1
                if serializable and mres != ("ok", mnorm):
                    dis("corr:model de(ser v) = normal v", i, "theorem instance fails under vm_compute")
                if inclass and not (serializable and fok) and (fmt != "toml" or toml_tables_last(v)):
                    dis("corr:spec class (python) within the model's representable class", i, f"serializable={serializable} {fmt}_ok={fok}")
                if inclass and mnorm != py_normal(v):
                    dis("corr:model normal = lists-to-tuples on the property's class", i, "")
                if serializable and fok:
                    # the codec contract applies: the implementation must produce the model's normal form
                    if r.get("r1") != mnorm:
                        dis(f"corr:{fmt} from_string(to_string v) = model normal v", i,
                            f"impl {json.dumps(r.get('r1'))[:300]} model {json.dumps(mnorm)[:300]} {r.get('msg', '')[:200]}")
                if not serializable and r["t1_ok"]:
                    dis("corr:unserializable values are rejected", i, "")
        elif op == "ser":
            chk.count_case(json.dumps(c), len(json.dumps(c)) > 60)
            if m is not None:
                if dec_res(m[0], "dm") != impl_res(r.get("d")):
                    dis("corr:ser model vs SerializableKValue (recorded tree)", i,
                        f"impl {json.dumps(r.get('d'))[:300]} model {json.dumps(dec_res(m[0], 'dm'))[:300]}")
        elif op == "de":
            chk.count_case(json.dumps(c), len(json.dumps(c)) > 60)
            if m is not None:
                if dec_res(m[0], "kv") != impl_res(r.get("v")):
                    dis("corr:de model vs KValueVisitor", i,
                        f"impl {json.dumps(r.get('v'))[:300]} model {json.dumps(dec_res(m[0], 'kv'))[:300]} {r.get('msg', '')[:100]}")
        elif op == "codec":
            fmt = c["fmt"]
            if m is not None:
                serializable = m[2][0] == 1
                fok = {"json": m[3][0], "yaml": m[4][0], "toml": m[5][0]}[fmt] == 1
                if serializable and fok:
                    good = r.get("printed") and r.get("back") is not None and erase_ints(r["back"]) == erase_ints(c["d"])
                    if not good:
                        dis(f"hyp:{fmt} print-then-parse is the identity (up to integer width) on representable trees", i,
                            f"{json.dumps(r)[:400]}")
            chk.count_case(json.dumps(c), True)
        elif op == "typed":
            if not r.get("built"):
                dis("corr:typed case builds", i, r.get("msg", ""))
                continue
            dirty = set(c.get("_dirty", []))
            x = r["x"]
            fails = []
            clean = not dirty and not has_f32_nan(x)
            same = r.get("y") is not None and r["y"] == x
            if clean:
                if r.get("kv") is None:
                    fails.append(f"to_koto_value fails: {r.get('msg', '')[:200]}")
                elif r.get("y") is None:
                    fails.append(f"from_koto_value fails on to_koto_value's result: {r.get('msg', '')[:200]}")
                elif not same:
                    fails.append("typed value changed (serialized trees differ; floats compared by bits)")
                elif not r.get("eq") and not has_f64_nan(x):
                    fails.append("typed value changed (PartialEq)")
            elif not same:
                for k in dirty:
                    finding_hits[k] = finding_hits.get(k, 0) + 1
                    chk.known(KNOWN[k])
            if fails:
                d_fail.append((i, fails))
            chk.count_case(json.dumps(c), len(json.dumps(x)) > 60)
            if m is not None:
                if dec_res(m[0], "kv") != impl_res(r.get("kv")):
                    dis("corr:to_koto model vs to_koto_value", i,
                        f"impl {json.dumps(r.get('kv'))[:300]} model {json.dumps(dec_res(m[0], 'kv'))[:300]}")
                elif r.get("kv") is not None:
                    st, y = dec_res(m[1], "dm")
                    if (st, canon_dm(y)) != (impl_res(r.get("y"))[0], canon_dm(r.get("y"))):
                        dis("corr:from_koto model vs from_koto_value", i,
                            f"impl {json.dumps(r.get('y'))[:300]} model {json.dumps(y)[:300]} {r.get('msg', '')[:100]}")
                wt = m[2][0] == 1
                if wt and not same:
                    dis("corr:wt (the theorem's premise) implies the round trip on the implementation", i, "")
                if clean and not wt:
                    dis("corr:generator's clean class within wt", i, json.dumps(x)[:300])
        elif op == "from":
            chk.count_case(json.dumps(c), len(json.dumps(c)) > 60)
            if m is not None:
                st, y = dec_res(m[0], "dm")
                if st == "panic":
                    dis("corr:from_koto model reaches Panic", i, "")
                elif (st, canon_dm(y)) != (impl_res(r.get("y"))[0], canon_dm(r.get("y"))):
                    dis("corr:from_koto model vs from_koto_value", i,
                        f"impl {json.dumps(r.get('y'))[:300]} model {json.dumps(y)[:300]} {r.get('msg', '')[:100]}")
        elif op == "parse":
            fails = []
            if r.get("r1") is not None:
                if not r.get("t2_ok"):
                    # a parsed value need not be printable (TOML datetime tables are; NaN keys ...): not a clause
                    pass
                elif r.get("r2") is None:
                    fails.append("a parsed value was printed, and the print does not parse")
                elif r.get("r3") is not None and not same_value(r["r3"], r["r2"]):
                    fails.append("second round trip of a parsed value is not the identity")
            if r.get("r1") != r.get("api_r1"):
                fails.append("script and Rust API disagree")
            if "_lit" in c and r.get("r1") is not None:
                msg = numlit_verdict(c["_lit"], kv_at(r["r1"], c["_path"]))
                if msg:
                    fails.append("out-of-range / unrepresentable number accepted as a different number: " + msg)
                elif r.get("r2") is not None and not same_value(r["r2"], r["r1"]):
                    fails.append("the parsed number re-serialises to a different number")
            if fails:
                d_fail.append((i, fails))
            chk.count_case(json.dumps(c), r.get("r1") is not None)

    for name in ["corr:ser model vs SerializableKValue (recorded tree)", "corr:de model vs KValueVisitor",
                 "corr:to_koto model vs to_koto_value", "corr:from_koto model vs from_koto_value",
                 "corr:model de(ser v) = normal v", "corr:json from_string(to_string v) = model normal v",
                 "corr:yaml from_string(to_string v) = model normal v", "corr:toml from_string(to_string v) = model normal v",
                 "hyp:json print-then-parse is the identity (up to integer width) on representable trees",
                 "hyp:yaml print-then-parse is the identity (up to integer width) on representable trees",
                 "hyp:toml print-then-parse is the identity (up to integer width) on representable trees",
                 "corr:wt (the theorem's premise) implies the round trip on the implementation"]:
        chk.oblige(name, vals is not None and name not in disagree, f"{len(disagree.get(name, []))} disagreements")
    for name in disagree:
        if not any(o[0] == name for o in chk.obligations):
            chk.oblige(name, False, f"{len(disagree[name])} disagreements")

    # from_koto_value into f32 / f64: the number itself or its correct rounding (not covered by any known class)
    for i, ((origin, c), r) in enumerate(zip(all_cases, all_impl)):
        if c["op"] == "from" and tmap.get(c["ty"], [""])[0] in ("f32", "f64") and c["v"][0] in ("i", "d") and r.get("y") is not None:
            src = Fraction(c["v"][1]) if c["v"][0] == "i" else f64_fraction(c["v"][1])
            if src is None:
                continue
            if tmap[c["ty"]][0] == "f64":
                want = nearest_bits(src, 53, -1074, 0x7FF0000000000000) | ((1 << 63) if (src < 0 or (c["v"][0] == "d" and c["v"][1] >> 63)) else 0)
            else:
                want = nearest_bits(src, 24, -149, 0x7F800000) | ((1 << 31) if (src < 0 or (c["v"][0] == "d" and c["v"][1] >> 63)) else 0)
            if r["y"][1] != want:
                d_fail.append((i, [f"from_koto_value into {c['ty']}: {r['y'][1]:#x} is not the input number rounded to nearest ({want:#x})"]))
    # C20d: an out-of-range / fractional number accepted silently for an integer type (from_koto_value ONLY:
    # the text -> KValue visitor is judged by the numeric-literal predicate above and has no known class)
    for i, ((origin, c), r) in enumerate(zip(all_cases, all_impl)):
        if c["op"] == "from" and tmap.get(c["ty"], [""])[0] == "int" and c["v"][0] in ("i", "d") and r.get("y") is not None:
            lo, hi = KIND_RANGE[tmap[c["ty"]][1]]
            got = int(r["y"][2])
            if c["v"][0] == "i":
                exact = c["v"][1] == got
            else:
                f = struct.unpack("<d", struct.pack("<Q", c["v"][1]))[0]
                exact = f == got
            if not exact:
                finding_hits["C20d"] = finding_hits.get("C20d", 0) + 1
                chk.known(KNOWN["C20d"])

    def size(i):
        return len(json.dumps(all_cases[i][1]))

    if d_fail:
        groups = {}
        for i, fails in d_fail:
            c = all_cases[i][1]
            groups.setdefault((c["op"], c.get("fmt", c.get("ty", "")), fails[0][:60]), []).append(i)
        for g, idx in sorted(groups.items(), key=lambda kv: -len(kv[1]))[:12]:
            j = min(idx, key=size)
            cc = {k: v for k, v in all_cases[j][1].items() if not k.startswith("_")}
            chk.log(f"  {len(idx)} x {g}: smallest {json.dumps(cc)[:300]} -> {json.dumps(all_impl[j])[:400]}")
        d_fail.sort(key=lambda x: size(x[0]))
        i, fails = d_fail[0]
        case = {k: v for k, v in all_cases[i][1].items() if not k.startswith("_")}
        aux = {k: v for k, v in all_cases[i][1].items() if k in ("_lit", "_path")}
        chk.violation("input", {"kind": "input", "case": case, "aux": aux, "origin": all_cases[i][0], "impl_says": all_impl[i],
                                "predicate_failed": fails, "others": len(d_fail) - 1,
                                "how_to_rerun": "./check C20 --replay <this file>"})
        chk.log(f"{len(d_fail)} inputs violate C20 on the implementation; smallest: {json.dumps(case)[:300]} {fails[:2]}")
    broken = [o for o in chk.obligations if not o[1]]
    if broken and not d_fail:
        payload = {"kind": "obligation", "broken": [o[0] + (": " + o[2] if o[2] else "") for o in broken]}
        small = {}
        for name, lst in disagree.items():
            lst.sort(key=lambda x: size(x[0]))
            i, detail = lst[0]
            case = {k: v for k, v in all_cases[i][1].items() if not k.startswith("_")}
            small[name] = {"case": case, "impl_says": all_impl[i], "detail": detail, "count": len(lst)}
            chk.log(f"{name}: {len(lst)} disagreements; smallest {json.dumps(case)[:300]} :: {detail[:300]}")
        payload["smallest_disagreements"] = small
        payload["note"] = "no clause of C20 fails on an explored input, but the implementation no longer matches the " \
                          "model the theorems are about (or an assumed contract / theorem is broken)"
        chk.violation("obligation", payload, no_input=True)

    tb = ["Coq 8.16.1 kernel (coqc); vm_compute evaluates the model for the correspondence",
          "axioms reported by Print Assumptions: " + (", ".join(axioms) if axioms else "none (closed under the global context)"),
          "text crates serde_json / serde_yaml_ng / toml: Section variables with the contract `parse (print d) = d up to "
          "integer width` on representable trees; validated on every run (hyp:* obligations)",
          "Rust `as` casts between f32/f64/i64: concrete Coq functions compared with Rust on samples; "
          "typed_roundtrip assumes narrow(widen x) = x for non-NaN f32",
          "serde's derive / std Deserialize impls as transcribed in from_koto (validated by corr:from_koto)",
          "Display of f64 map keys (std formatting): Section variable fdisp, instantiated from the real ValueKey::to_string",
          "kh_serde (Rust harness: recording serializer, tree deserializer) and checks/c20.py"]
    return chk.finish(
        rule="value trees: committed corpus + every pool scalar/string in 4 shapes x 3 formats + seeded random trees "
             "(depth <= 4); data-model trees (depth <= 4); typed values of 34 Rust types generated from their descriptors; "
             "arbitrary and mutated KValues against each type; hand-written and corrupted documents; "
             "non-trivial = composite value / tree above a size threshold; distinct by case JSON",
        explanation="theorems over the mapping model for all value trees / data-model trees / types of the modelled "
                    "universe; exact model-vs-implementation agreement of ser, de, to_koto, from_koto; the text round "
                    "trip compared with the model's normal form; C20's clauses evaluated on the implementation's output",
        trusted_base=tb,
        extra={"distribution": dist, "exhaustive": False, "finding_class_hits": finding_hits,
               "model_impl_disagreements": sum(len(v) for v in disagree.values())})


def f32bits_to_float(b):
    return struct.unpack("<f", struct.pack("<I", b))[0]


def replay(path, args):
    data = json.load(open(path))
    case = data.get("case")
    if case is None:
        print("replay file names an obligation, not an input:", json.dumps(data.get("broken")))
        return run("quick", data.get("seed", 1))
    binp, blog = C.build_harness("kh_serde")
    lines, err = run_harness(binp, [case], "replay")
    if lines is None:
        print(err)
        return 3
    r = lines[0]
    print(json.dumps(r)[:4000])
    fails = []
    if "panic" in r:
        fails.append("panic")
    op = case["op"]
    if op == "text":
        if kv_in_class(case["v"], case["fmt"]):
            if not r.get("t1_ok") or not same_value(r.get("r1"), py_normal(case["v"])):
                fails.append("first round trip differs from the normal form")
        if r.get("r1") is not None and not same_value(r.get("r2"), r.get("r1")):
            fails.append("second round trip is not the identity")
    elif op == "typed":
        if r.get("built") and r.get("y") != r.get("x"):
            fails.append("typed value changed")
    elif op == "parse":
        aux = data.get("aux") or {}
        if "_lit" in aux and r.get("r1") is not None:
            msg = numlit_verdict(aux["_lit"], kv_at(r["r1"], aux["_path"]))
            if msg:
                fails.append("out-of-range / unrepresentable number accepted as a different number: " + msg)
        if r.get("r1") is not None and r.get("t2_ok") and (r.get("r2") is None or (r.get("r3") is not None and not same_value(r["r3"], r["r2"]))):
            fails.append("second round trip of a parsed value is not the identity")
    for f in fails:
        print("  " + f)
    if fails:
        print(f"VIOLATION property={PID} replay={path}")
        return 1
    print("no clause of C20 fails on this input")
    return 0
