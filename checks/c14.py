"""C14  Value model: sharing, copying, equality, ordering and map keys.

T  theorems in coq/val/C14Props.v about the impl-shaped value / map / heap model
R  correspondence: (a) the pairwise tables (== != < <= > >=, key eq / cmp / hash, lookups, inserts,
   removals, sorts) of value pools computed by the model (vm_compute) and by the runtime's own code
   (kh_val: KotoVm::run_binary_op, ValueKey, ValueMap);  (b) operation histories over aliased
   containers run as koto scripts vs the heap model, every live name observed after every step
D  the property's clauses evaluated directly on the implementation's tables / observations
"""
import json
import os
import struct

from vlib import common as C

PID = "C14"
UNIT = "val"

PINNED = [
    "num_eq_refl", "num_eq_sym", "num_lt_irrefl", "num_lt_trans", "num_trichotomy", "num_eq_trans_refuted",
    "str_lt_strict_total",
    "vne_is_negb_veq", "veq_refl", "veq_sym",
    "key_eq_is_veq", "hash_respects_eq", "key_identity", "key_identity_mixed",
    "map_order", "index_assign_panics",
    "alias_shared", "copy_top_independent", "deep_copy_independent", "immutables_frozen",
    "sort_sorted_perm", "compare_values_preorder_refuted",
]

KNOWN_B = ("C14b `m[i] = (k, v)` panics (vm.rs run_index_assign: swap_indices out of bounds) when k is already the "
           "key of another entry of m")
KNOWN_C = "C14c `x.extend x` on a list or map panics (RefCell already mutably borrowed)"
KNOWN_E = ("C14e `==` on numbers is not transitive beyond 2^53 (i64 -> f64 rounding): compare_values is then not a "
           "total preorder and sort's contract does not apply (lists of >20 such numbers make `sort` panic)")

# ---------------------------------------------------------------------------
# value descriptions: ('n',) ('b',bool) ('i',int) ('f',bits) ('s',bytes) ('r',lo,hi,incl) ('L',[..]) ('T',[..])
# ('M',[(k,v),..])


def fbits(x):
    return struct.unpack("<Q", struct.pack("<d", x))[0]


NAN = ("f", 0x7FF8000000000000)


def I(z):
    return ("i", z)


def Fl(x):
    return ("f", fbits(x))


def S(s):
    return ("s", list(s.encode("utf-8")))


def to_json(d):
    t = d[0]
    if t == "n":
        return None
    if t == "b":
        return bool(d[1])
    if t == "i":
        return {"i": str(d[1])}
    if t == "f":
        return {"f": "%016x" % d[1]}
    if t == "s":
        return {"s": list(d[1])}
    if t == "r":
        return {"r": [d[1], d[2], bool(d[3])]}
    if t == "L":
        return {"L": [to_json(x) for x in d[1]]}
    if t == "T":
        return {"T": [to_json(x) for x in d[1]]}
    if t == "M":
        return {"M": [[to_json(k), to_json(v)] for k, v in d[1]]}
    raise ValueError(d)


def zc(z):
    return f"({z})" if z < 0 else str(z)


def to_coq(d):
    t = d[0]
    if t == "n":
        return "VNull"
    if t == "b":
        return "(VBool true)" if d[1] else "(VBool false)"
    if t == "i":
        return f"(VNum (I {zc(d[1])}))"
    if t == "f":
        return f"(VNum (fl {d[1]}))"
    if t == "s":
        return "(VStr [" + "; ".join(str(b) for b in d[1]) + "])"
    if t == "r":
        lo = "None" if d[1] is None else f"(Some {zc(d[1])})"
        hi = "None" if d[2] is None else f"(Some ({zc(d[2])}, {'true' if d[3] else 'false'}))"
        return f"(VRange {lo} {hi})"
    if t == "L":
        return "(VList [" + "; ".join(to_coq(x) for x in d[1]) + "])"
    if t == "T":
        return "(VTuple [" + "; ".join(to_coq(x) for x in d[1]) + "])"
    if t == "M":
        return "(mk_map [" + "; ".join(f"({to_coq(k)}, {to_coq(v)})" for k, v in d[1]) + "])"
    raise ValueError(d)


def to_koto(d):
    """script literal (histories use a small literal universe only)"""
    t = d[0]
    if t == "n":
        return "null"
    if t == "b":
        return "true" if d[1] else "false"
    if t == "i":
        return str(d[1])
    if t == "f":
        x = struct.unpack("<d", struct.pack("<Q", d[1]))[0]
        if x != x:
            return "(0.0 / 0.0)"
        r = repr(x)
        return r
    if t == "s":
        return "'" + bytes(d[1]).decode("utf-8") + "'"
    if t == "r":
        return f"({d[1]}..{'=' if d[3] else ''}{d[2]})"
    if t == "T":
        if len(d[1]) == 1:
            return "(" + to_koto(d[1][0]) + ",)"
        return "(" + ", ".join(to_koto(x) for x in d[1]) + ")"
    raise ValueError(d)


def has_nan(d):
    t = d[0]
    if t == "f":
        return (d[1] & 0x7FF0000000000000) == 0x7FF0000000000000 and (d[1] & 0xFFFFFFFFFFFFF) != 0
    if t in ("L", "T"):
        return any(has_nan(x) for x in d[1])
    if t == "M":
        return any(has_nan(k) or has_nan(v) for k, v in d[1])
    return False


def decode(flat, pos=0):
    """model's flat code -> (canonical string as kh::script::canon prints it, next position)"""
    t = flat[pos]
    if t == -1:
        return "?", pos + 1
    if t == 0:
        return "n", pos + 1
    if t == 1:
        return ("t" if flat[pos + 1] else "f"), pos + 2
    if t == 2:
        return f"i{flat[pos + 1]}", pos + 2
    if t == 3:
        b = flat[pos + 1]
        return ("dNaN" if b < 0 else "d%016x" % b), pos + 2
    if t == 4:
        n = flat[pos + 1]
        bs = flat[pos + 2:pos + 2 + n]
        out = 's"'
        for b in bs:
            if 32 <= b < 127 and b != 34 and b != 92:
                out += chr(b)
            else:
                out += "\\x%02x" % b
        return out + '"', pos + 2 + n
    if t == 5:
        haslo, lo, hashi, hi, incl = flat[pos + 1:pos + 6]
        s = "R" + (str(lo) if haslo else "_")
        if hashi:
            s += ("..=" if incl else "..") + str(hi)
        else:
            s += ".._"
        return s, pos + 6
    if t in (6, 7):
        n = flat[pos + 1]
        p = pos + 2
        items = []
        for _ in range(n):
            s, p = decode(flat, p)
            items.append(s)
        return ("L[" + ",".join(items) + "]" if t == 6 else "T(" + ",".join(items) + ")"), p
    if t == 8:
        n = flat[pos + 1]
        p = pos + 2
        items = []
        for _ in range(n):
            k, p = decode(flat, p)
            v, p = decode(flat, p)
            items.append(k + "=" + v)
        return "M{" + ",".join(items) + "}", p
    raise ValueError(f"bad code {t} at {pos}")


def canon_of_flat(flat):
    s, p = decode(flat, 0)
    return s


# ---------------------------------------------------------------------------
# pools

P53 = 2 ** 53
I64MAX = 2 ** 63 - 1
I64MIN = -2 ** 63


def boundary_pool():
    nums = [I(0), Fl(-0.0), Fl(0.0), I(1), Fl(1.0), Fl(1.5), I(-1), I(2), Fl(2.0), I(P53), Fl(float(P53)), I(P53 + 1),
            Fl(float(P53 + 2)), I(P53 + 2), I(I64MAX), I(I64MAX - 1), I(I64MIN), Fl(2.0 ** 63), Fl(-2.0 ** 63), NAN,
            Fl(float("inf")), Fl(float("-inf")), ("f", 1), I(fbits(1.0)), Fl(0.1), I(3)]
    strs = [S(""), S("a"), S("b"), S("ab"), S("é"), S("A")]
    tups = [("T", []), ("T", [I(1), I(2)]), ("T", [Fl(1.0), I(2)]), ("T", [I(1), ("T", [I(2), I(3)])]),
            ("T", [("T", [I(1), I(2)]), I(3)]), ("T", [NAN]), ("T", [S("a")]), ("T", [I(1), ("L", [I(2)])]),
            ("T", [I(1)]), ("T", [I(2), I(1)])]
    rngs = [("r", 1, 3, False), ("r", 1, 2, True), ("r", 1, None, False), ("r", None, 3, False), ("r", None, None, False),
            ("r", 3, 1, False), ("r", 0, 2 ** 40, False)]
    misc = [("n",), ("b", True), ("b", False)]
    lists = [("L", []), ("L", [I(1), I(2)]), ("L", [Fl(1.0), I(2)]), ("L", [("L", [I(1)]), ("L", [I(2)])]),
             ("L", [NAN]), ("L", [I(1), ("L", [I(2), ("M", [(S("a"), I(1))])])]),
             ("L", [I(1), ("L", [I(2), ("M", [(S("a"), Fl(1.0))])])]), ("L", [I(1), I(2), I(3)])]
    maps = [("M", []), ("M", [(I(1), S("a"))]), ("M", [(Fl(1.0), S("a"))]),
            ("M", [(S("a"), I(1)), (S("b"), I(2))]), ("M", [(S("b"), I(2)), (S("a"), I(1))]),
            ("M", [(S("a"), I(1)), (S("b"), I(3))]),
            ("M", [(I(1), S("x")), (I(2), S("y"))]), ("M", [(Fl(1.0), S("x")), (I(2), S("y"))]),
            ("M", [(S("k"), ("L", [I(1)]))]), ("M", [(S("k"), ("L", [Fl(1.0)]))]),
            ("M", [(Fl(0.0), I(1)), (S("x"), I(2))]), ("M", [(Fl(-0.0), I(1)), (S("x"), I(2))]),
            ("M", [(NAN, I(1))]), ("M", [(I(1), I(1)), (Fl(1.0), I(1))]), ("M", [(I(2), S("y")), (I(1), S("x"))])]
    return nums + strs + tups + rngs + misc + lists + maps


LEAVES = [I(0), I(1), I(2), Fl(1.0), Fl(2.0), Fl(1.5), Fl(-0.0), Fl(0.0), S("a"), S("b"), S(""), ("n",), ("b", True),
          ("b", False), ("r", 1, 3, False), I(P53), Fl(float(P53)), I(P53 + 1), NAN, I(-1), ("T", [I(1), I(2)]),
          ("T", [Fl(1.0), I(2)])]


def hashable_desc(d):
    if d[0] in ("L", "M"):
        return False
    if d[0] == "T":
        return all(hashable_desc(x) for x in d[1])
    return True


def rand_value(rng, depth):
    if depth == 0 or rng.chance(2, 5):
        return rng.choice(LEAVES)
    k = rng.below(3)
    n = rng.below(4)
    if k == 0:
        return ("L", [rand_value(rng, depth - 1) for _ in range(n)])
    if k == 1:
        return ("T", [rand_value(rng, depth - 1) for _ in range(n)])
    ents = []
    for _ in range(n):
        key = rng.choice(LEAVES)
        ents.append((key, rand_value(rng, depth - 1)))
    return ("M", ents)


EQUIV = {("i", 1): Fl(1.0), ("f", fbits(1.0)): I(1), ("i", 2): Fl(2.0), ("f", fbits(2.0)): I(2), ("i", 0): Fl(-0.0),
         ("f", fbits(0.0)): Fl(-0.0), ("f", fbits(-0.0)): I(0), ("i", P53 + 1): Fl(float(P53)), ("i", P53): Fl(float(P53))}


def mutate(rng, d):
    """a near copy: one leaf replaced by an equal-but-different representation or by another leaf; or the
    entries of a map reordered"""
    t = d[0]
    if t in ("L", "T") and d[1]:
        i = rng.below(len(d[1]))
        xs = list(d[1])
        xs[i] = mutate(rng, xs[i])
        return (t, xs)
    if t == "M" and d[1]:
        ents = list(d[1])
        c = rng.below(3)
        if c == 0:
            ents.reverse()
            return ("M", ents)
        i = rng.below(len(ents))
        if c == 1:
            ents[i] = (ents[i][0], mutate(rng, ents[i][1]))
        else:
            ents[i] = (mutate(rng, ents[i][0]), ents[i][1])
            if not hashable_desc(ents[i][0]):
                ents[i] = (I(7), ents[i][1])
        return ("M", ents)
    key = (d[0], d[1]) if t in ("i", "f") else None
    if key in EQUIV and rng.chance(2, 3):
        return EQUIV[key]
    return rng.choice(LEAVES)


def random_pool(rng, n):
    pool = []
    while len(pool) < n:
        v = rand_value(rng, 3)
        pool.append(v)
        if len(pool) < n:
            pool.append(mutate(rng, v))
        if len(pool) < n and rng.chance(1, 2):
            pool.append(mutate(rng, v))
    return pool


FILL = [S("f0"), S("f1"), S("f2")]


def sort_requests(rng, pool, n):
    """index lists to sort: mostly numbers-only / strings-only, some mixed"""
    nums = [i for i, d in enumerate(pool) if d[0] in ("i", "f")]
    strs = [i for i, d in enumerate(pool) if d[0] == "s"]
    out = []
    for _ in range(n):
        c = rng.below(10)
        src = nums if c < 6 else strs if c < 9 else list(range(len(pool)))
        if not src:
            continue
        k = rng.below(7)
        out.append([rng.choice(src) for _ in range(k)])
    # a long one: the standard library switches algorithm above 20 elements
    if nums:
        out.append([rng.choice(nums) for _ in range(40)])
    return out


def ksort_requests(rng, pool, n):
    hs = [i for i, d in enumerate(pool) if hashable_desc(d)]
    nums = [i for i in hs if pool[i][0] in ("i", "f")]
    strs = [i for i in hs if pool[i][0] == "s"]
    tups = [i for i in hs if pool[i][0] == "T"]
    out = []
    for _ in range(n):
        c = rng.below(10)
        src = nums if c < 4 else strs if c < 6 else tups if c < 8 else hs
        if not src:
            continue
        out.append([rng.choice(src) for _ in range(rng.below(7))])
    return out


# ---------------------------------------------------------------------------
# laws: compare model tables with the implementation's tables, evaluate the clauses


def code(x):
    """harness binop cell -> 0/1/2"""
    if isinstance(x, list):
        return 2
    return x


def check_pool(chk, name, pool, impl, model, sorts, ksorts, model_sorts, model_ksorts, fails, disagreements, stats):
    n = len(pool)
    m_eq, m_ne, m_lt, m_le, m_gt, m_ge, m_hashable, m_keys, m_mut = model
    nan = [has_nan(d) for d in pool]
    isnum = [d[0] in ("i", "f") for d in pool]
    isstr = [d[0] == "s" for d in pool]
    ops = {"eq": m_eq, "ne": m_ne, "lt": m_lt, "le": m_le, "gt": m_gt, "ge": m_ge}
    I_ = {k: [[code(x) for x in row] for row in impl[k]] for k in ops}

    def witness(i, j=None, k=None):
        w = {"pool": name, "values": [to_json(pool[i])] + ([to_json(pool[j])] if j is not None else [])
             + ([to_json(pool[k])] if k is not None else []),
             "canon": [impl["canon"][i]] + ([impl["canon"][j]] if j is not None else [])
             + ([impl["canon"][k]] if k is not None else [])}
        return w

    # ---- R: model tables == implementation tables
    for opn, mt in ops.items():
        for i in range(n):
            for j in range(n):
                stats["pairs"] += 1
                if mt[i][j] != I_[opn][i][j]:
                    # map equality goes through lookups: with keys that are `==` to a common key but not to each
                    # other (integers beyond 2^53, C14e) the entry a lookup finds depends on the hash table's layout
                    if opn in ("eq", "ne") and pool_conflict(pool[i], pool[j]):
                        chk.known(KNOWN_E)
                        continue
                    disagreements.append({"what": f"`{opn}` table", **witness(i, j), "model": mt[i][j], "impl": I_[opn][i][j]})
    for i in range(n):
        if bool(m_hashable[i]) != impl["hashable"][i]:
            disagreements.append({"what": "is_hashable", **witness(i), "model": m_hashable[i], "impl": impl["hashable"][i]})
    for i in range(n):
        for j in range(n):
            mk = m_keys[i][j]
            if not mk:
                if impl["keq"][i][j] is not None:
                    disagreements.append({"what": "hashable pair", **witness(i, j)})
                continue
            keq, kcmp, heq, g1, gn, conf = mk
            if conf:
                disagreements.append({"what": "the model has equal keys with different hasher input", **witness(i, j)})
            ii = {"keq": int(impl["keq"][i][j]), "kcmp": impl["kcmp"][i][j],
                  "heq": int(impl["hash"][i] == impl["hash"][j]), "get1": impl["get1"][i][j], "getn": impl["getn"][i][j]}
            mm = {"keq": keq, "kcmp": kcmp, "heq": heq, "get1": g1, "getn": gn}
            ins1, insn, rem1, remn = m_mut[i][j][0:3], m_mut[i][j][3:6], m_mut[i][j][6:8], m_mut[i][j][8:10]
            mm.update({"ins1": ins1, "insn": insn, "rem1": rem1, "remn": remn})
            ii.update({"ins1": [int(x) for x in impl["ins1"][i][j]], "insn": [int(x) for x in impl["insn"][i][j]],
                       "rem1": [int(x) for x in impl["rem1"][i][j]], "remn": [int(x) for x in impl["remn"][i][j]]})
            for f in mm:
                if f == "heq":
                    # equal hasher input => equal hash; (different inputs may collide: null, false, 0, 0.0, () all hash to 0)
                    if mm[f] == 1 and ii[f] != 1:
                        disagreements.append({"what": "equal hasher input, different hash", **witness(i, j)})
                    continue
                if mm[f] != ii[f]:
                    disagreements.append({"what": f"key table `{f}`", **witness(i, j), "model": mm[f], "impl": ii[f]})

    # ---- D: the clauses on the implementation's own tables
    eq, ne, lt, le, gt, ge = (I_[k] for k in ("eq", "ne", "lt", "le", "gt", "ge"))
    for i in range(n):
        if not nan[i] and eq[i][i] != 1:
            fails.append({"clause": "`==` is reflexive on NaN-free data", **witness(i), "impl": eq[i][i]})
        for j in range(n):
            if ne[i][j] != 1 - eq[i][j]:
                fails.append({"clause": "`!=` is the negation of `==`", **witness(i, j), "impl": [eq[i][j], ne[i][j]]})
            if not nan[i] and not nan[j] and eq[i][j] != eq[j][i]:
                if pool_conflict(pool[i], pool[j]):
                    chk.known(KNOWN_E)
                else:
                    fails.append({"clause": "`==` is symmetric on NaN-free data", **witness(i, j), "impl": [eq[i][j], eq[j][i]]})
            ordered = (isnum[i] and isnum[j] and not nan[i] and not nan[j]) or (isstr[i] and isstr[j])
            if ordered:
                stats["ordered_pairs"] += 1
                if lt[i][j] + eq[i][j] + lt[j][i] != 1 or 2 in (lt[i][j], lt[j][i]):
                    fails.append({"clause": "exactly one of a<b, a==b, b<a", **witness(i, j), "impl": [lt[i][j], eq[i][j], lt[j][i]]})
                if le[i][j] != (1 if lt[i][j] or eq[i][j] else 0) or gt[i][j] != lt[j][i] or ge[i][j] != 1 - lt[i][j]:
                    fails.append({"clause": "<=, >, >= agree with < and ==", **witness(i, j),
                                  "impl": [lt[i][j], le[i][j], gt[i][j], ge[i][j], eq[i][j]]})
    ordn = [i for i in range(n) if isnum[i] and not nan[i]]
    ords = [i for i in range(n) if isstr[i]]
    for grp in (ordn, ords):
        for a in grp:
            for b in grp:
                if not lt[a][b]:
                    continue
                for c in grp:
                    stats["triples"] += 1
                    if lt[b][c] and not lt[a][c]:
                        fails.append({"clause": "`<` is transitive", **witness(a, b, c)})
    # `==` transitivity on numbers fails beyond 2^53 (C14e); everything else must be transitive
    for a in ordn:
        for b in ordn:
            if not eq[a][b]:
                continue
            for c in ordn:
                if eq[b][c] and not eq[a][c]:
                    if any(pool[x][0] == "i" and abs(pool[x][1]) > P53 for x in (a, b, c)):
                        chk.known(KNOWN_E)
                    else:
                        fails.append({"clause": "`==` is transitive on numbers up to 2^53", **witness(a, b, c)})
    # keys
    for i in range(n):
        for j in range(n):
            if impl["keq"][i][j] is None:
                continue
            stats["key_pairs"] += 1
            e = eq[i][j]
            if int(impl["keq"][i][j]) != e:
                fails.append({"clause": "ValueKey equality is `==`", **witness(i, j)})
            if e and impl["hash"][i] != impl["hash"][j]:
                fails.append({"clause": "equal keys have equal hashes", **witness(i, j), "impl": [impl["hash"][i], impl["hash"][j]]})
            for tab in ("get1", "getn"):
                found = impl[tab][i][j] >= 0
                if found != bool(e):
                    fails.append({"clause": f"a key addresses an entry exactly when it is `==` to the entry's key ({tab})",
                                  **witness(i, j), "impl": {"found": found, "==": e}})
            # insert of an equal key updates in place (length unchanged), of a different key appends
            for tab, base in (("ins1", 1), ("insn", 1 + len(FILL))):
                idx, had, ln = impl[tab][i][j]
                if bool(had) != bool(e) or ln != (base if e else base + 1):
                    fails.append({"clause": f"insert with an equal key updates in place, otherwise appends ({tab})",
                                  **witness(i, j), "impl": impl[tab][i][j]})
    # sorts
    for req, r, mr in zip(sorts, impl["sorts"], model_sorts):
        stats["sorts"] += 1
        vals = [pool[i] for i in req]
        big = any(v[0] == "i" and abs(v[1]) > P53 for v in vals) and any(v[0] == "f" for v in vals)
        if r.get("panic"):
            if big:
                chk.known(KNOWN_E)     # slice::sort_by panics: "comparison function does not correctly implement a total order"
                stats["sorts_panicked_C14e"] += 1
            else:
                fails.append({"clause": "sorting does not crash the interpreter", "pool": name, "indices": req,
                              "values": [to_json(v) for v in vals], "impl": r})
            continue
        if mr[0] == 0:
            if r["ok"] and len(req) >= 2:
                disagreements.append({"what": "sort_values: model reports an invalid comparison", "pool": name, "indices": req, "impl": r})
            continue
        if not r["ok"]:
            disagreements.append({"what": "sort_values failed", "pool": name, "indices": req, "impl": r})
            continue
        if any(has_nan(v) for v in vals):
            continue
        got = r["result"]
        want = canon_of_flat(mr[1:])
        inp = sorted(impl["canon"][i] for i in req)
        items = split_canon_list(got)
        if sorted(items) != inp:
            fails.append({"clause": "sort returns a permutation of its input", "pool": name, "indices": req, "impl": got})
            continue
        pos = {c: i for i, c in enumerate(impl["canon"])}
        idxs = [pos[c] for c in items]
        bad = [k for k in range(len(idxs) - 1) if gt[idxs[k]][idxs[k + 1]] == 1]
        if bad:
            if big:
                chk.known(KNOWN_E)
            else:
                fails.append({"clause": "sort returns an ordered sequence", "pool": name, "indices": req, "impl": got})
        if got != want and not big:
            disagreements.append({"what": "sort_values result", "pool": name, "indices": req, "impl": got, "model": want})
    for req, r, mr in zip(ksorts, impl["ksorts"], model_ksorts):
        if r is None:
            continue
        stats["ksorts"] += 1
        consistent = mr[0]
        want = canon_of_flat(mr[1:])
        vals = [pool[i] for i in req]
        if any(pool_conflict(a, b) for a in vals for b in vals) or any(has_nan(v) for v in vals):
            continue
        if not consistent:
            stats["ksorts_inconsistent_cmp"] += 1
            continue
        if r["after"] != want:
            disagreements.append({"what": "map.sort() order", "pool": name, "indices": req, "impl": r, "model": want})


def split_canon_list(s):
    """'L[a,b,..]' -> top-level items"""
    assert s.startswith("L[") and s.endswith("]"), s
    body = s[2:-1]
    items, depth, cur, instr, i = [], 0, "", False, 0
    while i < len(body):
        ch = body[i]
        if instr:
            cur += ch
            if ch == '"':
                instr = False
        elif ch == '"':
            instr = True
            cur += ch
        elif ch in "[({":
            depth += 1
            cur += ch
        elif ch in "])}":
            depth -= 1
            cur += ch
        elif ch == "," and depth == 0:
            items.append(cur)
            cur = ""
        else:
            cur += ch
        i += 1
    if cur or body:
        items.append(cur)
    return items


def split_top(body):
    """top-level comma-separated items of a canonical rendering's body"""
    items, depth, cur, instr = [], 0, "", False
    for ch in body:
        if instr:
            cur += ch
            if ch == '"':
                instr = False
        elif ch == '"':
            instr = True
            cur += ch
        elif ch in "[({":
            depth += 1
            cur += ch
        elif ch in "])}":
            depth -= 1
            cur += ch
        elif ch == "," and depth == 0:
            items.append(cur)
            cur = ""
        else:
            cur += ch
    if cur or body:
        items.append(cur)
    return items


def map_keys(canon):
    """'M{k=v,..}' -> [k, ..] (None when it is not a map)"""
    if not (canon.startswith("M{") and canon.endswith("}")):
        return None
    keys = []
    for item in split_top(canon[2:-1]):
        depth, instr = 0, False
        for i, ch in enumerate(item):
            if instr:
                if ch == '"':
                    instr = False
            elif ch == '"':
                instr = True
            elif ch in "[({":
                depth += 1
            elif ch in "])}":
                depth -= 1
            elif ch == "=" and depth == 0:
                keys.append(item[:i])
                break
    return keys


def is_subsequence(a, b):
    it = iter(b)
    return all(x in it for x in a)


def map_order_clause(opterm, before, after):
    """the order clause of C14 for one successful map operation, on the implementation's own renderings of
    the receiver before / after; returns a description of the failure or None"""
    kb, ka = map_keys(before), map_keys(after)
    if kb is None or ka is None:
        return None
    if opterm.startswith("(OMapRemove "):
        if not (len(ka) in (len(kb), len(kb) - 1) and is_subsequence(ka, kb)):
            return "remove keeps the order of the remaining entries"
    elif opterm.startswith("(OMapInsert "):
        if not (ka == kb or ka[:-1] == kb):
            return "insert updates in place or appends"
    elif opterm.startswith("(OSort "):
        if sorted(ka) != sorted(kb):
            return "sort permutes the entries"
    elif opterm.startswith("(OMapExtend "):
        if ka[:len(kb)] != kb:
            return "extend keeps the existing entries in place and appends"
    elif opterm.startswith("(OMapIdxAssign "):
        i = int(opterm.split()[2])
        if len(ka) != len(kb) or any(x != y for j, (x, y) in enumerate(zip(ka, kb)) if j != i):
            return "index assignment replaces one entry in place"
    return None


import re as _re

_OP_RE = _re.compile(r"^\(?(\w+)((?: \d+)*)")
_TWO_NAMES = {"OConcat", "OListExtend", "OMapExtend", "OEq"}
_DERIVING = {"OAlias", "OIndex", "OPop", "ORemoveAt", "OMapGet", "OMapRemove", "OMapInsert", "ODeepCopy", "OEq"}
_MUTATING = {"OPop", "ORemoveAt", "OMapInsert", "OMapRemove", "OPush", "OInsertAt", "OSetIdx", "OListExtend", "OSort",
             "OMapExtend", "OMapIdxAssign"}


def op_names(term):
    """(operation name, receiver/source names, names used as stored elements)"""
    m = _OP_RE.match(term)
    if not m:
        return term, [], []
    name = m.group(1)
    ints = [int(x) for x in m.group(2).split()]
    if name in ("ONewList", "ONewTuple", "ONewMap"):
        recv = []
    elif name in _TWO_NAMES:
        recv = ints[:2]
    else:
        recv = ints[:1]
    elems = [int(x) for x in _re.findall(r"AVar (\d+)", term)]
    return name, recv, elems


def deep_copy_clause(ops, irows, fails, src):
    """C14 on the implementation's own observations: what a deep copy shows changes only by operations through
    the copy (or through names obtained from it).  Checked for each deep copy until the first operation that
    stores / shares the copy somewhere else."""
    nb = 0
    bound_at = []       # per step: index of the name it binds or None
    for term, body, binds in ops:
        bound_at.append(nb if binds else None)
        if binds:
            nb += 1
    for k0, (term, body, binds) in enumerate(ops):
        name, recv, elems = op_names(term)
        if name != "ODeepCopy" or k0 >= len(irows) or irows[k0][0] != 0:
            continue
        n = bound_at[k0]
        tainted = {n}
        for k in range(k0 + 1, min(len(ops), len(irows))):
            nm, rc, el = op_names(ops[k][0])
            shares = (set(el) & tainted) or (nm in ("OConcat", "OCopy", "OSlice", "OListExtend", "OMapExtend") and set(rc) & tainted and nm != "OCopy") \
                or (nm in ("OListExtend", "OMapExtend", "OConcat") and set(rc) & tainted)
            if nm == "OCopy" and set(rc) & tainted:
                shares = True
            if shares:
                break
            touches = bool(set(rc) & tainted)
            if touches and el:
                break      # something from outside is stored into the copy: it is no longer isolated
            if touches and nm in _DERIVING and bound_at[k] is not None:
                tainted.add(bound_at[k])
            if touches and nm in _MUTATING:
                continue
            prev, cur = irows[k - 1][1], irows[k][1]
            if n < len(prev) and n < len(cur) and prev[n] != cur[n]:
                fails.append({"clause": "a deep copy is independent: it changed although the operation did not go through it",
                              "script": src, "step": k, "op": ops[k][0], "name": n, "impl": [prev[n], cur[n]]})
                break


def scalar_leaves(d, out):
    t = d[0]
    if t in ("L", "T"):
        for x in d[1]:
            scalar_leaves(x, out)
    elif t == "M":
        for k, v in d[1]:
            scalar_leaves(k, out)
            scalar_leaves(v, out)
    else:
        out.append(d)
    return out


def num_value(d):
    """exact rational value of a non-NaN number description, or None"""
    if d[0] == "i":
        return d[1]
    if d[0] == "f":
        x = struct.unpack("<d", struct.pack("<Q", d[1]))[0]
        if x != x or x in (float("inf"), float("-inf")):
            return ("f", x)
        return x
    return None


def pool_conflict(a, b):
    """could a map `==` between (parts of) a and b meet keys that are `==` as f64 without being the same number
    (an integer beyond 2^53 next to the float or integer it rounds to: C14e)?  Then `==` on keys is not an
    equivalence and which entry a lookup finds depends on the hash table."""
    from fractions import Fraction

    def exact(d):
        if d[0] == "i":
            return Fraction(d[1])
        x = float_of(d)
        if x != x or x in (float("inf"), float("-inf")):
            return None
        return Fraction(x)

    nums = [x for x in scalar_leaves(a, []) + scalar_leaves(b, []) if x[0] in ("i", "f")]
    for x in nums:
        for y in nums:
            if x == y:
                continue
            try:
                if float_of(x) == float_of(y) and exact(x) != exact(y):
                    return True
            except OverflowError:
                pass
    return False


def float_of(d):
    if d[0] == "i":
        return float(d[1])
    return struct.unpack("<d", struct.pack("<Q", d[1]))[0]


# ---------------------------------------------------------------------------
# histories

HLITS = [I(0), I(1), I(2), I(3), Fl(1.5), S("a"), S("b"), S(""), ("b", True), ("n",), ("T", [I(1), I(2)]),
         ("r", 1, 3, False), I(-1), Fl(2.5), S("c")]
HLITS_CONFLICT = [Fl(1.0), Fl(-0.0), Fl(0.0), Fl(2.0), ("T", [Fl(1.0), I(2)]), NAN]
KEYLITS = [I(0), I(1), I(2), S("a"), S("b"), Fl(1.5), ("T", [I(1), I(2)]), ("b", True), ("n",), ("r", 1, 3, False), I(3)]


class Shadow:
    """what the generator knows about a name: kind and creation rank bounds (to keep heaps acyclic)"""
    def __init__(self, kind, rank, maxr, immut=False, sz=1):
        self.sz = sz          # rough upper bound on the size of the tree it shows (keeps histories from exploding)
        self.kind = kind      # list | tuple | map | scalar | unk
        self.rank = rank      # creation time of its own container (None: unknown / not a container)
        self.maxr = maxr      # upper bound on the creation time of anything reachable
        self.immut = immut    # handle-free immutable value: its rendering must never change


MODE_CHOICES = {
    # branch selectors (see the ranges in gen_history) for the focused modes
    "map": [62, 63, 64, 65, 69, 70, 71, 72, 73, 94, 95, 96, 97, 98, 99, 99, 24, 30, 36, 36, 42, 52, 76, 18, 62, 70, 80, 81, 83],
    "list": [80, 81, 82, 86, 89, 92, 94, 56, 59, 60, 42, 48, 52, 24, 30, 36, 36, 5, 14, 76, 80, 59],
}


def gen_history(rng, length, conflict, mode="mixed"):
    lits = HLITS + (HLITS_CONFLICT if conflict else [])
    keys = KEYLITS + ([Fl(1.0), Fl(-0.0), Fl(0.0), ("T", [Fl(1.0), I(2)])] if conflict else [])
    names = []     # Shadow per name
    ops = []       # (coq term, script lines, binds)
    t = [0]

    def lit_atom(pool=None):
        d = rng.choice(pool or lits)
        return (f"(ALit {to_coq(d)})", to_koto(d), d)

    def elem_atom(recv_rank):
        """an element to store into a container created at recv_rank (None: unknown receiver -> literals only)"""
        if names and recv_rank is not None and rng.chance(2, 5):
            cands = [i for i, s in enumerate(names) if s.maxr < recv_rank]
            if cands:
                i = rng.choice(cands)
                return (f"(AVar {i})", f"v{i}", None)
        return lit_atom()

    def pick(kinds):
        c = [i for i, s in enumerate(names) if s.kind in kinds]
        return rng.choice(c) if c else None

    LIMIT = 120

    def esz(e):
        return 1 if e[2] is not None else names[int(e[1][1:])].sz

    def grow(x, amount):
        """account for `amount` more nodes under name x; False when that would make the value too big"""
        if names[x].sz + amount > LIMIT:
            return False
        names[x].sz += amount
        return True

    def pick_any():
        """a name to alias / copy / compare: mostly containers"""
        c = [i for i, s in enumerate(names) if s.kind in ("list", "map", "tuple")]
        if c and rng.chance(3, 4):
            return rng.choice(c)
        return rng.below(len(names))

    def add(term, expr, shadow):
        """binding op"""
        n = len(names)
        ops.append((term, [f"v{n} = null", "try", f"  v{n} = {expr}", "catch _", "  obs 'E'"], True))
        names.append(shadow)

    def mut(term, x, call):
        """mutation through name x; `call(recv)` renders the statement with receiver text recv"""
        via = rng.below(4)
        if via == 0:      # through a function argument
            body = ["try", f"  f = |a| {call('a')}", f"  f v{x}", "catch _", "  obs 'E'"]
        elif via == 1:    # through a capture
            body = ["try", f"  g = || {call('v%d' % x)}", "  g()", "catch _", "  obs 'E'"]
        else:
            body = ["try", f"  {call('v%d' % x)}", "catch _", "  obs 'E'"]
        ops.append((term, body, False))

    if mode in ("map", "list"):
        # an inner list first, so that containers hold a shared child
        t[0] += 1
        es = [lit_atom() for _ in range(1 + rng.below(3))]
        add("(ONewList [" + "; ".join(e[0] for e in es) + "])", "[" + ", ".join(e[1] for e in es) + "]", Shadow("list", t[0], t[0]))
    if mode == "map":
        t[0] += 1
        add("ONewMap", "{}", Shadow("map", t[0], t[0]))
        ks = list(keys)
        for _ in range(3 + rng.below(3)):
            kd = ks.pop(rng.below(len(ks)))
            e = ("(AVar 0)", "v0", None) if rng.chance(1, 3) else lit_atom()
            t[0] += 1
            add(f"(OMapInsert 1 (ALit {to_coq(kd)}) {e[0]})", f"v1.insert({to_koto(kd)}, {e[1]})", Shadow("unk", None, names[1].maxr))
    elif mode == "list":
        t[0] += 1
        es = [("(AVar 0)", "v0", None) if rng.chance(1, 3) else lit_atom() for _ in range(3 + rng.below(3))]
        add("(ONewList [" + "; ".join(e[0] for e in es) + "])", "[" + ", ".join(e[1] for e in es) + "]", Shadow("list", t[0], t[0]))
    for _ in range(length):
        t[0] += 1
        now = t[0]
        c = rng.below(100)
        if mode in MODE_CHOICES and rng.chance(4, 5):
            c = rng.choice(MODE_CHOICES[mode])
        if not names or c < 12:
            k = rng.below(4)
            es = [elem_atom(now) for _ in range(k)]
            if 1 + sum(esz(e) for e in es) > LIMIT:
                continue
            add("(ONewList [" + "; ".join(e[0] for e in es) + "])", "[" + ", ".join(e[1] for e in es) + "]",
                Shadow("list", now, now, sz=1 + sum(esz(e) for e in es)))
        elif c < 17:
            k = rng.below(3)
            es = [elem_atom(now) for _ in range(k)]
            txt = "(" + ", ".join(e[1] for e in es) + ("," if k == 1 else "") + ")"
            immut = all(e[2] is not None for e in es)
            if 1 + sum(esz(e) for e in es) > LIMIT:
                continue
            add("(ONewTuple [" + "; ".join(e[0] for e in es) + "])", txt, Shadow("tuple", None, now, immut, sz=1 + sum(esz(e) for e in es)))
        elif c < 23:
            add("ONewMap", "{}", Shadow("map", now, now))
        elif c < 29:
            x = pick_any()
            s = names[x]
            add(f"(OAlias {x})", f"v{x}", s)
        elif c < 35:
            x = pick_any()
            s = names[x]
            add(f"(OCopy {x})", f"koto.copy(v{x})", Shadow(s.kind, now if s.kind in ("list", "map") else s.rank, now, s.immut, sz=s.sz))
        elif c < 41:
            x = pick_any()
            s = names[x]
            add(f"(ODeepCopy {x})", f"koto.deep_copy(v{x})", Shadow(s.kind, now if s.kind in ("list", "map") else s.rank, now, s.immut, sz=s.sz))
        elif c < 47:
            x = pick(("list", "tuple", "map"))
            if x is None:
                continue
            i = rng.below(4)
            add(f"(OIndex {x} {i})", f"v{x}[{i}]", Shadow("unk", None, names[x].maxr, sz=names[x].sz))
        elif c < 51:
            x = pick(("list", "tuple"))
            if x is None:
                continue
            lo, hi = rng.below(3), rng.below(5)
            add(f"(OSlice {x} {lo} {hi})", f"v{x}[{lo}..{hi}]",
                Shadow(names[x].kind, now if names[x].kind == "list" else None, now, sz=names[x].sz))
        elif c < 55:
            x = pick(("list", "tuple", "map"))
            if x is None:
                continue
            y = pick((names[x].kind,))
            if names[x].sz + names[y].sz > LIMIT:
                continue
            add(f"(OConcat {x} {y})", f"v{x} + v{y}",
                Shadow(names[x].kind, now if names[x].kind != "tuple" else None, now, sz=names[x].sz + names[y].sz))
        elif c < 58:
            x = pick(("list", "unk"))
            if x is None:
                continue
            add(f"(OPop {x})", f"v{x}.pop()", Shadow("unk", None, names[x].maxr, sz=names[x].sz))
        elif c < 61:
            x = pick(("list",))
            if x is None:
                continue
            i = rng.below(4)
            add(f"(ORemoveAt {x} {i})", f"v{x}.remove({i})", Shadow("unk", None, names[x].maxr, sz=names[x].sz))
        elif c < 69:
            x = pick(("map",))
            if x is None:
                continue
            k = lit_atom(keys) if rng.chance(9, 10) else lit_atom([("T", [I(1), ("L", [])])] if False else keys)
            e = elem_atom(names[x].rank)
            if not grow(x, esz(e)):
                continue
            add(f"(OMapInsert {x} {k[0]} {e[0]})", f"v{x}.insert({k[1]}, {e[1]})", Shadow("unk", None, names[x].maxr, sz=names[x].sz))
        elif c < 72:
            x = pick(("map",))
            if x is None:
                continue
            k = lit_atom(keys)
            add(f"(OMapRemove {x} {k[0]})", f"v{x}.remove({k[1]})", Shadow("unk", None, names[x].maxr, sz=names[x].sz))
        elif c < 75:
            x = pick(("map",))
            if x is None:
                continue
            k = lit_atom(keys)
            add(f"(OMapGet {x} {k[0]})", f"v{x}.get({k[1]})", Shadow("unk", None, names[x].maxr, sz=names[x].sz))
        elif c < 78:
            x = pick_any()
            y = pick_any()
            add(f"(OEq {x} {y})", f"v{x} == v{y}", Shadow("scalar", None, 0, True))
        elif c < 85:
            x = pick(("list", "unk"))
            if x is None:
                continue
            e = elem_atom(names[x].rank)
            if not grow(x, esz(e)):
                continue
            mut(f"(OPush {x} {e[0]})", x, lambda r, e=e: f"{r}.push({e[1]})")
        elif c < 88:
            x = pick(("list",))
            if x is None:
                continue
            i = rng.below(4)
            e = elem_atom(names[x].rank)
            if not grow(x, esz(e)):
                continue
            mut(f"(OInsertAt {x} {i} {e[0]})", x, lambda r, e=e, i=i: f"{r}.insert({i}, {e[1]})")
        elif c < 91:
            x = pick(("list",))
            if x is None:
                continue
            i = rng.below(4)
            e = elem_atom(names[x].rank)
            if not grow(x, esz(e)):
                continue
            mut(f"(OSetIdx {x} {i} {e[0]})", x, lambda r, e=e, i=i: f"{r}[{i}] = {e[1]}")
        elif c < 93:
            x = pick(("list",))
            if x is None:
                continue
            cands = [i for i, s in enumerate(names) if s.kind in ("list", "tuple") and s.maxr < names[x].rank]
            if rng.chance(1, 12):
                cands = [x]      # x.extend x  (C14c)
            if not cands:
                continue
            y = rng.choice(cands)
            if not grow(x, names[y].sz):
                continue
            mut(f"(OListExtend {x} {y})", x, lambda r, y=y: f"{r}.extend(v{y})")
        elif c < 96:
            x = pick(("list", "map"))
            if x is None:
                continue
            mut(f"(OSort {x})", x, lambda r: f"{r}.sort()")
        elif c < 98:
            x = pick(("map",))
            if x is None:
                continue
            cands = [i for i, s in enumerate(names) if s.kind == "map" and s.maxr < names[x].rank]
            if not cands:
                continue
            y = rng.choice(cands)
            if not grow(x, names[y].sz):
                continue
            mut(f"(OMapExtend {x} {y})", x, lambda r, y=y: f"{r}.extend(v{y})")
        else:
            x = pick(("map",))
            if x is None:
                continue
            i = rng.below(3)
            k = lit_atom(keys)
            e = elem_atom(names[x].rank)
            if not grow(x, esz(e)):
                continue
            mut(f"(OMapIdxAssign {x} {i} {k[0]} {e[0]})", x, lambda r, e=e, i=i, k=k: f"{r}[{i}] = ({k[1]}, {e[1]})")
    return ops, names


def history_script(ops):
    lines = []
    nb = 0
    for term, body, binds in ops:
        lines += body
        if binds:
            nb += 1
        lines.append("obs " + ", ".join(f"v{i}" for i in range(nb)) if nb else "obs()")
    return "\n".join(lines) + "\n"


def impl_rows(r):
    """harness output -> [(status, [canon..])] in the model's shape: an 'E' marker row before an observation
    row means the step failed"""
    rows = []
    err = False
    for row in r["obs"]:
        if row == ['s"E"']:
            err = True
            continue
        rows.append((1 if err else 0, row))
        err = False
    return rows


# ---------------------------------------------------------------------------


def corpus_cases():
    out = []
    cdir = os.path.join(C.VERIF, "corpus", PID)
    if os.path.isdir(cdir):
        for f in sorted(os.listdir(cdir)):
            if f.endswith(".jsonl"):
                for line in open(os.path.join(cdir, f), encoding="utf-8"):
                    line = line.strip()
                    if line:
                        out.append(json.loads(line))
    return out


def run_histories(chk, binp, hists, fails, disagreements, stats, model_ok):
    """hists: list of dict {ops:[(term, body, binds)], names, origin, mixedrepr (1 / 1.0 / -0.0 .. used as keys)}"""
    cf = os.path.join(C.BUILD, "cases", f"c14h-{os.getpid()}.jsonl")
    with open(cf, "w") as f:
        for h in hists:
            f.write(json.dumps({"src": history_script(h["ops"])}) + "\n")
    rc, out = C.sh([binp, cf], timeout=1800)
    os.remove(cf)
    lines = [json.loads(l) for l in out.splitlines() if l.startswith("{")]
    if rc != 0 or len(lines) != len(hists):
        # the harness process died (e.g. stack overflow in the interpreter): find the first history that kills it
        culprit = None
        for hi in range(len(lines), len(hists)):
            with open(cf, "w") as f:
                f.write(json.dumps({"src": history_script(hists[hi]["ops"])}) + "\n")
            rc1, out1 = C.sh([binp, cf], timeout=120)
            if rc1 != 0 or not out1.strip().startswith("{"):
                culprit = (hi, rc1, out1[-500:])
                break
            if hi - len(lines) > 40:
                break
        if os.path.exists(cf):
            os.remove(cf)
        if culprit:
            hi, rc1, tail = culprit
            chk.violation("input", {"kind": "input", "witness": {
                "clause": "container operations do not crash the interpreter (the process died: cyclic data created by an "
                          "operation that should have produced an independent copy?)",
                "script": history_script(hists[hi]["ops"]), "impl": {"exit": rc1, "output": tail}}})
        else:
            chk.violation("harness", {"kind": "obligation", "correspondence": "kh_val crashed on histories", "log": out[-2000:]}, no_input=True)
        return False
    vals = None
    if model_ok:
        header = "From Coq Require Import ZArith List.\nFrom KV.val Require Import ValModel HeapModel ValRun.\nImport ListNotations.\nOpen Scope Z_scope.\n"
        terms = ["run_hist_d [" + "; ".join(o[0] for o in h["ops"]) + "]" for h in hists]
        try:
            vals = C.coq_eval(UNIT, header, terms, tag="c14h", per_shard=(170 if len(terms) <= 1000 else 800))
        except RuntimeError as e:
            chk.log(str(e)[-3000:])
            chk.oblige("corr:model-evaluates (histories)", False)
            return False
    for hi, (h, r) in enumerate(zip(hists, lines)):
        src = history_script(h["ops"])
        nontrivial = sum(1 for o in h["ops"] if not o[2]) >= 1 and len({id(s) for s in h["names"]}) < len(h["names"])
        chk.count_case(src, nontrivial)
        stats["hist_" + h["origin"]] += 1
        stats["hist_ops"] += len(h["ops"])
        mrows = None
        if vals is not None:
            # rebuild the full rows from the per-step differences
            mrows, cur = [], []
            for st, (n, changed) in ((row[0], (row[1][0], row[1][1])) for row in vals[hi]):
                cur = (cur + [None] * n)[:n]
                for i, e in changed:
                    cur[i] = e
                mrows.append((st, list(cur)))
        panicked = "panic" in r
        if panicked:
            irows = []
        else:
            irows = impl_rows(r)
        # ---- model vs implementation
        if mrows is not None:
            last_status = mrows[-1][0] if mrows else 0
            n_cmp = len(mrows)
            if last_status in (2, 3, 4):
                n_cmp -= 1
            if last_status == 4:
                stats["hist_unsupported"] += 1
            if last_status == 3:
                stats["hist_cyclic"] += 1
            if last_status == 2:
                opterm = h["ops"][len(mrows) - 1][0]
                if "OMapIdxAssign" in opterm:
                    chk.known(KNOWN_B)
                else:
                    chk.known(KNOWN_C)
                if not panicked:
                    disagreements.append({"what": "model predicts a panic, the implementation did not panic", "script": src,
                                          "op": opterm, "impl": r})
                stats["hist_panics"] += 1
                continue
            if panicked:
                fails.append({"clause": "container operations do not crash the interpreter", "script": src, "impl": r})
                continue
            if r["result"].startswith("E") and r["result"] != "EThrown":
                # the script itself must not fail (every step is wrapped)
                disagreements.append({"what": "history script failed outside a step", "script": src, "impl": r})
                continue
            cut = None
            for k in range(min(n_cmp, len(irows))):
                mst, mobs = mrows[k]
                ist, iobs = irows[k]
                mcan = [canon_of_flat(x) for x in mobs]
                opterm = h["ops"][k][0]
                if mst == 1 and "OSort" in opterm:
                    cut = k   # a failed sort leaves the list in an unspecified order
                    stats["hist_cut_failed_sort"] += 1
                    break
                if (1 if mst == 1 else 0) != ist or mcan != iobs:
                    disagreements.append({"what": "history step", "script": src, "step": k, "op": opterm,
                                          "model": [mst, mcan], "impl": [ist, iobs]})
                    cut = k
                    break
            if cut is None and last_status not in (3, 4) and len(irows) != len(mrows):
                disagreements.append({"what": "history length", "script": src, "model_rows": len(mrows), "impl_rows": len(irows)})
        elif panicked:
            fails.append({"clause": "container operations do not crash the interpreter", "script": src, "impl": r})
            continue
        # ---- D: clauses on the implementation's own observations
        alias_of = {}
        nb = 0
        binders = []
        for term, body, binds in h["ops"]:
            if binds:
                if term.startswith("(OAlias "):
                    alias_of[nb] = int(term[len("(OAlias "):-1])
                nb += 1
            binders.append(nb)
        first = {}
        deep_copy_clause(h["ops"], irows, fails, src)
        for k, (ist, iobs) in enumerate(irows):
            if k > 0 and ist == 0 and k < len(h["ops"]):
                opterm = h["ops"][k][0]
                if opterm.startswith(("(OMapRemove ", "(OMapInsert ", "(OSort ", "(OMapExtend ", "(OMapIdxAssign ")):
                    x = int(opterm.split()[1].rstrip(")"))
                    prev = irows[k - 1][1]
                    if x < len(prev) and x < len(iobs):
                        why = map_order_clause(opterm, prev[x], iobs[x])
                        if why:
                            fails.append({"clause": "maps keep insertion order: " + why, "script": src, "step": k,
                                          "impl": [prev[x], iobs[x]]})
            for a, b in alias_of.items():
                if a < len(iobs) and iobs[a] != iobs[b]:
                    fails.append({"clause": "a name bound by assignment shows the same contents as the original at every later point",
                                  "script": src, "step": k, "names": [a, b], "impl": iobs})
            for i, c in enumerate(iobs):
                if i < len(h["names"]) and h["names"][i].immut:
                    if i in first and first[i] != c:
                        fails.append({"clause": "tuples, strings, ranges and numbers never change once created",
                                      "script": src, "step": k, "name": i, "impl": [first[i], c]})
                    first.setdefault(i, c)
    return True


def run(tier, seed):
    chk = C.Check(PID, tier, seed, "proof")
    # ---- T
    ok, log = C.coq_build(UNIT, ["ValRun.vo"])
    model_ok = ok
    if not ok:
        chk.log("model does not compile:\n" + log[-2500:])
    pr = C.check_props_file(UNIT, "C14Props", PINNED)
    hits = C.forbidden_scan(UNIT)
    if not pr["ok"]:
        chk.log("C14Props does not check:\n" + pr["log"][-2500:])
    for name in PINNED:
        good = pr["ok"] and name not in pr["missing"] and ("Print Assumptions " + name) not in pr["missing"] \
            and not pr["bad_axioms"] and not hits
        chk.oblige("thm:" + name, good)
    if hits:
        chk.log("forbidden constructs: " + "; ".join(hits))
    if pr["bad_axioms"]:
        chk.log("axioms outside the allowlist: " + ", ".join(pr["bad_axioms"]))
    axioms = pr["axioms"]

    binp, blog = C.build_harness("kh_val")
    if not binp:
        chk.log("harness build failed:\n" + blog[-3000:])
        chk.violation("build", {"kind": "obligation", "correspondence": "kh_val does not build against the checkout",
                                "log": blog[-3000:]}, no_input=True)
        return chk.finish("n/a")
    os.makedirs(os.path.join(C.BUILD, "cases"), exist_ok=True)
    rng = C.Rng(seed)
    from collections import Counter
    stats = Counter()
    fails = []
    disagreements = []

    # ---- laws
    pools = [("boundary", boundary_pool())]
    for c in corpus_cases():
        if "pool" in c:
            pools.append(("corpus:" + c.get("name", "?"), [from_json(x) for x in c["pool"]]))
    n_rand = 6 if tier == "quick" else 60
    for k in range(n_rand):
        pools.append((f"random{k}", random_pool(rng, 24 if tier == "quick" else 30)))
    reqs = []
    cf = os.path.join(C.BUILD, "cases", f"c14p-{os.getpid()}.jsonl")
    with open(cf, "w") as f:
        for name, pool in pools:
            sorts = sort_requests(rng, pool, 24)
            ksorts = ksort_requests(rng, pool, 16)
            reqs.append((sorts, ksorts))
            f.write(json.dumps({"pool": [to_json(d) for d in pool], "fill": [to_json(d) for d in FILL],
                                "sorts": sorts, "ksorts": ksorts}) + "\n")
    import time
    t0 = time.time()
    rc, out = C.sh([binp, cf], timeout=1800)
    chk.log(f"pools: harness {time.time() - t0:.1f}s")
    os.remove(cf)
    lines = [json.loads(l) for l in out.splitlines() if l.startswith("{")]
    if rc != 0 or len(lines) != len(pools) or any("panic" in l or "bad" in l for l in lines):
        chk.log(f"harness run failed rc={rc}: {out[-1500:]}")
        chk.violation("harness", {"kind": "obligation", "correspondence": "kh_val crashed on the pools", "log": out[-2000:]}, no_input=True)
        return chk.finish("n/a")
    model_vals = None
    if model_ok:
        header = "From Coq Require Import ZArith List.\nFrom KV.val Require Import ValModel HeapModel ValRun.\nImport ListNotations.\nOpen Scope Z_scope.\n"
        terms = []
        fillc = "[" + "; ".join(to_coq(d) for d in FILL) + "]"
        for (name, pool), (sorts, ksorts) in zip(pools, reqs):
            pc = "[" + "; ".join(to_coq(d) for d in pool) + "]"
            sl = "[" + "; ".join("[" + "; ".join(f"{i}%nat" for i in s) + "]" for s in sorts) + "]"
            kl = "[" + "; ".join("[" + "; ".join(f"{i}%nat" for i in s) + "]" for s in ksorts) + "]"
            terms.append(f"(let pool := {pc} in (laws_out pool {fillc}, map (sort_out pool) {sl}, map (ksort_out pool) {kl}))")
        try:
            t0 = time.time()
            model_vals = C.coq_eval(UNIT, header, terms, tag="c14p", per_shard=4)
            chk.log(f"pools: model {time.time() - t0:.1f}s")
        except RuntimeError as e:
            chk.log(str(e)[-3000:])
            chk.oblige("corr:model-evaluates (pools)", False)
    for pi, ((name, pool), (sorts, ksorts), impl) in enumerate(zip(pools, reqs, lines)):
        stats["pools"] += 1
        stats["pool_values"] += len(pool)
        for d in pool:
            chk.count_case(json.dumps(to_json(d)), d[0] in ("L", "T", "M"))
        if model_vals is not None:
            flat = model_vals[pi]
            laws, msorts, mksorts = flat[0:9], flat[9], flat[10]
            check_pool(chk, name, pool, impl, laws, sorts, ksorts, msorts, mksorts, fails, disagreements, stats)
    if model_vals is not None:
        chk.oblige("corr:model tables == runtime tables (== != < <= > >=, ValueKey eq/cmp/hash, get/insert/remove, sorts)",
                   not disagreements, f"{len(disagreements)} disagreements")
    n_law_dis = len(disagreements)

    # ---- histories
    hists = []
    for c in corpus_cases():
        if "hist" in c:
            hists.append({"ops": [tuple(o) for o in c["hist"]], "names": [Shadow("unk", None, 0)] * 64, "origin": "corpus",
                          "mixedrepr": c.get("conflict", False)})
    n_h = 500 if tier == "quick" else 12000
    for k in range(n_h):
        conflict = rng.chance(1, 6)
        mode = ("mixed", "map", "list")[rng.below(3)]
        length = 3 + rng.below(7 if tier == "quick" else 38)
        ops, names = gen_history(rng, length, conflict, mode)
        if ops:
            hists.append({"ops": ops, "names": names, "origin": mode + ("-mixedrepr" if conflict else ""), "mixedrepr": conflict})
    okh = run_histories(chk, binp, hists, fails, disagreements, stats, model_ok)
    if okh and model_ok:
        chk.oblige("corr:heap model == interpreter on operation histories (every live name after every step)",
                   len(disagreements) == n_law_dis, f"{len(disagreements) - n_law_dis} disagreements")

    # ---- verdict
    if fails:
        fails.sort(key=lambda x: len(json.dumps(x)))
        w = fails[0]
        chk.violation("input", {"kind": "input", "witness": w, "others": len(fails) - 1,
                                "how_to_rerun": "./check C14 --replay <this file>"})
        chk.log(f"{len(fails)} inputs violate C14 on the implementation; smallest: {json.dumps(w)[:600]}")
    broken = [o for o in chk.obligations if not o[1]]
    if broken and not fails:
        payload = {"kind": "obligation", "broken": [o[0] + (": " + o[2] if o[2] else "") for o in broken]}
        if disagreements:
            disagreements.sort(key=lambda x: len(json.dumps(x)))
            payload["smallest_disagreement"] = disagreements[0]
            payload["note"] = ("every clause of C14 evaluated on the implementation's own output holds on everything "
                               "explored, but the implementation no longer matches the model the theorems are about")
            chk.log("disagreement kinds: " + json.dumps(Counter(d["what"] for d in disagreements)))
            for d in disagreements[:6]:
                chk.log("  " + json.dumps(d)[:700])
            chk.log(f"{len(disagreements)} model/impl disagreements")
        chk.violation("obligation", payload, no_input=True)
    tb = ["Coq 8.16.1 kernel (coqc); vm_compute for evaluating the model; Flocq 4 (binary64)",
          "axioms reported by Print Assumptions: " + (", ".join(axioms) if axioms else "none"),
          "indexmap / hashbrown / FxHasher: modelled by their contract (lookup = equal hasher input and ==; single-entry "
          "fast path; insert = update in place or append; shift_remove; stable sort_by) — validated by the tables",
          "slice::sort_by / IndexMap::sort_by: Section variable with the sorted-permutation contract; insertion sort stands in",
          "kh_val (Rust harness), kh::script::canon, checks/c14.py (comparison, D-predicates)"]
    return chk.finish(
        rule="value pools (boundary pool + committed corpus + seeded random nested values with near-copies): all ordered pairs "
             "and all triples; operation histories (seeded, structured: create/alias/copy/deep_copy/index/slice/+/mutations "
             "through names, function arguments and captures) with every live name observed after every step; "
             "non-trivial = container value / history with an alias and a mutation",
        explanation="theorems over the model for all values/histories; exact equality of model and runtime tables and "
                    "observations; C14's clauses evaluated directly on the runtime's answers",
        trusted_base=tb,
        extra={"distribution": dict(stats), "model_impl_disagreements": len(disagreements), "exhaustive": False})


def from_json(j):
    if j is None:
        return ("n",)
    if isinstance(j, bool):
        return ("b", j)
    if "i" in j:
        return ("i", int(j["i"]))
    if "f" in j:
        return ("f", int(j["f"], 16))
    if "s" in j:
        return ("s", list(j["s"]))
    if "r" in j:
        return ("r", j["r"][0], j["r"][1], j["r"][2])
    if "L" in j:
        return ("L", [from_json(x) for x in j["L"]])
    if "T" in j:
        return ("T", [from_json(x) for x in j["T"]])
    if "M" in j:
        return ("M", [(from_json(k), from_json(v)) for k, v in j["M"]])
    raise ValueError(j)


def replay(path, args):
    data = json.load(open(path))
    w = data.get("witness") or data.get("smallest_disagreement")
    if not w:
        print("replay file names an obligation, not an input:", json.dumps(data.get("broken")))
        return run("quick", data.get("seed", 1))
    binp, blog = C.build_harness("kh_val")
    os.makedirs(os.path.join(C.BUILD, "cases"), exist_ok=True)
    cf = os.path.join(C.BUILD, "cases", "c14-replay.jsonl")
    if "script" in w:
        with open(cf, "w") as f:
            f.write(json.dumps({"src": w["script"]}) + "\n")
        rc, out = C.sh([binp, cf])
        print(w["script"])
        print(out.strip()[:3000])
        print("claimed:", w.get("clause") or w.get("what"), json.dumps(w.get("impl"))[:500])
        bad = "clause" in w
    else:
        with open(cf, "w") as f:
            f.write(json.dumps({"pool": w["values"], "fill": [to_json(d) for d in FILL], "sorts": [], "ksorts": []}) + "\n")
        rc, out = C.sh([binp, cf])
        r = json.loads(out.splitlines()[0])
        for k in ("canon", "eq", "ne", "lt", "le", "gt", "ge", "hash", "keq", "get1", "getn", "ins1", "insn"):
            print(k, json.dumps(r.get(k)))
        print("claimed:", w.get("clause") or w.get("what"))
        bad = "clause" in w
    if bad:
        print(f"VIOLATION property={PID} replay={path}")
        return 1
    return 0
