"""C19  rc and arc runtimes behave identically; shared containers are atomic under arc.

T  theorems in coq/locks/C19Props.v about the lock-footprint model (all schedules / all scripts)
R  correspondence: the section bodies of the model (what each critical section computes) vs the real
   list / map operations run through a KotoVm of the arc build (sequential scripts), and vs the
   Python mirror used by the linearization search (random section schedules)
D  on the implementation itself:
     (1) rc == arc : generated programs through kh_run built with each strategy, results and
         output identical
     (2) atomicity (SEARCH ONLY — a stress run can exhibit a violation, never prove absence):
         2..8 threads, each with its own KotoVm, one shared list / map; every observed history
         must have a linearization (real-time order respected), no panic, no deadlock (watchdog)
Partial: that parking_lot::RwLock provides mutual exclusion and that real schedules are covered
is outside any executable Gallina model.
"""
import json
import os
import re
import sys
import concurrent.futures

from vlib import common as C
from tools import k2v, k2v_locks

PID = "C19"
UNIT = "locks"

PINNED = [
    "single_section_linearizable", "stress_ops_linearizable", "one_lock_no_deadlock", "no_wait_for_cycle",
    "self_alias_blocks", "self_alias_panics_rc", "footprint_table", "is_single_sound", "is_flat_sound",
    "table_scripts_no_deadlock", "ops_match_table", "borrow_pins_match", "borrow_pins_consistent",
    "index_not_atomic_refuted", "insert_not_atomic_refuted", "remove_not_atomic_refuted",
    "update_lost_update_refuted", "extend_self_blocks_arc", "extend_self_panics_rc",
    "recursive_read_deadlocks_when_fair",
]
# Examples are pinned by name only (no Print Assumptions line for them)
PINNED_THEOREMS = PINNED[:13]

KNOWN = {
    "C19a": "C19a check-then-act in two critical sections: `l[i]`, `l[a..b]`, list.insert, list.remove (and list.retain "
            "with a function) validate the index under one data() guard and use it under a later guard; a concurrent "
            "pop/remove/clear in between makes the runtime PANIC (vm.rs run_index `l.data()[index]`, Vec::insert / "
            "Vec::remove asserts) instead of raising a koto error",
    "C19b": "C19b map.update is get / insert default / call f / insert in separate critical sections: concurrent updates "
            "of one key lose increments",
    "C19c": "C19c recursive shared acquisition of ONE container (`l + l`, `l == l`, `m == m`): parking_lot's task-fair "
            "RwLock parks the second read() behind a waiting writer -> deadlock with any concurrent writer",
    "C19d": "C19d receiver and argument the same container under an exclusive guard (`l.extend l`, `m.extend m`, "
            "`l.swap l`, `l.extend l.iter()`): BorrowError panic under rc, self-deadlock under arc",
}

# ---------------------------------------------------------------------------------------------
# the Python mirror of coq/locks/LocksOps.v (section bodies) — validated against Coq on every run

LIST_SINGLE = ["push", "pop", "size", "get", "first", "last", "contains", "clear", "set", "extend", "extend",
               "resize", "fill", "reverse", "sort", "retain"]
LIST_MULTI = ["index", "insert", "remove"]
MAP_SINGLE = ["minsert", "mremove", "mget", "mcontains", "msize", "mclear", "mgetindex", "mextend", "mextend", "msort"]
MAP_MULTI = ["mupdate"]
RETURNS_SELF = {"push", "clear", "extend", "insert", "mclear", "resize", "fill", "reverse", "sort", "retain", "mextend", "msort"}

N_, I_, B_, P_, SELF, ERR, PANIC = "n", "i", "b", "p", "self", "err", "panic"


def m_get(m, k):
    for kk, v in m:
        if kk == k:
            return v
    return None


def m_insert(m, k, v):
    out = []
    found = False
    for kk, vv in m:
        if kk == k and not found:
            out.append((kk, v))
            found = True
        else:
            out.append((kk, vv))
    if not found:
        out.append((k, v))
    return tuple(out)


def m_remove(m, k):
    out = []
    done = False
    for kk, vv in m:
        if kk == k and not done:
            done = True
            continue
        out.append((kk, vv))
    return tuple(out)


def opt(v):
    return (N_,) if v is None else (I_, v)


def step(op, stage, aux, st):
    """one critical section of `op`.  returns (state', ('ret', res) | ('cont', stage', aux'))"""
    k = op[0]
    if k == "push":
        return st + (op[1],), ("ret", (SELF,))
    if k == "pop":
        return st[:-1], ("ret", opt(st[-1] if st else None))
    if k == "size":
        return st, ("ret", (I_, len(st)))
    if k == "get":
        i = op[1]
        if i < 0:
            return st, ("ret", (N_,))
        return st, ("ret", opt(st[i] if i < len(st) else None))
    if k == "first":
        return st, ("ret", opt(st[0] if st else None))
    if k == "last":
        return st, ("ret", opt(st[-1] if st else None))
    if k == "contains":
        return st, ("ret", (B_, op[1] in st))
    if k == "clear":
        return (), ("ret", (SELF,))
    if k == "set":
        i, v = op[1], op[2]
        if 0 <= i < len(st):
            return st[:i] + (v,) + st[i + 1:], ("ret", (I_, v))
        return st, ("ret", (ERR,))
    if k == "extend":
        return st + tuple(op[1]), ("ret", (SELF,))
    if k == "resize":
        n, v = op[1], op[2]
        if n < 0:
            return st, ("ret", (ERR,))
        return st[:n] + (v,) * (n - len(st)), ("ret", (SELF,))
    if k == "fill":
        return (op[1],) * len(st), ("ret", (SELF,))
    if k == "reverse":
        return st[::-1], ("ret", (SELF,))
    if k == "sort":
        return tuple(sorted(st)), ("ret", (SELF,))
    if k == "retain":
        return tuple(x for x in st if x == op[1]), ("ret", (SELF,))
    if k == "mextend":
        m = st
        for kk, vv in op[1]:
            m = m_insert(m, kk, vv)
        return m, ("ret", (SELF,))
    if k == "msort":
        return tuple(sorted(st, key=lambda kv: kv[0])), ("ret", (SELF,))
    if k == "index":
        i = op[1]
        if stage == 0:
            if i < 0 or len(st) <= i:
                return st, ("ret", (ERR,))
            return st, ("cont", 1, None)
        return st, ("ret", (I_, st[i]) if i < len(st) else (PANIC,))
    if k == "insert":
        i, v = op[1], op[2]
        if stage == 0:
            if i < 0:
                return st, ("ret", (ERR,))
            if len(st) < i:
                return st, ("ret", (ERR,))
            return st, ("cont", 1, None)
        if i <= len(st):
            return st[:i] + (v,) + st[i:], ("ret", (SELF,))
        return st, ("ret", (PANIC,))
    if k == "remove":
        i = op[1]
        if stage == 0:
            if i < 0:
                return st, ("ret", (ERR,))
            if len(st) <= i:
                return st, ("ret", (ERR,))
            return st, ("cont", 1, None)
        if i < len(st):
            return st[:i] + st[i + 1:], ("ret", (I_, st[i]))
        return st, ("ret", (PANIC,))
    if k == "minsert":
        return m_insert(st, op[1], op[2]), ("ret", opt(m_get(st, op[1])))
    if k == "mremove":
        return m_remove(st, op[1]), ("ret", opt(m_get(st, op[1])))
    if k == "mget":
        return st, ("ret", opt(m_get(st, op[1])))
    if k == "mcontains":
        return st, ("ret", (B_, m_get(st, op[1]) is not None))
    if k == "msize":
        return st, ("ret", (I_, len(st)))
    if k == "mclear":
        return (), ("ret", (SELF,))
    if k == "mgetindex":
        i = op[1]
        if i < 0 or i >= len(st):
            return st, ("ret", (N_,))
        return st, ("ret", (P_, st[i][0], st[i][1]))
    if k == "mupdate":
        key, d = op[1], op[2]
        if stage == 0:      # map.get
            x = m_get(st, key)
            if x is None:
                return st, ("cont", 1, None)
            return st, ("cont", 2, x)
        if stage == 1:      # insert default
            return m_insert(st, key, 0), ("cont", 2, 0)
        return m_insert(st, key, aux + d), ("ret", (I_, aux + d))
    raise ValueError(op)


def run_whole(op, st):
    stage, aux = 0, None
    while True:
        st, o = step(op, stage, aux, st)
        if o[0] == "ret":
            return st, o[1]
        stage, aux = o[1], o[2]


def py_run_case(init, threads, sched):
    """mirror of LocksRun.run_case: one critical section per schedule entry"""
    st = init
    pos = [0] * len(threads)
    infl = [None] * len(threads)
    results = [[] for _ in threads]
    for t in sched:
        if t >= len(threads) or pos[t] >= len(threads[t]):
            continue
        op = threads[t][pos[t]]
        stage, aux = infl[t] if infl[t] else (0, None)
        st, o = step(op, stage, aux, st)
        if o[0] == "ret":
            results[t].append(o[1])
            pos[t] += 1
            infl[t] = None
        else:
            infl[t] = (o[1], o[2])
    return st, results, [len(threads[t]) - pos[t] for t in range(len(threads))]


def enc_res(r):
    return {N_: [0], SELF: [4], ERR: [5], PANIC: [6]}.get(r[0]) or (
        [1, r[1]] if r[0] == I_ else [2, 1 if r[1] else 0] if r[0] == B_ else [3, r[1], r[2]])


def enc_state(kind, st):
    if kind == "list":
        return [0] + list(st)
    return [1] + [x for kv in st for x in kv]


def z(n):
    return f"({n})" if n < 0 else str(n)


def coq_op(op):
    k = op[0]
    name = {"push": "OPush", "pop": "OPop", "size": "OSize", "get": "OGet", "first": "OFirst", "last": "OLast",
            "contains": "OContains", "clear": "OClear", "set": "OSet", "index": "OIndex", "insert": "OInsert",
            "remove": "ORemove", "minsert": "MInsert", "mremove": "MRemove", "mget": "MGet", "mcontains": "MContains",
            "msize": "MSize", "mclear": "MClear", "mgetindex": "MGetIndex", "mupdate": "MUpdate"}.get(k)
    if k == "extend":
        ctor = "OExtend" if op[2] in ("tuple", "list") else "OExtendGen"
        return f"({ctor} [" + "; ".join(z(v) for v in op[1]) + "])"
    if k == "mextend":
        return "(MExtendGen [" + "; ".join(f"({z(a)}, {z(b)})" for a, b in op[1]) + "])"
    if k in ("resize", "fill", "reverse", "sort", "retain", "msort"):
        name = {"resize": "OResize", "fill": "OFill", "reverse": "OReverse", "sort": "OSort", "retain": "ORetainVal",
                "msort": "MSort"}[k]
        args = " ".join(z(a) for a in op[1:])
        return f"({name} {args})" if args else name
    args = " ".join(z(a) for a in op[1:])
    return f"({name} {args})" if args else name


def coq_state(kind, st):
    if kind == "list":
        return "(CL [" + "; ".join(z(v) for v in st) + "])"
    return "(CM [" + "; ".join(f"({z(k)}, {z(v)})" for k, v in st) + "])"


def coq_case(kind, init, threads, sched):
    ts = "[" + "; ".join("[" + "; ".join(coq_op(o) for o in t) + "]" for t in threads) + "]"
    sc = "[" + "; ".join(str(t) for t in sched) + "]%nat"
    return f"run_case {coq_state(kind, init)} {ts} {sc}"


def koto_src(op):
    k = op[0]
    if k == "push":
        return f"shared.push({op[1]})"
    if k == "pop":
        return "shared.pop()"
    if k in ("size", "msize"):
        return "size shared"
    if k == "get":
        return f"shared.get({op[1]})"
    if k == "first":
        return "shared.first()"
    if k == "last":
        return "shared.last()"
    if k == "contains":
        return f"shared.contains({op[1]})"
    if k in ("clear", "mclear"):
        return "shared.clear()"
    if k == "set":
        return f"shared[{op[1]}] = {op[2]}"
    if k == "extend":
        body = ", ".join(str(v) for v in op[1])
        a, b = op[1][0], op[1][-1] + 1
        # a tuple (L_extend_tuple), a fresh list nobody else can reach (L_extend_list, private argument), or the
        # generic-iterable arm (L_extend_gen): range, adaptor chain, generator (payloads are consecutive)
        return {"tuple": f"shared.extend(({body},))", "list": f"shared.extend([{body}])",
                "range": f"shared.extend({a}..{b})", "chain": f"shared.extend(({a}..{b}).each |x| x)",
                "chain2": f"shared.extend(({a - 1}..{b - 1}).keep(|x| true).each(|x| x + 1))",
                "gen": f"g = ||\n  for x in {a}..{b}\n    yield x\nshared.extend(g())"}[op[2]]
    if k == "mextend":
        kvs = op[1]
        k0, v0 = kvs[0]
        n = len(kvs)
        pairs = ", ".join(f"({a}, {b})" for a, b in kvs)
        return {"pairs": f"shared.extend([{pairs}])",
                "tuples": f"shared.extend(({pairs},))",
                "map": "m = {}\n" + "".join(f"m.insert({a}, {b})\n" for a, b in kvs) + "shared.extend(m)",
                "chain": f"shared.extend((0..{n}).each |j| ({k0} + j, {v0} + j))",
                "gen": f"g = ||\n  for j in 0..{n}\n    yield ({k0} + j, {v0} + j)\nshared.extend(g())"}[op[2]]
    if k == "resize":
        return f"shared.resize({op[1]}, {op[2]})"
    if k == "fill":
        return f"shared.fill({op[1]})"
    if k == "reverse":
        return "shared.reverse()"
    if k in ("sort", "msort"):
        return "shared.sort()"
    if k == "retain":
        return f"shared.retain({op[1]})"
    if k == "index":
        return f"shared[{op[1]}]"
    if k == "insert":
        return f"shared.insert({op[1]}, {op[2]})"
    if k == "remove":
        return f"shared.remove({op[1]})"
    if k == "minsert":
        return f"shared.insert({op[1]}, {op[2]})"
    if k == "mremove":
        return f"shared.remove({op[1]})"
    if k == "mget":
        return f"shared.get({op[1]})"
    if k == "mcontains":
        return f"shared.contains_key({op[1]})"
    if k == "mgetindex":
        return f"shared.get_index({op[1]})"
    if k == "mupdate":
        return f"shared.update({op[1]}, 0, |x| x + {op[2]})"
    raise ValueError(op)


_int = re.compile(r"^i(-?\d+)$")
_pair = re.compile(r"^T\(i(-?\d+),i(-?\d+)\)$")


def parse_impl_res(o):
    """canonical string of kh -> model result"""
    if o is None:
        return None
    if "panic" in o:
        return (PANIC,)
    r = o["r"]
    if r == "n":
        return (N_,)
    if r == "t":
        return (B_, True)
    if r == "f":
        return (B_, False)
    m = _int.match(r)
    if m:
        return (I_, int(m.group(1)))
    m = _pair.match(r)
    if m:
        return (P_, int(m.group(1)), int(m.group(2)))
    if r.startswith("L[") or r.startswith("M{"):
        return (SELF,)
    if r.startswith("E"):
        return (ERR,)
    return ("?", r)


def parse_final(kind, s):
    if kind == "list":
        body = s[2:-1]
        return tuple(int(x[1:]) for x in body.split(",")) if body else ()
    body = s[2:-1]
    if not body:
        return ()
    return tuple((int(a[1:]), int(b[1:])) for a, b in (e.split("=") for e in body.split(",")))


# ---------------------------------------------------------------------------------------------
# linearization search (Wing & Gong with memoization), at operation or at section granularity


def linearizable(init, threads, observed, final, inv, resp, atomic, budget=300000):
    """threads[t][j] = op; observed[t][j] = model-form result; inv/resp stamps.
    atomic=True : whole operations are the steps.  atomic=False: critical sections are the steps.
    returns True / False / None (budget exhausted)"""
    n = len(threads)
    # real-time order: op (t, j) may start only after every op that responded before its invocation
    req = [[[sum(1 for x in range(len(threads[u])) if resp[u][x] < inv[t][j]) if u != t else 0
             for u in range(n)] for j in range(len(threads[t]))] for t in range(n)]
    seen = set()
    nodes = [0]
    total = [len(t) for t in threads]

    def ok_res(t, j, r):
        o = observed[t][j]
        if r[0] == SELF or o[0] == SELF:
            return (r[0] == SELF and o[0] == SELF)
        return r == o

    start = (tuple([0] * n), tuple([None] * n), init)
    stack = [start]
    while stack:
        cfg = stack.pop()
        if cfg in seen:
            continue
        seen.add(cfg)
        nodes[0] += 1
        if nodes[0] > budget:
            return None
        pos, infl, st = cfg
        if all(pos[t] == total[t] for t in range(n)):
            if st == final:
                return True
            continue
        for t in range(n):
            j = pos[t]
            if j >= total[t]:
                continue
            if infl[t] is None:
                # completed count of u = pos[u]
                if any(pos[u] < req[t][j][u] for u in range(n)):
                    continue
                stage, aux = 0, None
            else:
                stage, aux = infl[t]
            op = threads[t][j]
            if atomic:
                st2, r = run_whole(op, st)
                o = ("ret", r)
            else:
                st2, o = step(op, stage, aux, st)
            if o[0] == "ret":
                if not ok_res(t, j, o[1]):
                    continue
                p2 = pos[:t] + (j + 1,) + pos[t + 1:]
                i2 = infl[:t] + (None,) + infl[t + 1:]
            else:
                p2 = pos
                i2 = infl[:t] + ((o[1], o[2]),) + infl[t + 1:]
            stack.append((p2, i2, st2))
    return False


# ---------------------------------------------------------------------------------------------
# generators


def gen_ops(rng, kind, pool, n_ops, tid, ctr, size_hint):
    ops = []
    for _ in range(n_ops):
        k = rng.choice(pool)
        ctr[0] += 1
        v = (tid + 1) * 1000 + ctr[0]          # unique payload
        small = rng.below(size_hint + 3) - (1 if rng.chance(1, 8) else 0)
        if k in ("push",):
            ops.append((k, v))
        elif k in ("pop", "size", "first", "last", "clear", "msize", "mclear"):
            if k in ("clear", "mclear") and not rng.chance(1, 4):
                k = "pop" if kind == "list" else "msize"
            ops.append((k,))
        elif k in ("get", "index", "remove", "mgetindex"):
            ops.append((k, small))
        elif k == "contains":
            ops.append((k, rng.choice([1, 2, 3, 1001, 2001, 1002, v])))
        elif k in ("set", "insert"):
            ops.append((k, small, v))
        elif k == "extend":
            n = 1 + rng.below(3)
            ctr[0] += n
            ops.append((k, tuple(v + j for j in range(n)), rng.choice(["tuple", "list", "range", "chain", "chain2", "gen"])))
        elif k in ("reverse", "sort", "msort"):
            ops.append((k,))
        elif k == "fill":
            ops.append((k, v))
        elif k == "resize":
            ops.append((k, rng.below(size_hint + 3) - (1 if rng.chance(1, 10) else 0), v))
        elif k == "retain":
            ops.append((k, rng.choice([1, 2, 3, v])))
        elif k == "mextend":
            n = 1 + rng.below(3)
            k0 = 1 + rng.below(4)
            ctr[0] += n
            ops.append((k, tuple((k0 + j, v + j) for j in range(n)), rng.choice(["pairs", "tuples", "map", "chain", "gen"])))
        elif k == "minsert":
            ops.append((k, 1 + rng.below(4), v))
        elif k in ("mremove", "mget", "mcontains"):
            ops.append((k, 1 + rng.below(4)))
        elif k == "mupdate":
            ops.append((k, 1 + rng.below(2), 1 + rng.below(3)))
        else:
            raise ValueError(k)
    return ops


def gen_history_case(rng, kind, multi):
    n = rng.choice([2, 2, 2, 3, 3, 4, 4, 5, 6, 8])
    per = max(2, min(6, 20 // n)) if not multi else max(2, min(5, 14 // n))
    if kind == "list":
        pool = LIST_SINGLE + ["push", "pop", "pop", "size"] + (LIST_MULTI * 3 if multi else [])
        init = tuple(range(1, 1 + rng.below(4)))
    else:
        pool = MAP_SINGLE + ["minsert", "mremove", "mget"] + (MAP_MULTI * 4 if multi else [])
        init = tuple((k, k * 10) for k in range(1, 1 + rng.below(3)))
    ctr = [0]
    threads = [gen_ops(rng, kind, pool, 1 + rng.below(per), t, ctr, len(init) + 2) for t in range(n)]
    return {"kind": kind, "init": init, "threads": threads, "multi": multi}


def hammer_cases(tier):
    n = 40000 if tier == "quick" else 400000
    toggle = f"for i in 0..{n}\n  shared.push(i)\n  shared.pop()\n0"

    def tr(body):
        return f"for i in 0..{n}\n  try\n" + "".join(f"    {l}\n" for l in body) + "  catch _\n    null\n0"

    upd = f"for i in 0..{n}\n  shared.update(7, 0, |x| x + 1)\n0"
    return [
        ("C19a", "index", {"kind": "list", "init": [0], "threads": [[toggle], [tr(["shared[1]"])]]}),
        ("C19a", "index-range", {"kind": "list", "init": [0], "threads": [[toggle], [tr(["shared[0..2]"])]]}),
        ("C19a", "insert", {"kind": "list", "init": [0], "threads": [[toggle], [tr(["shared.insert(2, 9)", "shared.remove(2)"])]]}),
        ("C19a", "remove", {"kind": "list", "init": [0], "threads": [[toggle], [tr(["shared.remove(1)", "shared.push(7)"])]]}),
        ("C19b", "update-lost", {"kind": "map", "init": [], "threads": [[upd], [upd]], "expect_sum": 2 * n}),
        ("C19b", "update-unwrap", {"kind": "map", "init": [], "threads": [[upd], [f"for i in 0..{n}\n  shared.remove(7)\n0"]]}),
        ("C19c", "add-self", {"kind": "list", "init": [0], "threads": [[toggle], [f"for i in 0..{n}\n  x = shared + shared\n0"]],
                              "timeout_ms": 4000}),
        ("C19c", "eq-self", {"kind": "list", "init": [0], "threads": [[toggle], [f"for i in 0..{n}\n  x = shared == shared\n0"]],
                             "timeout_ms": 4000}),
        ("C19c", "map-eq-self", {"kind": "map", "init": [[1, 1]], "threads": [
            [f"for i in 0..{n}\n  shared.insert(2, i)\n  shared.remove(2)\n0"], [f"for i in 0..{n}\n  x = shared == shared\n0"]],
            "timeout_ms": 4000}),
        ("C19d", "extend-self", {"kind": "list", "init": [1], "threads": [["shared.extend shared"]], "timeout_ms": 1500}),
        ("C19d", "map-extend-self", {"kind": "map", "init": [[1, 1]], "threads": [["shared.extend shared"]], "timeout_ms": 1500}),
        ("C19d", "swap-self", {"kind": "list", "init": [1], "threads": [["shared.swap shared"]], "timeout_ms": 1500}),
    ]


# ---- programs for rc == arc -------------------------------------------------------------------

class ProgGen:
    def __init__(self, rng):
        self.r = rng
        self.n = 0

    def var(self):
        self.n += 1
        return f"v{self.n}"

    def num(self):
        r = self.r
        c = r.below(10)
        if c < 5:
            return str(r.below(20))
        if c < 7:
            return str(r.below(2000) - 1000)
        if c < 9:
            return f"{r.below(100)}.{r.below(100)}"
        return r.choice(["0", "1", "9223372036854775807", "0.5", "1e3", "-1"])

    def arith(self, d):
        r = self.r
        if d == 0 or r.chance(1, 4):
            return self.num()
        op = r.choice(["+", "-", "*", "/", "%", "+", "*"])
        a, b = self.arith(d - 1), self.arith(d - 1)
        if r.chance(1, 6):
            return f"({a}).{r.choice(['abs', 'floor', 'ceil', 'sqrt', 'to_int', 'to_float'])}()"
        if r.chance(1, 8):
            return f"({a} {op} {b}).{r.choice(['min', 'max'])}({self.num()})"
        return f"({a} {op} {b})"

    def boolean(self, d):
        r = self.r
        if d == 0:
            return r.choice(["true", "false"])
        c = r.below(4)
        if c == 0:
            return f"({self.arith(1)} {r.choice(['<', '<=', '==', '!=', '>', '>='])} {self.arith(1)})"
        if c == 1:
            return f"({self.boolean(d - 1)} {r.choice(['and', 'or'])} {self.boolean(d - 1)})"
        if c == 2:
            return f"(not {self.boolean(d - 1)})"
        return r.choice(["true", "false"])

    def string(self):
        r = self.r
        return r.choice(["'abc'", "'héllo wörld'", "''", "'a,b,,c'", "'  pad  '", "'x{1 + 2}y'", "'{3:05}|{2.5:.2}|{\"s\":>4}'",
                         "'😀 한'", "'line1\\nline2'", "'MiXeD'"])

    def prog_arith(self):
        lines = []
        for _ in range(1 + self.r.below(4)):
            v = self.var()
            lines.append(f"{v} = {self.arith(3)}")
            lines.append(f"print {v}")
        lines.append(f"print {self.boolean(3)}")
        lines.append(f"{self.arith(2)}")
        return "\n".join(lines)

    def prog_containers(self):
        r = self.r
        l, m = self.var(), self.var()
        lines = [f"{l} = [{', '.join(self.num() for _ in range(r.below(5)))}]", f"{m} = {{a: 1, b: {self.num()}}}"]
        for _ in range(3 + r.below(8)):
            c = r.below(16)
            i = r.below(6) - 1
            lines.append([
                f"{l}.push({self.num()})", f"print {l}.pop()", f"{l}.insert({max(i, 0)}, {self.num()})", f"print {l}.get({i})",
                f"print size {l}", f"{l}.reverse()", f"{l}.sort()", f"print {l}.contains({self.num()})",
                f"{m}.insert({self.string()}, {self.num()})", f"print {m}.get('a')", f"{m}.c{r.below(3)} = {self.num()}",
                f"print {m}.remove('b')", f"print {m}.keys().to_tuple()", f"{l}.extend({l}.to_tuple())",
                f"print {l}[{max(i, 0)}]", f"{l}.resize({r.below(6)}, 0)"][c])
        lines.append(f"print {l}, {m}")
        lines.append(f"({l}, {m}, ({l}.to_tuple(), size {m}))")
        return "\n".join(lines)

    def prog_closures(self):
        r = self.r
        a, f, g, c = self.var(), self.var(), self.var(), self.var()
        return "\n".join([
            f"{a} = {self.num()}",
            f"{f} = |x, y = {self.num()}| x * {a} + y",
            f"{g} = |n|\n  total = 0\n  inc = |k|\n    total += k\n    total\n  for i in 0..n\n    inc i\n  total",
            f"make_{c} = ||\n  count = {r.below(5)}\n  return ||\n    count += 1\n    count",
            f"{c} = make_{c}()",
            f"print {f}({self.num()}), {f}({self.num()}, {self.num()}), {g}({r.below(8)})",
            f"print {c}(), {c}(), {c}()",
            f"compose = |p, q| |x| q(p(x))",
            f"h = compose(|x| x + {self.num()}, |x| x * {self.num()})",
            f"print h({self.num()})",
            f"fib = |n| if n < 2 then n else fib(n - 1) + fib(n - 2)",
            f"fib({r.below(12)})"])

    def prog_iterators(self):
        r = self.r
        n = 2 + r.below(9)
        stages = []
        for _ in range(1 + r.below(4)):
            stages.append(r.choice([
                f".each(|x| x * {1 + r.below(4)})", f".keep(|x| x % {1 + r.below(3)} == 0)", f".skip({r.below(3)})",
                f".take({1 + r.below(5)})", ".enumerate().each(|(i, x)| i + x)", ".reversed()", f".chain(0..{r.below(4)})",
                f".zip({r.below(3)}..10).each(|(a, b)| a - b)", f".intersperse({r.below(9)})", f".step({1 + r.below(3)})"]))
        fin = r.choice([".to_list()", ".to_tuple()", ".sum()", ".count()", ".fold(0, |a, x| a * 2 + x)", ".min()", ".max()",
                        ".last()", ".to_list().sort().first()", f".chunks({1 + r.below(3)}).each(|c| c.to_tuple()).to_tuple()",
                        f".windows({1 + r.below(3)}).count()", ".product()"])
        src = r.choice([f"(0..{n})", f"(1..={n})", f"[{', '.join(str(r.below(9)) for _ in range(n))}]",
                        f"({', '.join(str(r.below(9)) for _ in range(n))},)", "'héllo'.chars().each(|c| size c)",
                        "{a: 1, b: 2, c: 3}.values()"])
        e = "".join(stages) if not src.startswith("'") and not src.startswith("{") else ""
        return f"r = {src}{e}{fin}\nprint r\nfor x in {src}{e}\n  if x == 3\n    continue\n  print x\nr"

    def prog_strings(self):
        r = self.r
        s, t = self.var(), self.var()
        lines = [f"{s} = {self.string()}", f"{t} = {self.string()}"]
        for _ in range(2 + r.below(5)):
            lines.append(r.choice([
                f"print {s}.to_uppercase(), {s}.to_lowercase()", f"print {s}.split(',').to_tuple()", f"print {s}.contains('l')",
                f"print size {s}, size {t}", f"print {s} + {t}", f"print '{{{s}}}-{{{t}:>8}}'", f"print {s}.trim()",
                f"print {s}.chars().to_tuple()", f"print {s}.bytes().take(4).to_tuple()", f"print {s}.replace('l', 'L')",
                f"print {s} < {t}, {s} == {t}", f"print {s}.starts_with('a'), {t}.ends_with('c')",
                f"print {s}.lines().to_tuple()", f"print '{self.num()}'.to_number()", f"print {s}.escape()",
                f"print {s}[0..{r.below(3)}]"]))
        lines.append(f"({s}, {t})")
        return "\n".join(lines)

    def prog_errors(self):
        r = self.r
        bad = r.choice([
            "[1, 2][5]", "throw 'boom'", "throw {data: 42}", "1 + 'a'", "assert false", "assert_eq 1, 2", "null.foo", "{}.missing()",
            "(|x| x)()", "[].remove(0)", "'abc'.to_number() + 1", "x = [1]\nx[-1] = 2", "f = |n| f(n + 1)\nf(0) if false else throw 'deep'",
            "(1, 2)[2]", "'héllo'[1..2]", "1 / 0", "1 % 0", "9223372036854775807 + 1", "[3, 'a', null].sort()", "'a' < 1"])
        bad_ind = "\n".join("  " + l for l in bad.split("\n"))
        form = r.below(4)
        if form == 0:
            return f"print 'before'\n{bad}\nprint 'after'"
        if form == 1:
            return f"r = try\n{bad_ind}\n  'no error'\ncatch e\n  print 'caught'\n  'handled'\nfinally\n  print 'finally'\nprint r\nr"
        if form == 2:
            return f"f = ||\n{bad_ind}\ntry\n  f()\ncatch e\n  print 'caught in caller'\n{r.below(9)}"
        return f"for i in 0..3\n  try\n    if i == 1\n  {bad_ind.replace(chr(10), chr(10) + '  ')}\n    print i\n  catch _\n    print 'c', i\n'done'"

    def program(self, family):
        self.n = 0
        return getattr(self, "prog_" + family)()


FAMILIES = ["arith", "containers", "closures", "iterators", "strings", "errors"]


# ---------------------------------------------------------------------------------------------

# ---- compound operations must be atomic: whole blocks only ------------------------------------
# Writers repeat ONE multi-element library operation with a recognisable block (K values tagged per
# writer); one-shot snapshot readers on other runtimes must only ever see whole blocks, and the final
# container must be a concatenation of whole blocks (two concurrent writers do not interleave).

BLOCK_K = 8


def split_top(body):
    """split the inside of L[...] / M{...} / T(...) at top-level commas"""
    out, depth, cur, in_str = [], 0, "", False
    for ch in body:
        if in_str:
            cur += ch
            if ch == '"':
                in_str = False
            continue
        if ch == '"':
            in_str = True
        if ch in "([{":
            depth += 1
        elif ch in ")]}":
            depth -= 1
        if ch == "," and depth == 0:
            out.append(cur)
            cur = ""
        else:
            cur += ch
    if cur:
        out.append(cur)
    return out


def list_block(kind, w):
    """(koto setup lines, koto argument expression, canonical elements) of writer w's block"""
    K = BLOCK_K
    a = (w + 1) * 100
    ints = [f"i{a + j}" for j in range(K)]
    body = ", ".join(str(a + j) for j in range(K))
    if kind == "list":
        return [], f"[{body}]", ints
    if kind == "tuple":
        return [], f"({body},)", ints
    if kind == "range":
        return [], f"{a}..{a + K}", ints
    if kind == "chain":
        return [], f"({a}..{a + K}).each |x| x", ints
    if kind == "chain2":
        return [], f"(0..{2 * K}).keep(|x| x % 2 == 0).each(|x| {a} + x / 2).each(|x| x.to_int())", ints
    if kind == "generator":
        return [f"g = ||", f"  for x in {a}..{a + K}", "    yield x"], "g()", ints
    if kind == "string":
        chars = "abcdefgh" if w % 2 == 0 else "ABCDEFGH"
        return [], f"'{chars}'", [f's"{c}"' for c in chars]
    if kind == "map":
        return [f"arg = {{}}"] + [f"arg.insert('w{w}k{j}', {j})" for j in range(K)], "arg", [f'T(s"w{w}k{j}",i{j})' for j in range(K)]
    if kind == "map-values":
        return [f"arg = {{}}"] + [f"arg.insert('k{j}', {a + j})" for j in range(K)], "arg.values()", ints
    raise ValueError(kind)


def map_block_expr(kind, w):
    """koto (setup, expression in i) producing K fresh keys base(w, i) .. +K with value j"""
    K = BLOCK_K
    base = f"({(w + 1) * 1000000} + i * {K})"
    if kind == "pairs":
        return [], "[" + ", ".join(f"({base} + {j}, {j})" for j in range(K)) + "]"
    if kind == "tuples":
        return [], "(" + ", ".join(f"({base} + {j}, {j})" for j in range(K)) + ",)"
    if kind == "chain":
        return [], f"(0..{K}).each |j| ({base} + j, j)"
    if kind == "generator":
        return ["g = |b|", f"  for j in 0..{K}", "    yield (b + j, j)"], f"g({base})"
    if kind == "map":
        return ["mk = |b|", "  m = {}", f"  for j in 0..{K}", "    m.insert(b + j, j)", "  m"], f"mk({base})"
    raise ValueError(kind)


def loop_script(setup, n, body_lines, clear_every=None):
    lines = list(setup) + [f"for i in 0..{n}"] + ["  " + l for l in body_lines]
    if clear_every:
        lines += [f"  if i % {clear_every} == {clear_every - 1}", "    shared.clear()"]
    lines.append("0")
    return "\n".join(lines)


def reader_script(n, snap, bad_cond):
    """one-shot snapshot `t`, judged inside the reader; the first bad snapshot is the script's result"""
    return "\n".join(["bad = null", f"for i in 0..{n}", f"  t = {snap}", f"  if {bad_cond}", "    bad = t", "    break", "bad"])


def block_cases(tier):
    quick = tier == "quick"
    W = 4800 if quick else 24000         # operations per writer
    R = 20000 if quick else 100000       # snapshots per reader
    K = BLOCK_K
    cases = []

    def add(name, kind, init, writers, readers, final_check, timeout_ms=60000):
        cases.append({"name": name, "final_check": final_check, "writers": len(writers),
                      "case": {"kind": kind, "init": init, "threads": [[w] for w in writers] + [[r] for r in readers],
                               "timeout_ms": timeout_ms, "abort_after_deadlocks": 1000}})

    size_bad = f"(size t) % {K} != 0"
    for kind in ("list", "tuple", "range", "chain", "chain2", "generator", "string", "map", "map-values"):
        # (i) one or two writers against snapshot readers (the list is cleared now and then to stay short)
        ws = []
        for w in range(2):
            setup, expr, _ = list_block(kind, w)
            ws.append(loop_script(setup, W, [f"shared.extend({expr})"], clear_every=12))
        add(f"list.extend({kind}) x readers", "list", [], ws,
            [reader_script(R, "shared.to_tuple()", size_bad), reader_script(R, "koto.copy(shared)", size_bad),
             reader_script(R, "size shared", f"t % {K} != 0")], ["blocks", [list_block(kind, w)[2] for w in range(2)], True])
        # (ii) three writers, nothing removed: the final list is a concatenation of whole blocks
        ws = []
        for w in range(3):
            setup, expr, _ = list_block(kind, w)
            ws.append(loop_script(setup, W // 4, [f"shared.extend({expr})"]))
        add(f"list.extend({kind}) x writers", "list", [], ws, [], ["blocks", [list_block(kind, w)[2] for w in range(3)], False])
    for kind in ("pairs", "tuples", "chain", "generator", "map"):
        ws = []
        for w in range(2):
            setup, expr = map_block_expr(kind, w)
            ws.append(loop_script(setup, W, [f"shared.extend({expr})"], clear_every=12))
        add(f"map.extend({kind}) x readers", "map", [], ws,
            [reader_script(R, "size shared", f"t % {K} != 0"), reader_script(R, "koto.copy(shared)", size_bad),
             reader_script(R, "shared.keys().to_tuple()", "false")], ["mapblocks", True])
        ws = []
        for w in range(3):
            setup, expr = map_block_expr(kind, w)
            ws.append(loop_script(setup, W // 4, [f"shared.extend({expr})"]))
        add(f"map.extend({kind}) x writers", "map", [], ws, [], ["mapblocks", False])
    # resize: the size only ever jumps between multiples of K
    add("list.resize x readers", "list", [],
        [loop_script([], W, [f"shared.resize({K} * (1 + i % 5), {w})"]) for w in range(2)],
        [reader_script(R, "shared.to_tuple()", size_bad), reader_script(R, "size shared", f"t % {K} != 0")], ["sizemod"])
    # fill: every snapshot is constant
    n = 64
    add("list.fill x readers", "list", [0] * n,
        [loop_script([], W, [f"shared.fill(i * 2 + {w})"]) for w in range(2)],
        [reader_script(R, "shared.to_tuple()", f"t[0] != t[{n - 1}] or t[0] != t[{n // 2}] or t[1] != t[{n - 2}]")], ["constant"])
    # sort / reverse: every snapshot is ascending or descending
    asc = f"(t[0] == 0 and t[1] == 1 and t[{n // 2}] == {n // 2} and t[{n - 1}] == {n - 1})"
    desc = f"(t[0] == {n - 1} and t[1] == {n - 2} and t[{n // 2}] == {n - 1 - n // 2} and t[{n - 1}] == 0)"
    add("list.sort/reverse x readers", "list", list(range(n)),
        [loop_script([], W, ["shared.reverse()"]), loop_script([], W, ["shared.sort()"])],
        [reader_script(R, "shared.to_tuple()", f"not ({asc} or {desc})")], ["monotone", n])
    # retain value: blocks are K copies of one tag, so retain removes whole blocks
    add("list.retain(value) x readers", "list", [],
        [loop_script([], W, [f"shared.extend(({', '.join(['1'] * K)},))" if True else "", f"shared.extend(({', '.join(['2'] * K)},))"], clear_every=12),
         loop_script([], W, ["shared.retain(1)"])],
        [reader_script(R, "shared.to_tuple()", size_bad), reader_script(R, "size shared", f"t % {K} != 0")], ["sizemod"])
    # map.sort / map.clear against snapshot readers: sizes stay multiples of K, keys of a snapshot are whole blocks
    setup, expr = map_block_expr("pairs", 0)
    add("map.sort+clear x readers", "map", [],
        [loop_script(setup, W, [f"shared.extend({expr})"], clear_every=12), loop_script([], W, ["shared.sort()"])],
        [reader_script(R, "size shared", f"t % {K} != 0")], ["mapblocks", True])
    return cases


def judge_block(bc, run):
    """None or a description of the torn / interleaved observation"""
    K = BLOCK_K
    if run["deadlock"]:
        return f"deadlock (watchdog), progress {run['progress']}"
    nw = bc["writers"]
    for t, ops in enumerate(run["threads"]):
        o = ops[0]
        if "panic" in o:
            return f"thread {t} panicked: {o['panic']} at {o.get('at')}"
        if o["r"].startswith("E"):
            return f"thread {t} script failed: {o['r']} {o.get('msg', '')[:300]}"
        if t >= nw and o["r"] != "n":
            return f"reader {t - nw} saw a container that is not a concatenation of whole blocks: {o['r'][:400]}"
    fc = bc["final_check"]
    fin = run["final"]
    elems = split_top(fin[2:-1])
    if fc[0] == "blocks":
        blocks = fc[1]
        i = 0
        while i < len(elems):
            b = next((b for b in blocks if elems[i:i + K] == b), None)
            if b is None:
                return f"final list is not a concatenation of whole blocks: at {i}: {elems[max(0, i - 2):i + K + 2]}"
            i += K
        return None
    if fc[0] == "mapblocks":
        keys = [int(e.split("=")[0][1:]) for e in elems]
        if fc[1]:
            # cleared / sorted now and then: whole blocks in any order
            ks = set(keys)
            for k in keys:
                b = k - (k % 1000000) % K
                if any(b + j not in ks for j in range(K)):
                    return f"final map holds part of a block only: key {k}"
            return None
        i = 0
        while i < len(keys):
            if (keys[i] % 1000000) % K != 0 or keys[i:i + K] != list(range(keys[i], keys[i] + K)):
                return f"final map is not a concatenation of whole blocks: at {i}: {keys[max(0, i - 2):i + K + 2]}"
            i += K
        return None
    if fc[0] == "sizemod":
        return None if len(elems) % K == 0 else f"final size {len(elems)} is not a multiple of {K}"
    if fc[0] == "constant":
        return None if len(set(elems)) <= 1 else f"final list is not constant: {elems[:8]}.."
    if fc[0] == "monotone":
        vals = [int(e[1:]) for e in elems]
        n = fc[1]
        return None if vals in (list(range(n)), list(range(n - 1, -1, -1))) else f"final list neither ascending nor descending: {vals[:10]}.."
    return None


def run_bin(binp, cases, name, timeout=900):
    os.makedirs(os.path.join(C.BUILD, "cases"), exist_ok=True)
    cf = os.path.join(C.BUILD, "cases", f"c19-{name}-{os.getpid()}.jsonl")
    with open(cf, "w") as f:
        for c in cases:
            f.write(json.dumps(c) + "\n")
    rc, out = C.sh([binp, cf], timeout=timeout)
    os.remove(cf)
    lines = [json.loads(l) for l in out.splitlines() if l.startswith("{")]
    return rc, lines, out


def run_bin_sharded(binp, cases, name, shards, timeout=900):
    if not cases:
        return 0, [], ""
    shards = max(1, min(shards, len(cases)))
    size = (len(cases) + shards - 1) // shards
    parts = [cases[i * size:(i + 1) * size] for i in range(shards)]
    parts = [p for p in parts if p]
    with concurrent.futures.ThreadPoolExecutor(max_workers=len(parts)) as ex:
        res = list(ex.map(lambda ip: run_bin(binp, ip[1], f"{name}{ip[0]}", timeout), enumerate(parts)))
    lines = []
    rc = 0
    log = ""
    for (r, ls, out), p in zip(res, parts):
        if r != 0 or len(ls) != len(p):
            rc = r or 1
            log += out[-1500:]
        lines += ls
    return rc, lines, log


def run_programs(binp, pcases, name):
    """kh_run over the programs in 4 shards; a shard that does not come back (a blocked lock cannot be
    interrupted by koto's execution limit) is re-run one program per process to find the one that hangs"""
    shards = 4
    size = (len(pcases) + shards - 1) // shards
    parts = [pcases[i * size:(i + 1) * size] for i in range(shards)]
    parts = [p for p in parts if p]

    def one_shard(ip):
        i, part = ip
        rc, lines, out = run_bin(binp, part, f"{name}{i}", timeout=90)
        if rc == 0 and len(lines) == len(part):
            return lines
        def single(jc):
            j, c = jc
            rc1, l1, _ = run_bin(binp, [c], f"{name}{i}-{j}", timeout=10)
            return l1[0] if rc1 == 0 and len(l1) == 1 else {"hang": True, "rc": rc1}
        with concurrent.futures.ThreadPoolExecutor(max_workers=6) as ex2:
            return list(ex2.map(single, enumerate(part)))
    with concurrent.futures.ThreadPoolExecutor(max_workers=len(parts)) as ex:
        outs = list(ex.map(one_shard, enumerate(parts)))
    return [l for o in outs for l in o]


def arc_case(hc, repeat, timeout_ms=3000):
    return {"kind": hc["kind"], "init": [list(x) if isinstance(x, tuple) else x for x in hc["init"]],
            "threads": [[koto_src(o) for o in t] for t in hc["threads"]], "repeat": repeat, "timeout_ms": timeout_ms}


def check_history(hc, run):
    """returns (verdict, detail): verdict in ok / deadlock / panic / not-atomic / not-sections / undetermined"""
    kind = hc["kind"]
    if run["deadlock"]:
        return "deadlock", f"progress {run['progress']}"
    threads = hc["threads"]
    observed, inv, resp = [], [], []
    panicked = None
    for t, ops in enumerate(run["threads"]):
        observed.append([parse_impl_res(o) for o in ops])
        inv.append([o["inv"] for o in ops])
        resp.append([o["resp"] for o in ops])
        for j, o in enumerate(ops):
            if "panic" in o and panicked is None:
                panicked = f"thread {t} op {j} {koto_src(threads[t][j])!r}: {o['panic']} at {o.get('at')}"
    final = parse_final(kind, run["final"])
    init = tuple(hc["init"])
    a = linearizable(init, threads, observed, final, inv, resp, atomic=True)
    if a:
        return "ok", ""
    if not hc["multi"]:
        if panicked:
            return "panic", panicked
        return ("undetermined", "") if a is None else ("not-atomic", "no sequential order of whole operations explains it")
    s = linearizable(init, threads, observed, final, inv, resp, atomic=False)
    if s is None or a is None:
        return "undetermined", ""
    if not s:
        return "not-sections", (panicked or "") + " no interleaving of the modelled critical sections explains it"
    return "known-not-atomic", panicked or "explained only by interleaving the critical sections of one operation"


def accounting_case(rng, tier, flavour):
    """long per-thread scripts of single-section operations; judged by per-element accounting (linear time),
    so they can be long enough for real contention"""
    n = rng.choice([2, 4, 6, 8])
    k = 200 if tier == "quick" else 2000
    threads = []
    if flavour == "list":
        for t in range(n):
            lines = ["got = []"]
            for i in range(k):
                c = rng.below(10)
                if c < 5:
                    lines.append(f"shared.push({(t + 1) * 1000000 + i})")
                elif c < 8:
                    lines.append("x = shared.pop()\nif x != null\n  got.push(x)")
                elif c < 9:
                    lines.append("n = size shared\nassert n >= 0")
                else:
                    lines.append(f"shared.extend(({(t + 1) * 1000000 + 500000 + i},))")
            lines.append("got")
            threads.append(["\n".join(lines)])
        return {"flavour": flavour, "kind": "list", "init": [1, 2, 3], "threads": threads, "timeout_ms": 20000}
    if flavour == "map":
        # every thread works on its own keys: what it reads back must be what it wrote (no other thread
        # touches them), and the final map holds exactly the keys inserted and not removed
        for t in range(n):
            lines = []
            live = {}
            for i in range(k):
                key = (t + 1) * 1000000 + rng.below(40)
                c = rng.below(10)
                if c < 5:
                    lines.append(f"assert_eq shared.insert({key}, {i}), {live.get(key, 'null')}")
                    live[key] = i
                elif c < 7:
                    lines.append(f"assert_eq shared.remove({key}), {live.pop(key, 'null')}")
                elif c < 9:
                    lines.append(f"assert_eq shared.get({key}), {live.get(key, 'null')}")
                else:
                    lines.append(f"assert (size shared) >= {len(live)}")
            lines.append("0")
            threads.append(["\n".join(lines)])
            threads[-1].append(live)
        expect = {}
        for t in threads:
            expect.update(t.pop())
        return {"flavour": flavour, "kind": "map", "init": [], "threads": threads, "timeout_ms": 20000,
                "expect_final": sorted(expect.items())}
    # slots: thread t owns index t of the shared list
    for t in range(n):
        lines = []
        last = 0
        for i in range(1, k + 1):
            if rng.chance(2, 3):
                lines.append(f"shared[{t}] = {i}")
                last = i
            else:
                lines.append(f"assert_eq shared.get({t}), {last}")
        lines.append(f"assert_eq (size shared), {n}")
        lines.append(str(last))
        threads.append(["\n".join(lines)])
    return {"flavour": flavour, "kind": "list", "init": [0] * n, "threads": threads, "timeout_ms": 20000}


def accounting_check(case, run):
    if run["deadlock"]:
        return "deadlock"
    for ops in run["threads"]:
        o = ops[0]
        if "panic" in o:
            return f"panic {o['panic']} at {o.get('at')}"
        if o["r"].startswith("E"):
            return f"script failed: {o['r']} {o.get('msg', '')[:300]}"
    if case["flavour"] == "map":
        fin = sorted(parse_final("map", run["final"]))
        if fin != [tuple(x) for x in case["expect_final"]]:
            return f"final map differs from the union of the threads' own keys: {len(fin)} entries, expected {len(case['expect_final'])}"
        return None
    if case["flavour"] == "slots":
        fin = list(parse_final("list", run["final"]))
        want = [parse_impl_res(ops[0])[1] for ops in run["threads"]]
        return None if fin == want else f"final slots {fin} but the threads' last writes were {want}"
    pushed = [1, 2, 3]
    for t in case["threads"]:
        pushed += [int(x) for x in re.findall(r"shared\.push\((\d+)\)", t[0])]
        pushed += [int(x) for x in re.findall(r"shared\.extend\(\((\d+),\)\)", t[0])]
    got = []
    for ops in run["threads"]:
        got += list(parse_final("list", ops[0]["r"]))
    fin = list(parse_final("list", run["final"]))
    if sorted(got + fin) != sorted(pushed):
        lost = sorted(set(pushed) - set(got + fin))
        dup = sorted(x for x in set(got + fin) if (got + fin).count(x) > 1)
        return f"elements lost {lost[:5]} duplicated {dup[:5]}"
    return None


def run(tier, seed):
    chk = C.Check(PID, tier, seed, "partial")
    quick = tier == "quick"
    rng = C.Rng(seed)

    # ---- tie: borrows of every core-library arm, regenerated from this checkout
    try:
        info, _ = k2v_locks.gen_borrows(os.path.join(C.COQ, UNIT, "GenBorrows.v"), os.path.join(C.BUILD, "gen", "locks_borrows.json"))
        chk.oblige("gen:locks-borrows (k2v_locks: borrows per arm of core_lib/list.rs, map.rs with in-loop flags)", True)
        pinned = re.findall(r"\((\w+), \[((?:\((?:Sh|Ex), (?:true|false)\)(?:; )?)*)\]\)",
                            open(os.path.join(C.COQ, UNIT, "LocksTable.v")).read().split("Definition pinned_borrows")[1].split("].")[0])
        pinned = [(f, [(m, b == "true") for m, b in re.findall(r"\((Sh|Ex), (true|false)\)", body)]) for f, body in pinned]
        got = [(r["fn"], [(m, bool(b)) for m, b in r["borrows"]]) for r in info["rows"]]
        diffs = [f"{g[0]} ({r['add_fn']}: {r['arm'] or 'whole body'}): source has {g[1]}, pinned {p[1] if p else None}"
                 for g, p, r in zip(got, pinned + [None] * len(got), info["rows"]) if p is None or g != p]
        if len(pinned) != len(got):
            diffs.append(f"{len(got)} arms extracted, {len(pinned)} pinned")
        chk.oblige("pin:one borrow spans the whole operation (borrows of each arm, with in-loop flags, = pinned table)", not diffs,
                   "; ".join(diffs[:4]))
        if diffs:
            chk.log("borrow pins differ: " + "; ".join(diffs[:6]))
    except k2v.GenError as e:
        chk.oblige("gen:locks-borrows", False, str(e))
        chk.log(f"translator failed: {e}")

    # ---- T
    ok, log = C.coq_build(UNIT, ["LocksRun.vo"])
    model_ok = ok
    if not ok:
        chk.log("coq/locks does not build:\n" + log[-2500:])
    pr = C.check_props_file(UNIT, "C19Props", PINNED_THEOREMS)
    hits = C.forbidden_scan(UNIT)
    props_text = C.strip_coq_comments(open(os.path.join(C.COQ, UNIT, "C19Props.v"), encoding="utf-8").read())
    if not pr["ok"]:
        chk.log("C19Props does not check:\n" + pr["log"][-2500:])
    for name in PINNED:
        stated = re.search(r"\b(Theorem|Example)\s+" + re.escape(name) + r"\b", props_text) is not None
        good = pr["ok"] and stated and name not in pr["missing"] and ("Print Assumptions " + name) not in pr["missing"] \
            and not pr["bad_axioms"] and not hits
        chk.oblige("thm:" + name, good)
    if hits:
        chk.log("forbidden constructs: " + "; ".join(hits))
    axioms = pr.get("axioms", [])

    chk.log(f"phase T theorems: {__import__('time').time() - chk.t0:.1f}s since start")
    # ---- builds
    bin_rc, blog1 = C.build_harness("kh_run")
    bin_arc, blog2 = C.build_harness("kh_run", features=["arc"], target_suffix="-arc")
    bin_st, blog3 = C.build_harness("kh_arc", features=["arc"], target_suffix="-arc")
    if not (bin_rc and bin_arc and bin_st):
        chk.log("harness build failed:\n" + (blog1 if not bin_rc else blog2 if not bin_arc else blog3)[-3000:])
        chk.violation("build", {"kind": "obligation", "correspondence": "kh_run (rc / arc) or kh_arc does not build",
                                "log": (blog1 if not bin_rc else blog2 if not bin_arc else blog3)[-3000:]}, no_input=True)
        return chk.finish("n/a")

    dist = {}
    failures = []      # (size, name, payload)

    chk.log(f"phase builds: {__import__('time').time() - chk.t0:.1f}s since start")
    # ---- D1: rc == arc
    progs = []
    cdir = os.path.join(C.VERIF, "corpus", PID)
    if os.path.isdir(cdir):
        for f in sorted(os.listdir(cdir)):
            if f.endswith(".koto"):
                progs.append(("corpus", open(os.path.join(cdir, f), encoding="utf-8").read()))
    g = ProgGen(rng)
    per_family = 70 if quick else 1500
    for fam in FAMILIES:
        for _ in range(per_family):
            progs.append((fam, g.program(fam)))
    pcases = [{"src": s, "limit_ms": 5000} for _, s in progs]
    out_rc = run_programs(bin_rc, pcases, "rc")
    out_arc = run_programs(bin_arc, pcases, "arc")
    n_ok = n_err = 0
    for (fam, src), a, b in zip(progs, out_rc, out_arc):
        dist["prog:" + fam] = dist.get("prog:" + fam, 0) + 1
        ka = {k: a.get(k) for k in ("result", "out", "panic", "hang")}
        kb = {k: b.get(k) for k in ("result", "out", "panic", "hang")}
        if (a.get("result") or "").startswith("E") or "panic" in a:
            n_err += 1
        else:
            n_ok += 1
        chk.count_case("prog:" + src, bool(a.get("out")) or "panic" in a)
        if ka != kb:
            failures.append((len(src), "input", {
                "kind": "input", "clause": "rc and arc builds produce the same result and output", "src": src,
                "rc_says": a, "arc_says": b, "how_to_rerun": "./check C19 --replay <this file>"}))
    chk.notes.append(f"rc==arc: {len(progs)} programs, {n_ok} finished with a value, {n_err} with an error/panic (compared too)")

    chk.log(f"phase D1 rc==arc: {__import__('time').time() - chk.t0:.1f}s since start")
    # ---- R: model sections vs implementation (sequential) and vs the Python mirror (schedules)
    seq_cases = []
    for kind, pool in (("list", LIST_SINGLE + LIST_MULTI), ("map", MAP_SINGLE + MAP_MULTI)):
        for _ in range(150 if quick else 1500):
            ctr = [0]
            init = tuple(range(1, 1 + rng.below(4))) if kind == "list" else tuple((k, k * 10) for k in range(1, 1 + rng.below(3)))
            ops = gen_ops(rng, kind, pool, 4 + rng.below(8), 0, ctr, len(init) + 1)
            seq_cases.append({"kind": kind, "init": init, "threads": [ops], "multi": True})
    cdir_h = os.path.join(cdir, "seq.jsonl")
    if os.path.exists(cdir_h):
        for line in open(cdir_h):
            if line.strip():
                d = json.loads(line)
                seq_cases.insert(0, {"kind": d["kind"], "init": tuple(tuple(x) if isinstance(x, list) else x for x in d["init"]),
                                     "threads": [[tuple(tuple(a) if isinstance(a, list) else a for a in o) for o in t] for t in d["threads"]],
                                     "multi": True})
    rcx, seq_out, logx = run_bin_sharded(bin_st, [arc_case(c, 1) for c in seq_cases], "seq", 4)
    sched_cases = []
    for _ in range(200 if quick else 3000):
        kind = rng.choice(["list", "map"])
        hc = gen_history_case(rng, kind, True)
        total = sum(len(t) for t in hc["threads"]) * 4
        sched = [rng.below(len(hc["threads"]) + (1 if rng.chance(1, 10) else 0)) for _ in range(rng.below(total + 1))]
        sched_cases.append((hc, sched))
    disagreements = []
    if model_ok and not rcx:
        header = "From Coq Require Import List ZArith.\nFrom KV.locks Require Import Locks LocksOps LocksRun.\n" \
                 "Import ListNotations.\nOpen Scope Z_scope.\n"
        terms = [coq_case(c["kind"], c["init"], c["threads"], [0] * (4 * len(c["threads"][0]) + 2)) for c in seq_cases]
        terms += [coq_case(hc["kind"], hc["init"], hc["threads"], sched) for hc, sched in sched_cases]
        try:
            vals = C.coq_eval(UNIT, header, terms, tag="c19", per_shard=250)
        except RuntimeError as e:
            chk.log(str(e)[-3000:])
            vals = None
        if vals is None:
            chk.oblige("corr:model-evaluates", False)
        else:
            for c, v, r in zip(seq_cases, vals, seq_out):
                dist["seq:" + c["kind"]] = dist.get("seq:" + c["kind"], 0) + 1
                mstate, mres, mtodo = v
                if not r["runs"]:
                    continue        # skipped after repeated deadlocks (reported through the deadlocked cases)
                run0 = r["runs"][0]
                pst, pres, ptodo = py_run_case(c["init"], c["threads"], [0] * (4 * len(c["threads"][0]) + 2))
                py = [enc_state(c["kind"], pst), [[enc_res(x) for x in t] for t in pres], ptodo]
                if run0["deadlock"] or run0["threads"][0] is None:
                    disagreements.append((len(c["threads"][0]), c, "implementation deadlocked on a sequential script", None))
                    continue
                ires = [parse_impl_res(o) for o in run0["threads"][0]]
                ienc = [enc_res(x) if x[0] != "?" else x for x in ires]
                # results of operations that return the container itself are rendered later: class only
                if [mstate, mres, mtodo] != py:
                    disagreements.append((len(c["threads"][0]), c, "Coq model vs Python mirror", [[mstate, mres, mtodo], py]))
                elif mres[0] != ienc or mstate != enc_state(c["kind"], parse_final(c["kind"], run0["final"])):
                    disagreements.append((len(c["threads"][0]), c, "model vs implementation (sequential script)",
                                          {"model": [mstate, mres[0]], "impl": [run0["final"], [o.get("r", o.get("panic")) for o in run0["threads"][0]]]}))
                chk.count_case("seq:" + json.dumps(c["threads"]), True)
            for (hc, sched), v in zip(sched_cases, vals[len(seq_cases):]):
                dist["sched:model-vs-mirror"] = dist.get("sched:model-vs-mirror", 0) + 1
                mstate, mres, mtodo = v
                pst, pres, ptodo = py_run_case(hc["init"], hc["threads"], sched)
                py = [enc_state(hc["kind"], pst), [[enc_res(x) for x in t] for t in pres], ptodo]
                if [mstate, mres, mtodo] != py:
                    disagreements.append((len(sched), hc, "Coq model vs Python mirror (schedule)", [sched, [mstate, mres, mtodo], py]))
            chk.oblige("corr:section bodies (Coq) = real list/map operations on sequential scripts = Python mirror on schedules",
                       not disagreements, f"{len(disagreements)} disagreements")
    else:
        chk.oblige("corr:section bodies (Coq) = real list/map operations", False, "model or kh_arc unavailable: " + logx[-300:])

    chk.log(f"phase R correspondence: {__import__('time').time() - chk.t0:.1f}s since start")
    # ---- D2: atomicity stress (search only)
    hist_cases = []
    plan = [("list", False, 1000), ("map", False, 750), ("list", True, 500), ("map", True, 350)] if quick else \
           [("list", False, 10000), ("map", False, 8000), ("list", True, 5000), ("map", True, 3000)]
    for kind, multi, n in plan:
        for _ in range(n):
            hist_cases.append(gen_history_case(rng, kind, multi))
    rep = 4 if quick else 8
    rch, hist_out, logh = run_bin_sharded(bin_st, [arc_case(c, rep) for c in hist_cases], "hist", 4, timeout=3000)
    if rch:
        chk.log("kh_arc failed: " + logh[-1500:])
        chk.violation("harness", {"kind": "obligation", "correspondence": "kh_arc crashed", "log": logh[-2000:]}, no_input=True)
        return chk.finish("n/a")
    verdicts = {}
    exhibited = {}
    threads_hist = {}

    with concurrent.futures.ProcessPoolExecutor(max_workers=min(12, C.NPROC)) as ex:
        judged = list(ex.map(judge_star, [(hc, out) for hc, out in zip(hist_cases, hist_out)], chunksize=20))
    for hc, runs in zip(hist_cases, judged):
        cat = f"hist:{hc['kind']}:{'multi-section' if hc['multi'] else 'single-section'}"
        threads_hist[len(hc["threads"])] = threads_hist.get(len(hc["threads"]), 0) + 1
        for (verdict, detail), run in runs:
            dist[cat] = dist.get(cat, 0) + 1
            verdicts[verdict] = verdicts.get(verdict, 0) + 1
            chk.count_case(cat + json.dumps(hc["threads"]) + json.dumps(run["threads"]), len(hc["threads"]) > 1)
            if verdict in ("ok", "undetermined"):
                continue
            if verdict == "known-not-atomic":
                cls = "C19b" if hc["kind"] == "map" else "C19a"
                exhibited.setdefault(cls, f"history of {[[koto_src(o) for o in t] for t in hc['threads']]}: {detail}")
                continue
            nops = sum(len(t) for t in hc["threads"])
            failures.append((nops, "input", {
                "kind": "input", "clause": {"deadlock": "no deadlock for operations on a single container",
                                            "panic": "a single container operation panicked inside the runtime",
                                            "not-atomic": "no update is lost / no partial observation (no linearization exists)",
                                            "not-sections": "observed history is not an interleaving of the modelled critical sections "
                                                            "(footprint table wrong or an operation is not even section-atomic)"}[verdict],
                "verdict": verdict, "detail": detail, "container": hc["kind"], "init": list(hc["init"]),
                "threads_ops": hc["threads"], "threads_src": [[koto_src(o) for o in t] for t in hc["threads"]],
                "observed": run, "multi": hc["multi"], "search_only": True,
                "how_to_rerun": "./check C19 --replay <this file>  (re-judges the recorded history, then re-runs the scripts 300 times)"}))

    chk.log(f"phase D2 histories: {__import__('time').time() - chk.t0:.1f}s since start")
    # accounting: long runs, every pushed element exactly once in (final ++ popped)
    acc = [accounting_case(rng, tier, fl) for fl in ("list", "map", "slots") for _ in range(10 if quick else 60)]
    rca, acc_out, loga = run_bin_sharded(bin_st, [{k: v for k, v in a.items() if k not in ("flavour", "expect_final")} for a in acc],
                                         "acc", 2, timeout=3000)
    for case, out in zip(acc, acc_out):
        dist["accounting:" + case["flavour"]] = dist.get("accounting:" + case["flavour"], 0) + 1
        if not out["runs"]:
            continue
        bad = accounting_check(case, out["runs"][0])
        chk.count_case("acc:" + case["threads"][0][0][:200], True)
        if bad:
            failures.append((10 ** 6, "input", {"kind": "input", "clause": "no update is lost (per-element accounting)", "detail": bad,
                                                 "acc_case": case, "search_only": True}))

    chk.log(f"phase accounting: {__import__('time').time() - chk.t0:.1f}s since start")
    # compound operations x argument kinds: whole blocks only (search only)
    bcs = block_cases(tier)
    rcb, blk_out, logb = run_bin_sharded(bin_st, [b["case"] for b in bcs], "blk", 3, timeout=3000)
    if rcb:
        chk.log("kh_arc failed on the block cases: " + logb[-1500:])
        chk.violation("harness", {"kind": "obligation", "correspondence": "kh_arc crashed (block cases)", "log": logb[-2000:]}, no_input=True)
        return chk.finish("n/a")
    torn = 0
    for bc, out in zip(bcs, blk_out):
        dist["blocks:" + bc["name"].split("(")[0].split(" x")[0]] = dist.get("blocks:" + bc["name"].split("(")[0].split(" x")[0], 0) + 1
        if not out["runs"]:
            continue
        chk.count_case("blk:" + bc["name"], True)
        bad = judge_block(bc, out["runs"][0])
        if bad:
            torn += 1
            failures.append((50 + torn, "input", {
                "kind": "input", "clause": "a compound container operation is atomic: readers see whole blocks only, concurrent "
                                            "writers do not interleave (linearizable to whole operations)",
                "block_case": bc["name"], "detail": bad, "tier": tier, "arc_case": bc["case"], "search_only": True,
                "how_to_rerun": "./check C19 --replay <this file>  (re-runs the block case 3 times)"}))
    chk.log(f"phase blocks: {__import__('time').time() - chk.t0:.1f}s since start")
    # hammers for the known classes
    hams = hammer_cases(tier)
    rchm, ham_out, logm = run_bin_sharded(bin_st, [dict(h[2], timeout_ms=h[2].get("timeout_ms", 60000), abort_after_deadlocks=1000) for h in hams], "ham", 1, timeout=3000)
    for (cls, name, case), out in zip(hams, ham_out):
        dist["hammer:" + cls] = dist.get("hammer:" + cls, 0) + 1
        if not out["runs"]:
            continue
        run = out["runs"][0]
        chk.count_case("ham:" + name, True)
        what = None
        if run["deadlock"]:
            what = f"{name}: deadlock (watchdog), progress {run['progress']}"
        else:
            for ops in run["threads"]:
                for o in ops or []:
                    if "panic" in o:
                        what = f"{name}: panic `{o['panic']}` at {o.get('at')}"
            if "expect_sum" in case and not what:
                fin = parse_final("map", run["final"])
                if fin and fin[0][1] != case["expect_sum"]:
                    what = f"{name}: {case['expect_sum']} increments, final value {fin[0][1]}"
        if what:
            if (cls == "C19a" and "panic" in what) or (cls == "C19b" and "increments" in what) or (cls in ("C19c", "C19d") and "deadlock" in what):
                exhibited.setdefault(cls, what)
            else:
                failures.append((10 ** 6, "input", {"kind": "input", "clause": "unexpected failure mode in a hammer case",
                                                     "detail": what, "arc_case": case, "search_only": True}))
    # rc face of C19d
    rcd, d_out, _ = run_bin(bin_rc, [{"src": "l = [1]\nl.extend l"}, {"src": "m = {a: 1}\nm.extend m"}, {"src": "l = [1]\nl.swap l"}], "rcd")
    rc_panics = sum(1 for o in d_out if "panic" in o)
    for cls in sorted(KNOWN):
        note = exhibited.get(cls)
        if cls == "C19d":
            note = (note or "not exhibited under arc") + f"; rc: {rc_panics}/3 self-alias scripts panic"
        chk.known(KNOWN[cls] + (f" [exhibited this run: {note}]" if note else " [model-level refutation proved; not exhibited by this run's stress]"))

    chk.log(f"phase hammers: {__import__('time').time() - chk.t0:.1f}s since start")
    # ---- verdict
    if failures:
        failures.sort(key=lambda x: x[0])
        _, name, payload = failures[0]
        payload["others"] = len(failures) - 1
        chk.violation(name, payload)
        chk.log(f"{len(failures)} failing inputs; smallest: {json.dumps(payload)[:600]}")
    broken = [o for o in chk.obligations if not o[1]]
    if broken and not failures:
        payload = {"kind": "obligation", "broken": [o[0] + (": " + o[2] if o[2] else "") for o in broken]}
        if disagreements:
            disagreements.sort(key=lambda x: x[0])
            _, c, what, detail = disagreements[0]
            payload["smallest_disagreement"] = {"what": what, "container": c["kind"], "init": list(c["init"]),
                                                "threads_ops": c["threads"],
                                                "threads_src": [[koto_src(o) for o in t] for t in c["threads"]], "detail": detail}
            payload["note"] = "the model of what the critical sections compute no longer matches the implementation"
            chk.log(f"{len(disagreements)} model/impl disagreements; smallest: {json.dumps(payload['smallest_disagreement'])[:800]}")
        chk.violation("obligation", payload, no_input=True)

    tb = ["Coq 8.16.1 kernel (coqc); vm_compute for the table sweep and for evaluating the model",
          "axioms reported by Print Assumptions: " + (", ".join(axioms) if axioms else "none (closed under the global context)"),
          "TRUSTED, NOT MODELLED: parking_lot::RwLock / RefCell provide mutual exclusion (critical sections are atomic steps "
          "of the model by definition); parking_lot's task-fair policy is a parameter (`fair`) of the model",
          "hand transcription of the footprint table (coq/locks/LocksTable.v) from core_lib/list.rs, core_lib/map.rs, vm.rs, "
          "types/iterator.rs; tied only through the section bodies of the 21 operations of LocksOps.v (ops_match_table) "
          "and the stress runs; no lock-event hook exists in koto_memory",
          "kh_run (rc and arc builds), kh_arc (arc build), checks/c19.py (generators, linearization search, Python mirror "
          "of LocksOps.v validated against Coq on every run)"]
    return chk.finish(
        rule="programs: 6 generator families through both builds; sequential op scripts (model vs implementation); random "
             "section schedules (Coq vs mirror); concurrent histories: 2-8 threads x 1-6 single container operations on one "
             "shared list/map, each run repeated, linearization searched with real-time order; long accounting runs; "
             "hammer loops for the known classes.  non-trivial = program prints something / history has >= 2 threads; "
             "distinct by source + observed history",
        explanation="STRESS RUNS ARE SEARCH ONLY: they can exhibit a violation of atomicity / deadlock-freedom, never prove absence. "
                    "The theorems are about the lock-footprint model for all schedules.",
        trusted_base=tb,
        extra={"distribution": dist, "history_verdicts": verdicts, "threads_per_history": threads_hist,
               "exhaustive": False, "model_impl_disagreements": len(disagreements),
               "known_classes_exhibited": exhibited})


def judge_star(pair):
    hc, out = pair
    return [(check_history(hc, run), run) for run in out["runs"]]


def replay(path, args):
    data = json.load(open(path))
    if data.get("kind") != "input":
        print("replay file names an obligation, not an input:", json.dumps(data.get("broken")))
        return run("quick", data.get("seed", 1))
    if "src" in data:
        bin_rc, _ = C.build_harness("kh_run")
        bin_arc, _ = C.build_harness("kh_run", features=["arc"], target_suffix="-arc")
        _, a, _ = run_bin(bin_rc, [{"src": data["src"], "limit_ms": 5000}], "replay-rc")
        _, b, _ = run_bin(bin_arc, [{"src": data["src"], "limit_ms": 5000}], "replay-arc")
        print("rc :", json.dumps(a[0]))
        print("arc:", json.dumps(b[0]))
        if {k: a[0].get(k) for k in ("result", "out", "panic")} != {k: b[0].get(k) for k in ("result", "out", "panic")}:
            print(f"VIOLATION property={PID} replay={path}")
            return 1
        print("both builds agree on this program")
        return 0
    bin_st, _ = C.build_harness("kh_arc", features=["arc"], target_suffix="-arc")
    if "block_case" in data:
        bc = next((b for b in block_cases(data.get("tier", "quick")) if b["name"] == data["block_case"]), None)
        if bc is None:
            print("unknown block case", data["block_case"])
            return 2
        _, out, _ = run_bin(bin_st, [dict(bc["case"], repeat=3)], "replay")
        bads = [b for b in (judge_block(bc, r) for r in out[0]["runs"]) if b]
        print(f"{bc['name']}: {len(bads)}/3 runs show a torn or interleaved block" + (f"; first: {bads[0][:500]}" if bads else ""))
        if bads:
            print(f"VIOLATION property={PID} replay={path}")
            return 1
        print("(schedule-dependent search: not reproduced this time)")
        return 0
    if "acc_case" in data:
        case = data["acc_case"]
        _, out, _ = run_bin(bin_st, [dict({k: v for k, v in case.items() if k not in ("flavour", "expect_final")}, repeat=20)], "replay")
        bads = [b for b in (accounting_check(case, r) for r in out[0]["runs"]) if b]
        print(f"20 fresh runs of the accounting scripts: {len(bads)} fail" + (f"; first: {bads[0]}" if bads else ""))
        if bads:
            print(f"VIOLATION property={PID} replay={path}")
            return 1
        print("(schedule-dependent search: not reproduced this time)")
        return 0
    if "arc_case" in data:
        _, out, _ = run_bin(bin_st, [dict(data["arc_case"], repeat=5)], "replay")
        print(json.dumps(out[0])[:3000])
        print("(schedule-dependent: inspect the runs above)")
        return 0
    hc = {"kind": data["container"], "init": tuple(tuple(x) if isinstance(x, list) else x for x in data["init"]),
          "threads": [[tuple(tuple(a) if isinstance(a, list) else a for a in o) for o in t] for t in data["threads_ops"]],
          "multi": data.get("multi", False)}
    v, d = check_history(hc, data["observed"])
    print(f"recorded history re-judged: {v} {d}")
    bad = v not in ("ok", "undetermined", "known-not-atomic")
    _, out, _ = run_bin(bin_st, [arc_case(hc, 300)], "replay")
    counts = {}
    for r in out[0]["runs"]:
        vv, _ = check_history(hc, r)
        counts[vv] = counts.get(vv, 0) + 1
    print("300 fresh runs of the same scripts:", counts)
    if bad or any(k not in ("ok", "undetermined", "known-not-atomic") for k in counts):
        print(f"VIOLATION property={PID} replay={path}")
        return 1
    print("no clause of C19 fails on this input")
    return 0
