"""C08  The execution limit stops runaway scripts.   (level: partial)

T  coq/rt/C08Props.v: theorems about the model of ExecutionTimeout (cadence, never early, bounded lateness
   under the stated timing hypothesis, terminating runs unaffected) and about the unwinding (a Timeout is
   never delivered to a catch handler of the activation that raised it)
R  (a) GenRtConsts.v regenerated from vm.rs (constants, allow_catch flags at the two unwinding call sites);
   (b) the VERBATIM source text of ExecutionTimeout compiled against a scripted clock, compared call by call
       with the Coq model on the same clocks (both cfg!(debug_assertions) settings)
   (c) GenKotoSettings.v regenerated from koto.rs: every KotoSettings builder method as a function on a record;
       builders_preserve_limit / limit_survives_any_chain are re-proved against it
D  non-terminating shapes x limits on the real runtime (kh_rt): error class, wall clock, catch marker,
   follow-up script on the same instance; terminating scripts with and without a limit; a CONFIGURATION axis: the
   runtime built through Koto::with_settings(KotoSettings::default()...) with the builder methods in many orders,
   through KotoVmSettings directly, and a spawned shared vm; the configured limit after every kind of builder chain
"""
import json
import os
import subprocess
import time

from vlib import common as C
from tools import k2v, k2v_rt

PID = "C08"
UNIT = "rt"

PINNED = ["check_cadence", "cadence_run", "timeout_not_early", "timeout_bound", "terminating_unaffected",
          "adj_exact_satisfies_hypothesis", "timeout_never_caught_by_unwinding", "timeout_not_catchable",
          "nested_timeout_catchable_refuted", "builders_preserve_limit", "limit_survives_any_chain"]

KNOWN_C08A = ("C08a a timeout raised in a NESTED vm activation (generator body, @display or another overload reached "
              "through a native function, functor passed to a core-library function) reaches the enclosing script as an "
              "ordinary error: `catch` swallows it (and through a generator it is no longer a Timeout error)")


def ind(s, n=1):
    return "\n".join(("  " * n + l) if l else l for l in s.split("\n"))


BODIES = {
    "loop": "loop\n  x += 1",
    "while": "while true\n  x += 1",
    "until": "until false\n  x += 1",
    "for_generator": "for v in endless()\n  x += v",
    "for_native_iter": "for v in iterator.repeat(1)\n  x += v",
    # unbounded recursion: every call does some work first, so that the call stack reached within the limit stays
    # shallow (a few thousand frames): unwinding / freeing a very deep stack takes time proportional to its depth
    # and, like native stack or memory exhaustion, is outside the property
    "recursion": "r = |n|\n  for i in 0..300\n    x = i\n  r(n + 1)\nr 0",
    "mutual_recursion": "rec = {}\nrec.a = |n|\n  for i in 0..300\n    x = i\n  rec.b(n + 1)\n"
                        "rec.b = |n|\n  for i in 0..300\n    x = i\n  rec.a(n + 1)\nrec.a 0",
    "loop_calling_fn": "h = |a| a + 1\nloop\n  x = h x",
    "loop_with_inner_catch": "loop\n  try\n    throw 'e'\n  catch err\n    x += 1",
}
PRE = "x = 0\nendless = ||\n  loop\n    yield 1\n"

# where the non-terminating body runs; nested = in another vm activation than the script's top level
WRAPS = {
    "top": (False, lambda b: b),
    "function": (False, lambda b: "f = ||\n  x = 0\n" + ind(b) + "\nf()"),
    "function2": (False, lambda b: "f = ||\n  x = 0\n" + ind(b) + "\ng2 = || f()\ng2()"),
    "method": (False, lambda b: "o =\n  n: 0\n  run: ||\n    x = self.n\n" + ind(b, 2) + "\no.run()"),
    # arithmetic overloads are executed immediately in a nested activation (call_metamap_arithmetic_op);
    # comparison, compound assignment and index overloads run in the calling activation
    "arith_op": (True, lambda b: "o =\n  @+: |other|\n    x = 0\n" + ind(b, 2) + "\ny = o + 1"),
    "compare_op": (False, lambda b: "o =\n  @<: |other|\n    x = 0\n" + ind(b, 2) + "\ny = o < 1"),
    "assign_op": (False, lambda b: "o =\n  @+=: |other|\n    x = 0\n" + ind(b, 2) + "\no += 1"),
    "index_op": (False, lambda b: "o =\n  @index: |i|\n    x = 0\n" + ind(b, 2) + "\ny = o[0]"),
    "generator_body": (True, lambda b: "g = ||\n  x = 0\n" + ind(b) + "\n  yield 1\nfor q in g()\n  print q"),
    "display_op": (True, lambda b: "o =\n  @display: ||\n    x = 0\n" + ind(b, 2) + "\n    'o'\ns = 'v{o}'"),
    "functor": (True, lambda b: "(1..3).each(|q|\n  x = 0\n" + ind(b) + "\n).consume()"),
    "sort_key": (True, lambda b: "[3, 2, 1].sort_by(|q|\n  x = 0\n" + ind(b) + "\n)"),
}


def catch_outer(s):
    return "try\n" + ind(s) + "\ncatch e\n  print 'CAUGHT'"


def catch_loop(s):
    # swallows everything, again and again (gives up after 3 catches so that known-defective shapes end)
    return "k = 0\nwhile k < 3\n  try\n" + ind(s, 2) + "\n  catch e\n    k += 1\n    print 'CAUGHT'"


CATCHES = {"none": lambda s: s, "outer": catch_outer, "loop": catch_loop,
           "typed": lambda s: "try\n" + ind(s) + "\ncatch e: String\n  print 'CAUGHT'\ncatch other\n  print 'CAUGHT'"}

FOLLOW = "export z = [1, 2]\n'a{(size z) + 1}b'"
FOLLOW_EXPECT = 's"a3b"'

TERMINATING = [
    ("arith", "x = 0\nfor i in 0..2000\n  x += i % 7\nx"),
    ("strings", "s = ''\nfor i in 0..50\n  s = '{s}{i}'\nsize s"),
    ("calls", "f = |n| if n < 2 then n else f(n - 1) + f(n - 2)\nf 15"),
    ("generator", "g = ||\n  for i in 0..100\n    yield i\nt = 0\nfor v in g()\n  t += v\nt"),
    ("throws", "try\n  throw 'x'\ncatch e\n  'caught {e}'"),
    ("uncaught", "f = || throw 'boom'\nf()"),
    ("long_crossing_checks", "x = 0\nfor i in 0..1200000\n  x += i % 7\nx"),
]


def slack_ms(limit, shape=""):
    # generous on purpose: the machine is shared.  Unbounded recursion additionally has to unwind (and free) a call
    # stack whose depth is proportional to the limit before the error is returned; that work is outside the timer logic
    if "recursion" in shape:
        return max(5000, 5 * limit)
    return max(2000, 3 * limit)


def gen_cases(tier, seed):
    rng = C.Rng(seed)
    cases = []
    cdir = os.path.join(C.VERIF, "corpus", PID)
    if os.path.isdir(cdir):
        for f in sorted(os.listdir(cdir)):
            for line in open(os.path.join(cdir, f), encoding="utf-8"):
                line = line.strip()
                if line:
                    c = json.loads(line)
                    c.setdefault("origin", "corpus")
                    cases.append(c)
    limits_quick = [20, 50, 100, 300, 1000]
    limits_thorough = [20, 35, 50, 100, 200, 300, 500, 1000, 2000]
    limits = limits_quick if tier == "quick" else limits_thorough
    shapes = []
    for bn, b in BODIES.items():
        for wn, (nested, w) in WRAPS.items():
            for cn, cf in CATCHES.items():
                shapes.append((bn, wn, cn, nested))
    # every shape gets one limit in the quick tier (rotating so that each limit sees every kind of shape over
    # the seeds), all limits in the thorough tier; recursion only with small limits (memory)
    n = 0
    for (bn, wn, cn, nested) in shapes:
        if tier == "quick":
            # quick: all same-activation shapes; a third of the nested (known-class) ones
            if nested and rng.below(3) != 0:
                continue
            ls = [limits[(n + seed) % len(limits)]]
            if ls[0] >= 1000 and rng.below(4) != 0:
                ls = [limits[rng.below(3)]]
        else:
            ls = limits
        n += 1
        for lim in ls:
            if "recursion" in bn and lim > 100:
                lim = [20, 50, 100][rng.below(3)]
            src = PRE + CATCHES[cn](WRAPS[wn][1](BODIES[bn])) + "\nprint 'END'\n"
            cases.append({"kind": "t", "src": src, "limit_ms": lim, "follow": FOLLOW, "origin": "shape",
                          "shape": f"{bn}/{wn}/{cn}", "nested": nested, "expect": "timeout"})
    cases += config_cases(tier, seed)
    for name, src in TERMINATING:
        for lim in ([None, 5000] if tier == "quick" else [None, 2000, 5000, 20000]):
            cases.append({"kind": "t", "src": src, "limit_ms": lim, "follow": FOLLOW, "origin": "terminating",
                          "shape": "terminating/" + name, "nested": False, "expect": "same"})
    return cases


OTHER_BUILDERS = ["stdout", "stderr", "stdin", "args", "callback", "inherit_args", "run_tests_off"]
CONFIG_SCRIPTS = [
    ("loop", PRE + "loop\n  x += 1\nprint 'END'\n", 60, "timeout"),
    ("while-in-fn-in-try", PRE + catch_outer("f = ||\n  x = 0\n  while true\n    x += 1\nf()") + "\nprint 'END'\n", 40, "timeout"),
    ("for-over-generator", PRE + "for v in endless()\n  x += v\nprint 'END'\n", 80, "timeout"),
    ("fast", "x = 0\nfor i in 0..2000\n  x += i % 7\nprint 'done'\nx", 5000, "same"),
    ("long-crossing-checks", "x = 0\nfor i in 0..1200000\n  x += i % 7\nx", 5000, "same"),
]


def config_orders(rng, tier):
    """orders of the KotoSettings builder calls (stdout and stderr are always installed: the scripts print)"""
    orders = []
    rest = lambda used: [b for b in ("stdout", "stderr") if b not in used]
    for b in OTHER_BUILDERS:                       # limit first, then each other builder method
        orders.append(["limit", b] + rest([b]))
        orders.append([b, "limit"] + rest([b]))    # .. and the other way round
    allb = list(OTHER_BUILDERS)
    orders.append(["inherit_io", "limit"] + allb)              # limit near the front, everything after it
    orders.append(["inherit_io"] + allb + ["limit"])           # limit last
    for _ in range(4 if tier == "quick" else 40):              # limit in between, shuffled
        sh = list(allb)
        for i in range(len(sh) - 1, 0, -1):
            j = rng.below(i + 1)
            sh[i], sh[j] = sh[j], sh[i]
        k = 1 + rng.below(len(sh) - 1)
        orders.append(sh[:k] + ["limit"] + sh[k:])
    return orders


def config_cases(tier, seed):
    rng = C.Rng(seed * 31 + 5)
    cases = []
    configs = [{"via": "vm"}, {"via": "vm-spawned"}] + [{"via": "koto", "order": o} for o in config_orders(rng, tier)]
    for ci, cfg in enumerate(configs):
        tag = cfg["via"] + (":" + ">".join(cfg["order"]) if "order" in cfg else "")
        for si, (name, src, lim, expect) in enumerate(CONFIG_SCRIPTS):
            if tier == "quick" and name == "long-crossing-checks" and ci % 5 != 0:
                continue
            cases.append({"kind": "t", "src": src, "limit_ms": lim, "follow": FOLLOW, "origin": "config",
                          "shape": f"config/{name}@{tag}", "nested": False, "expect": expect, "config": cfg,
                          "nonterminating": expect == "timeout"})
    # the settings alone: the configured limit after every kind of chain
    allb = OTHER_BUILDERS + ["inherit_io"]
    chains = [["limit"]] + [["limit", b] for b in allb] + [[b, "limit"] for b in allb]
    for _ in range(60 if tier == "quick" else 600):
        sh = list(allb)
        for i in range(len(sh) - 1, 0, -1):
            j = rng.below(i + 1)
            sh[i], sh[j] = sh[j], sh[i]
        sh = sh[:1 + rng.below(len(sh))]
        k = rng.below(len(sh) + 1)
        chains.append(sh[:k] + ["limit"] + sh[k:])
    for ch in chains:
        cases.append({"kind": "cfg", "order": ch, "limit_ms": 75, "origin": "settings-chain", "shape": "settings/" + ">".join(ch),
                      "nested": False, "expect": "cfg"})
    return cases


def d_timeout(case, r):
    """clauses of C08 on one non-terminating case; returns list of failures"""
    fails = []
    lim = case["limit_ms"]
    if "panic" in r:
        return [f"panicked: {r['panic']} at {r.get('at')}"]
    if r["r"] != "ETimeout":
        fails.append(f"returned {r['r']} instead of a timeout error")
    if "CAUGHT" in r["out"]:
        fails.append("the catch block ran (the timeout was delivered to `catch`)")
    if "END" in r["out"]:
        fails.append("the script continued after the non-terminating part")
    wall = r["wall_us"] / 1000.0
    if wall > lim + slack_ms(lim, case.get("shape", "")):
        fails.append(f"returned after {wall:.0f} ms, limit {lim} ms + slack {slack_ms(lim, case.get('shape', ''))} ms")
    if r["r"] == "ETimeout" and wall < lim:
        fails.append(f"timeout reported after {wall:.1f} ms, before the limit of {lim} ms")
    fo = r.get("follow") or {}
    if "panic" in fo:
        fails.append(f"follow-up script on the same instance panicked: {fo['panic']}")
    elif fo.get("r") != FOLLOW_EXPECT:
        fails.append(f"follow-up script on the same instance returned {fo.get('r')} instead of {FOLLOW_EXPECT}")
    return fails


def run_cases(binp, cases, shards, hard_cap):
    """runs kh_rt on `shards` interleaved slices in parallel; returns list of result-or-None per case"""
    os.makedirs(os.path.join(C.BUILD, "cases"), exist_ok=True)
    procs = []
    for s in range(shards):
        idx = list(range(s, len(cases), shards))
        cf = os.path.join(C.BUILD, "cases", f"c08-{os.getpid()}-{s}.jsonl")
        with open(cf, "w") as f:
            for i in idx:
                f.write(json.dumps({k: cases[i][k] for k in ("kind", "src", "limit_ms", "follow", "config", "nonterminating", "order")
                                    if k in cases[i]}) + "\n")
        p = subprocess.Popen([binp, cf], stdout=subprocess.PIPE, stderr=subprocess.DEVNULL, text=True, env=C.ENV)
        procs.append((p, idx, cf))
    results = [None] * len(cases)
    t_end = time.time() + hard_cap
    for p, idx, cf in procs:
        try:
            out, _ = p.communicate(timeout=max(1, t_end - time.time()))
        except subprocess.TimeoutExpired:
            p.kill()
            out, _ = p.communicate()
        lines = [l for l in out.splitlines() if l.startswith("{")]
        for i, l in zip(idx, lines):
            try:
                results[i] = json.loads(l)
            except json.JSONDecodeError:
                pass
        # the first case without a line is the one that did not return; the ones after it were never started
        for i in idx[len(lines) + 1:]:
            results[i] = {"not_run": True}
        os.remove(cf)
    return results


# ---------------------------------------------------------------------------------------------
# R(b): the real ExecutionTimeout source against a scripted clock, vs the Coq model


def build_driver(driver_src, debug):
    out = driver_src[:-3] + ("_dbg" if debug else "_rel")
    rc, log = C.sh(["rustc", "--edition", "2021", "-O", "-C", "debug-assertions=" + ("on" if debug else "off"),
                    "-o", out, driver_src], timeout=300)
    return (out if rc == 0 else None), log


def clock_cases(tier, seed):
    """scripted clocks, run-length encoded: (limit_ns, t0, [(count, increment per call), ...])"""
    rng = C.Rng(seed * 7919 + 13)
    cases = []
    limits = [0, 5, 9, 10, 95, 500, 1000, 5000, 10000, 33333, 100000, 1000000, 1577401]
    n = 78 if tier == "quick" else 800
    for i in range(n):
        lim = limits[i % len(limits)] if i < 3 * len(limits) else 1 + rng.below(2000000)
        regime = rng.below(7)
        t0 = rng.below(1000)
        segs = []
        ncalls = 300 + rng.below(2500)
        d0 = 1 + rng.below(200)
        k = 0
        while k < ncalls:
            c = 1 + rng.below(60)
            if regime == 0:
                c, d = ncalls, d0                        # constant speed
            elif regime == 1:
                d = 1 + rng.below(2 * d0)                # jitter (per short segment)
            elif regime == 2:
                if rng.below(4):
                    d = d0
                else:
                    c, d = 1, d0 * (50 + rng.below(400))  # occasional slow instruction (native call)
            elif regime == 3:
                d = 0 if rng.below(3) else rng.below(d0)  # stalling clock (elapsed may be 0)
            elif regime == 4:
                c, d = 100, d0 * (1 + k // 100)          # slowing down
            elif regime == 5:
                c, d = 50, max(1, d0 * 20 // (1 + k // 50))   # speeding up
            else:
                c, d = ncalls, 0                         # frozen clock
            segs.append((c, d))
            k += c
        cases.append((lim, t0, segs))
    return cases


def expand_clock(t0, segs):
    ts = [t0]
    t = t0
    for c, d in segs:
        for _ in range(c):
            t += d
            ts.append(t)
    return ts


def timer_correspondence(chk, tier, seed, driver_src):
    ok_all = True
    dist = {}
    runs = []      # (debug, cases, impl)
    for debug in (True, False):
        name = f"corr:timer-source-vs-model debug_assertions={debug}"
        exe, log = build_driver(driver_src, debug)
        if not exe:
            chk.log("timer driver does not compile:\n" + log[-2000:])
            chk.oblige(name, False, "rustc failed")
            ok_all = False
            continue
        cases = clock_cases(tier, seed + (0 if debug else 1))
        inp = "\n".join(" ".join(str(x) for x in [lim] + expand_clock(t0, segs)) for lim, t0, segs in cases) + "\n"
        rc, out = C.sh([exe], input=inp, timeout=300)
        lines = out.strip().split("\n")
        if rc != 0 or len(lines) != len(cases):
            chk.oblige(name, False, f"driver rc={rc}: {out[-300:]}")
            ok_all = False
            continue
        impl = []
        for l in lines:
            parts = l.split()
            n0 = int(parts[0][3:])
            steps = [tuple(int(x) for x in p.split(",")) for p in parts[1:]]
            impl.append((n0, steps))
        runs.append((debug, cases, impl))
    terms = []
    for debug, cases, impl in runs:
        for (lim, t0, segs), (n0, steps) in zip(cases, impl):
            # only the calls the implementation made (it stops when it fires)
            need = len(steps)
            used = []
            for c, d in segs:
                if need <= 0:
                    break
                used.append((min(c, need), d))
                need -= min(c, need)
            # re-arming steps: fired = 0 and the counter is back at 0 (counting steps leave it >= 1)
            orc = [s[1] for s in steps if s[0] == 0 and s[2] == 0]
            seg_txt = "[" + "; ".join(f"({c}, {d})" for c, d in used) + "]"
            terms.append(f"(timer_first {str(debug).lower()} {lim}, timer_out {str(debug).lower()} {lim} {t0} "
                         f"{seg_txt} {n0} {C.coq_list(orc)})")
    header = "From KV.rt Require Import TimeoutModel RtModel RtRun.\nFrom Coq Require Import ZArith List.\n" \
             "Import ListNotations.\nOpen Scope Z_scope.\n"
    try:
        vals = C.coq_eval(UNIT, header, terms, tag="c08t", per_shard=max(40, len(terms) // 6 + 1))
    except RuntimeError as e:
        chk.log(str(e)[-2000:])
        chk.oblige("corr:timer-source-vs-model", False, "model evaluation failed")
        return False, dist
    pos = 0
    for debug, cases, impl in runs:
        name = f"corr:timer-source-vs-model debug_assertions={debug}"
        bad = []
        rounding = 0
        reads = 0
        fired = 0
        for ci, ((lim, t0, segs), (n0, steps)) in enumerate(zip(cases, impl)):
            m0, mtrace = vals[pos]
            pos += 1
            chk.count_case(f"clock lim={lim} debug={debug} t0={t0} {segs[:3]}..", len(steps) > 5)
            if m0 != n0:
                rounding += 1
                if abs(m0 - n0) > 1 + (m0 >> 40):
                    bad.append((ci, f"first interval: source {n0}, model {m0}"))
                    continue
            # the implementation's trace: counting calls only count; reading calls fire or re-arm
            ireads = []
            prev_i, prev_s = n0, 0
            cadence_bad = None
            for k, st in enumerate(steps, 1):
                if st[0] == 0 and st[2] != 0:
                    if prev_s >= prev_i or st[2] != prev_s + 1 or st[1] != prev_i:
                        cadence_bad = f"call {k}: counting step {st} after (interval,since)=({prev_i},{prev_s})"
                        break
                else:
                    if prev_s < prev_i:
                        cadence_bad = f"call {k}: clock read/fire {st} after only {prev_s} of {prev_i} instructions"
                        break
                    ireads.append((k, st[0], st[1]))
                prev_i, prev_s = st[1], st[2]
            if cadence_bad:
                bad.append((ci, cadence_bad))
                continue
            mreads = [(m[0], m[1], m[2]) for m in mtrace]
            if mreads != ireads:
                d = next((x for x in zip(ireads, mreads) if x[0] != x[1]), (ireads[len(mreads):][:1], mreads[len(ireads):][:1]))
                bad.append((ci, f"clock reads (call, fired, interval): source {d[0]}, model {d[1]}"))
                continue
            for (k, f, iv), m in zip(ireads, mtrace):
                mex = m[3]
                if mex >= 0:
                    reads += 1
                    if iv != mex:
                        rounding += 1
                        if abs(iv - mex) > 1 + (mex >> 40):
                            bad.append((ci, f"call {k}: interval adjustment: source {iv}, exact {mex}"))
                            break
                if f:
                    fired += 1
        dist[f"clocks debug_assertions={debug}"] = {"cases": len(cases), "clock_reads": reads, "fired": fired,
                                                  "f64_rounding_off_by_one": rounding}
        chk.oblige(name, not bad, "; ".join(f"case {c}: {w}" for c, w in bad[:3]))
        if bad:
            ok_all = False
            ci, what = bad[0]
            chk.timer_disagreement = {"limit_ns": cases[ci][0], "clock_t0": cases[ci][1],
                                      "clock_segments(count,increment)": cases[ci][2][:40], "what": what,
                                      "debug_assertions": debug}
    return ok_all, dist


def theorems(chk, pinned, props_file):
    ok, log = C.coq_build(UNIT)
    if not ok:
        chk.log("coq unit rt does not build:\n" + log[-2500:])
    pr = C.check_props_file(UNIT, props_file, pinned) if ok else {"ok": False, "missing": [], "bad_axioms": [], "axioms": [], "log": log}
    hits = C.forbidden_scan(UNIT)
    if ok and not pr["ok"]:
        chk.log(props_file + " does not check:\n" + pr["log"][-2500:])
    for name in pinned:
        good = ok and pr["ok"] and name not in pr["missing"] and ("Print Assumptions " + name) not in pr["missing"] \
            and not pr["bad_axioms"] and not hits
        chk.oblige("thm:" + name, good)
    if hits:
        chk.log("forbidden constructs: " + "; ".join(hits))
    if pr["bad_axioms"]:
        chk.log("axioms outside the allowlist: " + ", ".join(pr["bad_axioms"]))
    return ok and pr["ok"], pr.get("axioms", [])


def run(tier, seed):
    chk = C.Check(PID, tier, seed, "partial")
    chk.timer_disagreement = None
    # ---- ties to the source text
    driver_src = os.path.join(C.BUILD, "gen", f"timer_driver_{C.repo_tag()}.rs")
    try:
        info, _ = k2v_rt.gen_rt(os.path.join(C.COQ, UNIT, "GenRtConsts.v"), driver_src)
        chk.oblige("gen:rt (k2v_rt: ExecutionTimeout constants, allow_catch at both unwinding call sites, timer per entry)", True)
        gen_ok = True
    except k2v.GenError as e:
        chk.oblige("gen:rt", False, str(e))
        chk.log(f"translator failed: {e}")
        gen_ok = False
    try:
        builders, _ = k2v_rt.gen_settings(os.path.join(C.COQ, UNIT, "GenKotoSettings.v"))
        chk.oblige("gen:settings (k2v_rt: every KotoSettings builder method: fields set, struct-update bases)", True)
        odd = [b["name"] for b in builders if not (b["vm_base_is_self"] and b["outer_base_is_self"])]
        if odd:
            chk.log("builder methods that do not carry the previous settings over: " + ", ".join(odd))
    except k2v.GenError as e:
        chk.oblige("gen:settings", False, str(e))
        chk.log(f"translator failed: {e}")
        gen_ok = False
    # ---- T
    model_ok, axioms = (False, [])
    if gen_ok:
        model_ok, axioms = theorems(chk, PINNED, "C08Props")
    else:
        for name in PINNED:
            chk.oblige("thm:" + name, False, "constants could not be regenerated")
    # ---- R(b)
    dist = {}
    if gen_ok and model_ok:
        _, dist = timer_correspondence(chk, tier, seed, driver_src)
    else:
        chk.oblige("corr:timer-source-vs-model", False, "model unavailable")

    # ---- D
    binp, blog = C.build_harness("kh_rt")
    if not binp:
        chk.log("harness build failed:\n" + blog[-3000:])
        chk.violation("build", {"kind": "obligation", "correspondence": "kh_rt does not build against the koto checkout",
                                "log": blog[-3000:]}, no_input=True)
        return chk.finish("n/a")
    cases = gen_cases(tier, seed)
    budget = sum(((c["limit_ms"] or 0) if c["expect"] == "timeout" else 0) + 400 for c in cases if c["kind"] == "t") / 1000.0
    shards = 4 if tier == "quick" else 6
    hard_cap = 90 + 3 * budget / shards
    results = run_cases(binp, cases, shards, hard_cap)

    d_fail = []
    shape_dist = {}
    walls = {}
    base = {}
    cfg_base = {}
    for c, r in zip(cases, results):
        if c["origin"] == "config" and c["expect"] == "same" and c.get("config", {}).get("via") == "vm" and r and "r" in r:
            cfg_base[c["shape"].split("@")[0]] = r
    for c, r in zip(cases, results):
        key = c["origin"] + ("/nested" if c.get("nested") else "")
        shape_dist[key] = shape_dist.get(key, 0) + 1
        if c["expect"] == "same" and c["limit_ms"] is None and r is not None and not r.get("not_run"):
            base[c["shape"]] = r
    for c, r in zip(cases, results):
        if r is not None and r.get("not_run"):
            shape_dist["not run (an earlier case of the shard never returned)"] = \
                shape_dist.get("not run (an earlier case of the shard never returned)", 0) + 1
            continue
        chk.count_case(c["shape"] + "@" + str(c["limit_ms"]), True)
        if r is None:
            d_fail.append((c, None, [f"did not return within the hard cap of {hard_cap:.0f} s (limit {c['limit_ms']} ms)"]))
            continue
        if c["expect"] == "cfg":
            if r.get("limit_ms") != c["limit_ms"]:
                d_fail.append((c, r, [f"KotoSettings built with the calls {' > '.join(c['order'])} (limit = with_execution_limit("
                                      f"{c['limit_ms']} ms)) has execution_limit = {r.get('limit_ms')}"]))
            continue
        if c["expect"] == "timeout":
            fails = d_timeout(c, r)
            if not fails:
                walls.setdefault(c["limit_ms"], []).append(r["wall_us"] / 1000.0 - c["limit_ms"])
            if fails and c.get("nested"):
                chk.known(KNOWN_C08A)
            elif fails:
                d_fail.append((c, r, fails))
        else:
            b = base.get(c["shape"])
            if b is None and c["origin"] == "config":
                b = cfg_base.get(c["shape"].split("@")[0])
            fails = []
            if "panic" in r:
                fails.append(f"panicked: {r['panic']}")
            elif r["r"] == "ETimeout":
                fails.append(f"terminating script reported a timeout (limit {c['limit_ms']} ms, ran {r['wall_us'] / 1000:.0f} ms)")
            elif b is not None and (b.get("r"), b.get("out")) != (r["r"], r["out"]):
                fails.append(f"result with limit {c['limit_ms']} ms: {r['r']}, without: {b.get('r')}")
            if fails and not (c["limit_ms"] and r.get("wall_us", 0) / 1000.0 >= c["limit_ms"]):
                d_fail.append((c, r, fails))
    lateness = {str(k): {"n": len(v), "max_ms_over_limit": round(max(v), 2)} for k, v in sorted(walls.items())}

    # ---- verdict
    if d_fail:
        d_fail.sort(key=lambda x: len(x[0].get("src", "")) + 10 * len(x[0].get("order", [])))
        c, r, fails = d_fail[0]
        chk.violation("input", {"kind": "input", "case": {k: c[k] for k in ("kind", "src", "limit_ms", "follow", "shape", "nested", "expect",
                                                                             "config", "nonterminating", "order") if k in c},
                                "impl_says": r, "predicate_failed": fails, "others": len(d_fail) - 1,
                                "how_to_rerun": "./check C08 --replay <this file>"})
        chk.log(f"{len(d_fail)} cases violate C08 on the implementation; smallest: {c['shape']} limit {c['limit_ms']} ms: {fails[:2]}")
        seen_shapes = set()
        for cc, rr, ff in d_fail[:400]:
            key = cc["shape"].split("@")[0] + " | " + ff[0][:110]
            if key not in seen_shapes and len(seen_shapes) < 8:
                seen_shapes.add(key)
                chk.log("  e.g. " + cc["shape"][:150] + ": " + ff[0][:160])
    broken = [o for o in chk.obligations if not o[1]]
    if broken and not d_fail:
        payload = {"kind": "obligation", "broken": [o[0] + (": " + o[2] if o[2] else "") for o in broken]}
        if chk.timer_disagreement:
            payload["smallest_disagreement"] = chk.timer_disagreement
            payload["note"] = ("every non-terminating shape was still stopped within the slack, but ExecutionTimeout no longer "
                               "behaves like the model the theorems are about")
        chk.violation("obligation", payload, no_input=True)

    chk.assumptions = [
        "timeout_bound ASSUMES (Section hypotheses): every instruction takes between dmin > 0 and dmax ns and the clock is "
        "monotone; a bytecode loop whose single instructions are long native calls is checked late (the N0*dmax term)",
        "wall-clock behaviour, Instant monotonicity and OS scheduling are runtime behaviour outside the model; the sweep of "
        "shapes x limits is a search, not a proof",
        "interval adjustment: theorems hold for every adjustment within +1 of the exact quotient (adj_ok); the f64 evaluation "
        "of the real code is compared with the exact quotient on scripted clocks (tolerance 1 + 2^-40 relative)",
    ]
    tb = ["Coq 8.16.1 kernel (coqc); vm_compute for evaluating the model",
          "axioms reported by Print Assumptions: " + (", ".join(axioms) if axioms else "none (closed under the global context)"),
          "tools/k2v_rt.py (region extraction from vm.rs); rustc for the scripted-clock driver",
          "kh_rt (Rust harness), checks/c08.py (shapes, D-predicates, slack = max(2 s, 3 x limit); recursion shapes max(5 s, 5 x limit))"]
    return chk.finish(
        rule="non-terminating shapes = 9 bodies x 12 placements x 4 catch arrangements, each with a limit from "
             "{20..1000} ms (quick: one limit per shape, rotating with the seed; thorough: all limits {20..2000}); terminating "
             "scripts with/without limit; scripted clocks for the timer (7 regimes incl. frozen / stalling clocks); "
             "distinct by shape@limit",
        explanation="timer logic and unwinding proved on the model; the model is tied to the source text (generated constants, "
                    "verbatim source vs scripted clock); the property's clauses are evaluated on the real runtime",
        trusted_base=tb,
        extra={"distribution": shape_dist, "timer_correspondence": dist, "lateness_by_limit_ms": lateness,
               "exhaustive": False, "hard_cap_s": round(hard_cap, 1)})


def replay(path, args):
    data = json.load(open(path))
    case = data.get("case")
    if case is None:
        print("replay file names an obligation, not an input:", json.dumps(data.get("broken")))
        return run("quick", data.get("seed", 1))
    binp, blog = C.build_harness("kh_rt")
    if not binp:
        print(blog[-2000:])
        return 3
    res = run_cases(binp, [case], 1, 120)
    r = res[0]
    print(json.dumps(r))
    if r is None:
        print("  did not return within 120 s")
        print(f"VIOLATION property={PID} replay={path}")
        return 1
    if case.get("expect") == "cfg":
        fails = [] if r.get("limit_ms") == case["limit_ms"] else [f"execution_limit after the chain is {r.get('limit_ms')}"]
    elif case.get("expect") == "timeout":
        fails = d_timeout(case, r)
    else:
        fails = [f"terminating script returned {r.get('r')}"] if r.get("r") == "ETimeout" or "panic" in r else []
    for f in fails:
        print("  " + f)
    if fails and case.get("nested"):
        print(f"KNOWN-FINDING: property={PID} {KNOWN_C08A}")
        return 0
    if fails:
        print(f"VIOLATION property={PID} replay={path}")
        return 1
    print("no clause of C08 fails on this input")
    return 0
